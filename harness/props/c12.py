"""C12 - global modification rules equal the explicit per-residue form; isotope labels."""
import copy
import json
import os

from .. import annot, core, translate_tables
from . import c12_env as E

PID = 'C12'
DRV = 'drv_c12'

REGISTRY = {
    'id': 'C12',
    'text': 'Lean theorems over a hand-written model of parse_static_mods / condense_static_mods / count_residues and of the '
            'structure of mass and comp_mass with every number a parameter: the condensed annotation is the explicit per-target '
            'form, the fast-path mass with rules equals the mass of the condensed form for ANY residue and modification weights, '
            'count_residues is invariant, a global label shifts the composition-path mass by (#atoms of the element in residues, '
            'termini and charge carrier [+ modifications when requested]) x (isotope mass difference) for ANY element masses. '
            'Concrete layer: the environment over the tables regenerated from /repo is proved coherent (kernel-checked), the fast '
            'path is bridged to the concrete mass model of C02 (Mass.mass), so mass_condense holds there; the fragment clause is '
            'proved in the Fragment model of C04 with condense_static_mods := the C12 model. '
            'Model tied to /repo by differential correspondence; rule form vs independently built explicit form compared on the '
            'real mass, comp_mass, fragment, count_residues, condense_static_mods',
    'note': 'trusted: Lean kernel, axioms propext/Classical.choice/Quot.sound, the correspondence harness, numbers resolved by the '
            'implementation (mod_mass, mod_comp, tables: C02/C03/C10), re.finditer for single-letter targets',
    'technique': 'Lean 4 proof about executable model + differential correspondence + relational oracle on the implementation',
}

IONS = ['p', 'b', 'y', 'c', 'z']


def _case(a, rules, **kw):
    d = {'a': annot.dump(a, sort_internal=False), 'rules': [[list(m), list(t)] for m, t in rules]}
    d.update(kw)
    return d


def _ann(c):
    return annot.undump(c['a'])


def _rules(c):
    return [(m, t) for m, t in c['rules']]


def oracles():
    """the property evaluated on the implementation: name -> function(case) -> None | description of the failure"""
    pt, mass_calc, constants, chem_calc, chem_constants, chem_util, pp, Mod, Interval = E.pt_mods()
    from peptacular.sequence import sequence_funcs

    def o_condense(c):
        a = _ann(c)
        before = annot.dump(a)
        ex = E.explicit_form(a, _rules(c))
        got = a.condense_static_mods(inplace=False)
        if annot.dump(got) != annot.dump(ex):
            return f'condensed {annot.dump(got)} != explicit form {annot.dump(ex)}'
        if got.static_mods is not None:
            return 'static rules still present after condensing'
        if annot.dump(a) != before:
            return 'condense_static_mods(inplace=False) changed its argument'
        s = sequence_funcs.condense_static_mods(a.serialize())
        if s != ex.serialize():
            return f'condense_static_mods on the string gave {s}, explicit form is {ex.serialize()}'
        b = copy.deepcopy(a)
        b.condense_static_mods(inplace=True)
        if annot.dump(b) != annot.dump(ex):
            return 'inplace=True result differs from the explicit form'
        return None

    def o_mass(c):
        a = _ann(c)
        ex = E.explicit_form(a, _rules(c))
        for ion in IONS:
            for mono in (True, False):
                for use in ((False, True) if a.isotope_mods else (False,)):
                    m1 = mass_calc.mass(a, ion_type=ion, monoisotopic=mono, use_isotope_on_mods=use)
                    m2 = mass_calc.mass(ex, ion_type=ion, monoisotopic=mono, use_isotope_on_mods=use)
                    if abs(m1 - m2) > 1e-6:
                        return f'mass ion={ion} monoisotopic={mono} use_isotope_on_mods={use}: rule form {m1!r} != explicit form {m2!r}'
        return None

    def o_comp(c):
        a = _ann(c)
        ex = E.explicit_form(a, _rules(c))
        for ion in IONS:
            for use in ((False, True) if a.isotope_mods else (False,)):
                c1, d1 = mass_calc.comp_mass(a, ion, use_isotope_on_mods=use)
                c2, d2 = mass_calc.comp_mass(ex, ion, use_isotope_on_mods=use)
                if c1 != c2 or abs(d1 - d2) > 1e-9:
                    return f'comp_mass ion={ion} use_isotope_on_mods={use}: rule form {(c1, d1)} != explicit form {(c2, d2)}'
        return None

    def frag_key(f):
        return (f.ion_type, f.start, f.end, f.charge, f.isotope, f.loss)

    def o_frag(c):
        a = _ann(c)
        ex = E.explicit_form(a, _rules(c))
        for mono in (True, False):
            try:
                f1 = pt.fragment(copy.deepcopy(a), ['b', 'y', 'c', 'z', 'a', 'x'], [1, 2], monoisotopic=mono)
            except ValueError as e1:
                # fragment refuses ambiguous sequences (unknown-position / interval mods): then it must refuse both forms
                try:
                    pt.fragment(copy.deepcopy(ex), ['b', 'y'], [1], monoisotopic=mono)
                except ValueError as e2:
                    if str(e1) == str(e2):
                        return None
                return f'fragment raised {e1!r} for the rule form only'
            f2 = pt.fragment(copy.deepcopy(ex), ['b', 'y', 'c', 'z', 'a', 'x'], [1, 2], monoisotopic=mono)
            k1 = [frag_key(f) for f in f1]
            k2 = [frag_key(f) for f in f2]
            if k1 != k2:
                return 'fragment lists have different keys'
            for x, y in zip(f1, f2):
                if abs(x.mz - y.mz) > 1e-6 or abs(x.mass - y.mass) > 1e-6:
                    return (f'fragment {x.label} monoisotopic={mono}: rule form mz {x.mz!r} != explicit form {y.mz!r}')
        return None

    def o_count(c):
        a = _ann(c)
        ex = E.explicit_form(a, _rules(c))
        c1 = sequence_funcs.count_residues(a)
        c2 = sequence_funcs.count_residues(ex)
        if c1 != c2:
            return f'count_residues: rule form {dict(c1)} != explicit form {dict(c2)}'
        if sum(c1.values()) != len(a.sequence):
            return 'count_residues does not count every residue once'
        return None

    iso = E.REF_ISOTOPE_MASS      # hand-typed reference, independent of the library's element table (data/chem.txt)

    def label_delta(lab):
        return iso[lab] - iso[E.LABEL_ELEMENT[lab]]

    def o_label(c):
        a = _ann(c)
        labs = c['labels']
        fast = mass_calc.mass(a)                      # neutral, unlabelled, fast path (tabulated masses of named mods)
        c0, d0 = mass_calc.comp_mass(a)
        base = chem_util.chem_mass(c0) + d0           # neutral, unlabelled, through the composition (the path a label takes)
        if abs(fast - base) > 1e-4:
            return f'mass {fast!r} and composition mass {base!r} differ by more than 1e-4 (C03)'
        bare = pp.ProFormaAnnotation(_sequence=a.sequence)
        backbone = mass_calc.comp(bare)               # residues + termini
        lab_a = copy.deepcopy(a)
        lab_a._isotope_mods = [Mod(x, 1) for x in labs]
        got = mass_calc.mass(lab_a)
        exp = sum(backbone.get(E.LABEL_ELEMENT[x], 0) * label_delta(x) for x in labs)
        if abs((got - base) - exp) > 2e-6:
            return f'labels {labs}: shift {got - base!r}, expected {exp!r} = atoms in residues and termini x isotope difference'
        # the same through the argument instead of the annotation
        got2 = mass_calc.mass(a, isotope_mods=[Mod(x, 1) for x in labs])
        if abs(got2 - got) > 1e-9:
            return 'isotope_mods argument and <label> in the annotation disagree'
        # modifications are reached only when requested
        modc, _ = mass_calc.comp_mass(a)
        plain = mass_calc.comp(bare)
        inmods = {k: modc.get(k, 0) - plain.get(k, 0) for k in set(modc) | set(plain)}
        got3 = mass_calc.mass(lab_a, use_isotope_on_mods=True)
        exp3 = exp + sum(inmods.get(E.LABEL_ELEMENT[x], 0) * label_delta(x) for x in labs)
        if abs((got3 - base) - exp3) > 2e-6:
            return f'labels {labs} use_isotope_on_mods=True: shift {got3 - base!r}, expected {exp3!r}'
        # absent element: unchanged
        for x in labs:
            if backbone.get(E.LABEL_ELEMENT[x], 0) == 0:
                one = copy.deepcopy(a)
                one._isotope_mods = [Mod(x, 1)]
                if abs(mass_calc.mass(one) - base) > 2e-6:
                    return f'label {x}: peptide without {E.LABEL_ELEMENT[x]} changed mass'
        # composition: the labelled atoms are renamed, nothing else changes
        cl, dl = mass_calc.comp_mass(lab_a)
        if abs(dl - d0) > 1e-9:
            return 'label changed the delta mass'
        return None

    return {'condense_is_explicit_form': o_condense, 'mass_rule_vs_explicit': o_mass, 'comp_rule_vs_explicit': o_comp,
            'fragments_rule_vs_explicit': o_frag, 'count_residues_rule_vs_explicit': o_count, 'label_shift': o_label}


def run(chk):
    pt, mass_calc, constants, chem_calc, chem_constants, chem_util, pp, Mod, Interval = E.pt_mods()
    from peptacular.sequence import sequence_funcs
    tier = chk.tier
    rng = chk.rng
    translate_tables.translate(chk)     # the concrete theorems are stated over the tables regenerated from /repo
    chk.lean_build(['PeptVerif.Props.C12', 'PeptVerif.Props.C12Concrete', 'PeptVerif.Props.C12Fragment'], DRV)
    E.optional_module(chk, 'PeptVerif.Props.C12LabelBridge',
                      'label-path bridge to Mass.mass; rests on C04 Lemmas/FragmentLabel.lean over C03 Model/CompCalc.lean')
    quirks = E.probe_quirks()
    chk.notes.append(f'composition-path behaviours shown by the implementation (owned by C02/C03): '
                     f'deltaIgnoresMult={quirks[0]} labileDeltaAnyIon={quirks[1]}')
    chk.trusted += [
        'numbers are parameters of the model: residue / modification masses and compositions, element masses, ion-type and '
        'charge-carrier terms are resolved by the implementation and sent as exact values (their correctness is C02/C03/C10)',
        'modelled: convert_type (positional decimals), _parse_integer/_parse_modification(s), parse_static_mods, '
        'condense_static_mods, slice for one-residue pieces, split, serialize, count_residues (both), the structure of mass '
        '(fast path and label path), comp_mass, _pop_delta_mass_mods, _sequence_comp, parse_isotope_mods, '
        'apply_isotope_mods_to_composition; not modelled: fragment (oracle only), regex semantics of non-literal rule targets, '
        'float repr outside positional notation',
    ]
    big = tier != 'quick'
    N = 700 if not big else 6000
    from peptacular import util as pt_util
    cov = E.LineCoverage([pp.parse_static_mods, pp._parse_modifications, pp._parse_modification, pp._parse_integer,
                          pp.parse_isotope_mods, pp.ProFormaAnnotation.condense_static_mods, pp.ProFormaAnnotation.split,
                          pp.ProFormaAnnotation.count_residues, sequence_funcs.count_residues, sequence_funcs.condense_static_mods,
                          pt_util.convert_type, mass_calc.mass, mass_calc.comp_mass, mass_calc._pop_delta_mass_mods,
                          chem_calc._sequence_comp, chem_calc.apply_isotope_mods_to_composition,
                          pp._serialize_annotation_start, pp._serialize_annotation_middle, pp._serialize_annotation_end])
    cov.start()

    # ------------------------------------------------------------------ cases
    cases = []
    for i in range(N):
        a, rules = E.gen_rule_annotation(rng, labels_p=0.35)
        cases.append(_case(a, rules))
        chk.count('len_%02d' % len(a._sequence))
        chk.count('rules_%d' % len(rules))
        chk.count('rule_2mods_3targets', sum(1 for m, t in rules if len(m) == 2 and len(t) == 3))
        for m, t in rules:
            for x in t:
                chk.count('target_' + ('term' if x in ('N-Term', 'C-Term') else 'residue'))
            for v in m:
                chk.count('mod_' + ('numeric' if isinstance(v, (int, float)) else 'formula' if v.startswith(('Formula', 'Glycan')) else 'named'))
    # corpus: past witnesses first
    corpus = _load_corpus()
    chk.rule = ('residue strings 1..20 over random 1-6 letter alphabets (so targets repeat) x 1-3 static rules with 1-3 targets among '
                'present/absent residues, N-Term, C-Term and 1-2 mods (numeric with/without sign, named, formula) x residues, termini, '
                'labile/unknown/interval positions already modified x 0-2 isotope labels; non-trivial = at least one rule target '
                'occurs in the peptide; distinct = distinct protocol line')

    def nontrivial(c, im=None):
        seq = c['a'].split('|')[0]
        return any(t in ('N-Term', 'C-Term') or t in seq for _, ts in c['rules'] for t in ts)

    # ------------------------------------------------------------------ correspondence: structure
    odd_rules = ['[1]@C', '[3.1415]@S,D', '[1]^2@C', '[Formula:[13C]H20]@C', '[100]@P', '[+57.02]@C,N-Term', '[1][2]@K',
                 '[Oxidation][+1]^3@M,C-Term', '[-18.0106]@E', '[0057.0200]@C', '[1.]@C', '[.5]@C', '[+0]@C', '[-0.0]@C',
                 '[Formula:[13C2]C-2H3N]@N-Term,N-Term', '[a[b[c]]]@K', '[1]^+2@K', '[1]^-2@K', '[Acetyl]@N-Term', 'x[1]y[2]z@A',
                 '[1]@', '@C', '[1]@C,', '[1]^2^3@C', '[1', '[1]@C@D', 'noat', '[1]^@C', '[Obs:+17.05]@K', '[1]@N-term']
    scases = []
    for r in odd_rules:
        a = pp.ProFormaAnnotation(_sequence='PEPTIDECKM', _static_mods=[Mod(r, 1)])
        scases.append({'a': annot.dump(a), 'rules': []})
    a = pp.ProFormaAnnotation(_sequence='PEPTIDECKM', _static_mods=[Mod(r, 1) for r in odd_rules[:8]])
    scases.append({'a': annot.dump(a), 'rules': []})
    a = pp.ProFormaAnnotation(_sequence='PEP', _static_mods=[Mod(5, 1)])
    scases.append({'a': annot.dump(a), 'rules': []})
    a = pp.ProFormaAnnotation(_sequence='PEP', _static_mods=[])
    scases.append({'a': annot.dump(a), 'rules': []})

    def show_map(m):
        return ';'.join(f'{annot.esc(k)}={annot.show_mods(v, "&")}' for k, v in m.items())

    def exc_name(e):
        if isinstance(e, TypeError):
            return 'ERR:TypeError'
        if isinstance(e, (ValueError,)):
            return 'ERR:ValueError'
        if isinstance(e, KeyError):
            return 'ERR:KeyError'
        return 'EXC:' + type(e).__name__

    def guard(f):
        def g(c):
            try:
                return f(c)
            except Exception as e:  # noqa
                return exc_name(e)
        return g

    lit = chk.driver(DRV, ['literal\t' + c['a'] for c in scases])
    scases_lit = [c for c, l in zip(scases, lit) if l == '1']
    allc = corpus + cases
    chk.correspond('parse_static_mods', DRV, allc + scases, lambda c: 'parse_static\t' + c['a'],
                   guard(lambda c: show_map(pp.parse_static_mods(_ann(c).static_mods))), nontrivial_fn=nontrivial)
    chk.correspond('condense_static_mods', DRV, allc + scases_lit, lambda c: 'condense\t' + c['a'],
                   guard(lambda c: annot.dump(_ann(c).condense_static_mods(inplace=False))),
                   compare=lambda im, m: im == annot.canon_dump(m), nontrivial_fn=nontrivial)
    chk.correspond('count_residues', DRV, allc + scases_lit, lambda c: 'count\t' + c['a'],
                   guard(lambda c: E.counter_text(sequence_funcs.count_residues(_ann(c)))),
                   compare=lambda im, m: im == E.sort_counter_reply(m), nontrivial_fn=nontrivial)
    chk.correspond('annotation.count_residues', DRV, allc + scases_lit, lambda c: 'count_raw\t' + c['a'],
                   guard(lambda c: E.counter_text(_ann(c).count_residues())),
                   compare=lambda im, m: im == E.sort_counter_reply(m), nontrivial_fn=nontrivial)
    sercases = [(c, p) for c in allc[:400 if not big else 4000] for p in (False, True)]
    chk.correspond('serialize', DRV, sercases, lambda cp: f'serialize\t{cp[0]["a"]}\t{int(cp[1])}',
                   lambda cp: annot.esc(_ann(cp[0]).serialize(cp[1])))
    # any generated annotation shape through the serializer / pieces as well
    gen = []
    for _ in range(300 if not big else 5000):
        g = annot.gen_annotation(rng, max_len=8)
        gen.append({'a': annot.dump(g, sort_internal=False), 'rules': []})
    glit = chk.driver(DRV, ['literal\t' + c['a'] for c in gen])
    gen = [c for c, l in zip(gen, glit) if l == '1']
    chk.correspond('serialize', DRV, [(c, p) for c in gen for p in (False, True)],
                   lambda cp: f'serialize\t{cp[0]["a"]}\t{int(cp[1])}', lambda cp: annot.esc(_ann(cp[0]).serialize(cp[1])))
    chk.correspond('annotation.count_residues', DRV, gen, lambda c: 'count_raw\t' + c['a'],
                   guard(lambda c: E.counter_text(_ann(c).count_residues())),
                   compare=lambda im, m: im == E.sort_counter_reply(m))
    chk.correspond('count_residues', DRV, gen, lambda c: 'count\t' + c['a'],
                   guard(lambda c: E.counter_text(sequence_funcs.count_residues(_ann(c)))),
                   compare=lambda im, m: im == E.sort_counter_reply(m))
    ct = ['1', '+1', '-1', '1.234', '1.0', 'abc', '+57.020', '0057.02', '-0.0', '.5', '5.', '+', '-', '', '.', '1.2.3', 'Formula:C2',
          '12345678901234567890', '-007', '+-1', '1e', '0.0001', '100.000']
    chk.correspond('convert_type', DRV, ct, lambda s: 'convert_type\t' + annot.esc(s),
                   lambda s: annot.show_val(Mod(s, 1).val))

    # ------------------------------------------------------------------ correspondence: mass / comp over abstract weights
    mcases = []
    for c in allc[:(350 if not big else 6000)]:
        ion = rng.choice(IONS)
        use = rng.random() < 0.5
        z = rng.choice([None, None, 1, 2, 3])
        mcases.append((c, ion, use, z))
    mods_of = chk.driver(DRV, ['mods_of\t' + c['a'] for c, _, _, _ in mcases])

    def mline(op):
        def f(t):
            (c, ion, use, z), vals = t
            a = _ann(c)
            labels = [m.val for m in (a.isotope_mods or [])]
            env = E.env_fields(a.sequence, vals, ion=ion, use_iso=use, labels=labels, quirks=quirks, charge=z)
            return '\t'.join([op, c['a']] + env)
        return f

    mt = list(zip(mcases, [E.vals_from_reply(r) for r in mods_of]))

    def close(im, m, tol=1e-7):
        if im.startswith(('ERR', 'EXC')) or m.startswith(('ERR', 'bad', 'unmod')):
            return im == m
        return abs(float(im) - float(E.frac(m))) <= tol

    chk.correspond('mass', DRV, mt, mline('mass'),
                   lambda t: repr(mass_calc.mass(_ann(t[0][0]), charge=t[0][3], ion_type=t[0][1], use_isotope_on_mods=t[0][2])),
                   compare=close, nontrivial_fn=lambda t, im: nontrivial(t[0][0]))

    def comp_impl(t):
        (c, ion, use, z), _ = t
        comp, delta = mass_calc.comp_mass(_ann(c), ion, z, use_isotope_on_mods=use)
        return json.dumps([sorted((str(k), str(E.Fraction(v))) for k, v in comp.items() if v != 0), repr(float(delta))])

    def comp_cmp(im, m):
        if im.startswith(('ERR', 'EXC')) or m.startswith(('ERR', 'bad', 'unmod')):
            return im == m
        comp, delta = json.loads(im)
        mc, md = m.split('|')
        model = sorted((k, str(v)) for k, v in E.parse_comp(mc).items() if v != 0)
        return [tuple(x) for x in comp] == model and abs(float(delta) - float(E.frac(md))) <= 1e-9

    chk.correspond('comp_mass', DRV, mt, mline('comp_mass'), comp_impl, compare=comp_cmp,
                   nontrivial_fn=lambda t, im: nontrivial(t[0][0]))

    # ------------------------------------------------------------------ model vs model: the abstract model at the resolved
    # environment against the concrete mass model of C02/C03 (drv_c02, Model/Mass.lean + Model/CompCalc.lean), fast path and
    # label path, on the same inputs. The fast path is also bridged by a theorem (Props/C12Concrete.mass_bridge_fast), the label
    # path for plain annotations (mass_bridge_label); labelled annotations with labile / unknown / interval mods are tied here.
    drv2 = os.path.join(core.LEAN, '.lake', 'build', 'bin', 'drv_c02')
    if os.path.exists(drv2):
        from . import c02_common as C2
        mm = [t for t in mt if not t[0][2]]        # use_isotope_on_mods=False: both drivers take the plain `mass` defaults
        l12 = [mline('mass')(t) for t in mm]
        l02 = [C2.line('mass', _ann(t[0][0]), dict(charge=t[0][3], ion_type=t[0][1])) for t in mm]
        r12 = chk.driver(DRV, l12)
        r02 = chk.driver('drv_c02', l02)
        st = chk.corr.setdefault('model_vs_model_mass', {'evaluations': 0, 'disagreements': 0, 'samples': []})
        for t, a12, a02 in zip(mm, r12, r02):
            st['evaluations'] += 1
            chk.evaluations += 1
            ok = False
            if a02.startswith('ok ') and '/' in a12:
                ok = abs(float(a02[3:]) - float(E.frac(a12))) <= 1e-8
            elif a02.startswith('ERR') and a12.startswith(('ERR', 'unmod')):
                ok = True
            if not ok:
                st['disagreements'] += 1
                if len([d for d in chk.disagreements if d['op'] == 'model_vs_model_mass']) < 5:
                    chk.disagreements.append({'op': 'model_vs_model_mass', 'line': t[0][0]['a'], 'impl': 'C02 model: ' + a02,
                                              'model': 'C12 model: ' + a12})
        chk.count('model_vs_model_labelled', sum(1 for t in mm if _ann(t[0][0]).isotope_mods))
    else:
        chk.notes.append('drv_c02 not built: model-vs-model check skipped')

    # ------------------------------------------------------------------ fragment clause in the models: the Fragment model of C04
    # (drv_c04) with `Env.condenseStatic` taken from THIS driver (the C12 model) on the rule form and on the explicit form:
    # the two replies must be the same (theorem Props/C12Fragment.fragments_condense); per-residue weights from Python
    drv4 = os.path.join(core.LEAN, '.lake', 'build', 'bin', 'drv_c04')
    if os.path.exists(drv4):
        from . import c04 as C4
        fcases = []
        for c in allc[:(120 if not big else 1500)]:
            a = _ann(c)
            if a._unknown_mods is not None or a._intervals is not None:
                continue
            req = {'ion_types': rng.choice([['b', 'y'], ['b', 'y', 'c', 'z'], ['a', 'x', 'by'], 'y', ['b', 'i']]),
                   'charges': rng.choice([1, [1, 2], [2, 3]]), 'monoisotopic': rng.random() < 0.7, 'isotopes': rng.choice([0, [0, 1]]),
                   'water_loss': rng.random() < 0.3, 'ammonia_loss': False, 'losses': None, 'max_losses': 1,
                   'return_type': 'fragment', 'precision': None}
            fcases.append((c, req))
        forms = []
        for c, req in fcases:
            a = _ann(c)
            ex = E.explicit_form(a, _rules(c))
            forms.append((a, ex, req))
        pops = []
        for a, ex, req in forms:
            for x in (a, ex):
                y = copy.deepcopy(x)
                y._labile_mods = None
                pops.append('condense\t' + annot.dump(y, sort_internal=False))
        cond = chk.driver(DRV, pops)
        lines = []
        for i, (a, ex, req) in enumerate(forms):
            for j, x in enumerate((a, ex)):
                base = C4.frag_line(('fragment', annot.dump(x, sort_internal=False), req, None)).split('\t')
                base[-1] = cond[2 * i + j]          # Env.condenseStatic := the C12 model's answer
                lines.append('\t'.join(base))
        rep = chk.driver('drv_c04', lines)
        st = chk.corr.setdefault('fragment_model_rule_vs_explicit', {'evaluations': 0, 'disagreements': 0, 'samples': []})
        for i, (a, ex, req) in enumerate(forms):
            r1, r2 = rep[2 * i], rep[2 * i + 1]
            st['evaluations'] += 1
            chk.evaluations += 1
            if len(st['samples']) < 1:
                st['samples'].append({'rule_form': annot.dump(a), 'reply': r1[:200]})
            if r1 != r2 or r1 == 'bad-op':
                st['disagreements'] += 1
                if len([d for d in chk.disagreements if d['op'] == 'fragment_model_rule_vs_explicit']) < 5:
                    chk.disagreements.append({'op': 'fragment_model_rule_vs_explicit', 'line': annot.dump(a),
                                              'impl': 'explicit form: ' + r2[:800], 'model': 'rule form: ' + r1[:800]})
    else:
        chk.notes.append('drv_c04 not built: Fragment-model check skipped')

    # ------------------------------------------------------------------ oracle: rule form vs explicit form on the implementation
    osel = allc if chk.broken() or big else allc[:400]
    orc = oracles()
    o_condense, o_mass, o_comp, o_frag, o_count, o_label = (orc[k] for k in (
        'condense_is_explicit_form', 'mass_rule_vs_explicit', 'comp_rule_vs_explicit', 'fragments_rule_vs_explicit',
        'count_residues_rule_vs_explicit', 'label_shift'))

    chk.oracle('condense_is_explicit_form', osel, o_condense, nontrivial_fn=nontrivial, key_fn=lambda c: c['a'])

    chk.oracle('mass_rule_vs_explicit', osel, o_mass, nontrivial_fn=nontrivial, key_fn=lambda c: c['a'])

    chk.oracle('comp_rule_vs_explicit', osel, o_comp, nontrivial_fn=nontrivial, key_fn=lambda c: c['a'])

    chk.oracle('fragments_rule_vs_explicit', osel[:: (1 if big or chk.broken() else 2)], o_frag, nontrivial_fn=nontrivial,
               key_fn=lambda c: c['a'])

    chk.oracle('count_residues_rule_vs_explicit', osel, o_count, nontrivial_fn=nontrivial, key_fn=lambda c: c['a'])

    # ------------------------------------------------------------------ oracle: isotope labels
    lab_cases = []
    single = [[x] for x in E.LABELS]
    pairs = [[x, y] for x in E.LABELS for y in E.LABELS if E.LABEL_ELEMENT[x] != E.LABEL_ELEMENT[y]]
    nl = 600 if not big else 6000
    for i in range(nl):
        a, rules = E.gen_rule_annotation(rng, labels_p=0.0, max_len=20)
        if rng.random() < 0.5:
            a._static_mods = None
            rules = []
        labs = rng.choice(single) if rng.random() < 0.6 else rng.choice(pairs)
        lab_cases.append(_case(a, rules, labels=labs))
        chk.count('label_' + '+'.join(labs))

    chk.oracle('label_shift', lab_cases if (big or chk.broken()) else lab_cases[:400], o_label,
               nontrivial_fn=lambda c: True, key_fn=lambda c: c['a'] + '+'.join(c['labels']))

    # sulfur label on peptides without C/M, exhaustive over the labels for a few fixed peptides
    fixed = []
    for s in ['PEPTIDE', 'G', 'ACDEFGHIKLMNPQRSTVWY', 'MCMC', 'AAAA']:
        for labs in single + pairs:
            fixed.append({'a': annot.dump(pp.ProFormaAnnotation(_sequence=s)), 'rules': [], 'labels': labs})
    chk.oracle('label_shift', fixed, o_label, key_fn=lambda c: c['a'] + '+'.join(c['labels']))

    cov.stop()
    rep = cov.report()
    chk.notes.append('line reach of the modelled Python functions during this run (sys.monitoring): ' + json.dumps(rep))
    if os.environ.get('VERIF_DEBUG'):
        json.dump({'failures': chk.failures, 'disagreements': chk.disagreements, 'coverage': rep},
                  open(os.environ['VERIF_DEBUG'], 'w'), indent=1, default=str)
    if big:
        chk.leanchecker(['PeptVerif.Props.C12', 'PeptVerif.Model.StaticMods', 'PeptVerif.Model.AbsMass', 'PeptVerif.Spec.StaticMods',
                         'PeptVerif.Lemmas.StaticMods', 'PeptVerif.Lemmas.AbsMass', 'PeptVerif.Props.C12Concrete',
                         'PeptVerif.Props.C12Fragment', 'PeptVerif.Model.ConcreteEnv', 'PeptVerif.Lemmas.ConcreteEnv',
                         'PeptVerif.Lemmas.ConcreteBridge', 'PeptVerif.Lemmas.ConcreteKeys', 'PeptVerif.Lemmas.ConcreteLabel'])
    return chk.finish(classify)


def _load_corpus():
    d = os.path.join(core.VERIF, 'corpus', PID)
    out = []
    if os.path.isdir(d):
        for fn in sorted(os.listdir(d)):
            if fn.endswith('.jsonl'):
                for line in open(os.path.join(d, fn)):
                    line = line.strip()
                    if line:
                        out.append(json.loads(line))
    return out


def classify(f):
    return None


def replay(chk, obj):
    """re-evaluate a stored failure on the current implementation: exit 1 (with the VIOLATION line) if it still fails"""
    if obj.get('kind') != 'oracle':
        print(json.dumps(obj, indent=1))
        return 0
    fn = oracles()[obj['oracle']]
    try:
        r = fn(obj['case'])
    except Exception as e:  # noqa
        r = f'unexpected {type(e).__name__}: {e}'
    if r is None:
        print(f"{PID} replay: {obj['oracle']} holds on this input now")
        return 0
    print(f"VIOLATION property={PID} replay={obj.get('path', '<given file>')}")
    print('  oracle:', r)
    return 1
