"""C02 - peptide mass and m/z equal the sum of their physical parts; agreement with an independent NIST reference."""
import json
import os

from .. import core, annot, translate_tables, translate_masscore
from . import c02_common as cm

PID = 'C02'
DRV = 'drv_c02'

REGISTRY = {
    'id': 'C02',
    'text': 'Mechanical tie for the arithmetic core: harness/translate_masscore.py reads the CURRENT source with ast and emits Generated/MassCorePy.lean (adjust_mass, adjust_mz, _parse_adduct_mass from mass_calc.py; chem_mass (dict argument) with its loop body from chem_util.py; merge_dicts with its two loops from util.py); Props/C02Gen (6 theorems) proves each equal to the hand model (GenMass.adjust_mass = Mass.adjustMass, adjust_mz = Mass.adjustMz, _parse_adduct_mass = Mass.adductMassP, chem_mass_loop1 = Chem.chemStep, chem_mass = Chem.chemMass, merge_dicts = Chem.merge for a first dict with distinct keys), so the theorems below hold for the definitions read off the source; hand-modelled only (tied by correspondence): mass, mz, comp_mass and the label path, _parse_charge_adducts_mass (isinstance dispatch), parse_ion_elements, parse_static_mods, the text branch of chem_mass; a function outside the translator subset is reported as untranslated and falls back to correspondence. '
            'Lean (26 theorems): kernel-checked table obligations over modules regenerated from constants.py / data/chem.txt on every run '
            '(24 residue formulas = hand-typed formulas; 21 NIST nuclide masses within 1e-8; average masses within 1e-6; CODATA particles '
            'and |PROTON_MASS - (m(1H) - m_e)| <= 2e-8; ion-offset tables = backbone chemistry for 18 ion types x 2 modes; both encodings of '
            'the +1 ions) and, for the executable model of mass / mz: mass_eq_spec_partial / mz_eq_spec_partial / mass_eq_spec_concrete '
            '(every annotation in the specification domain: any placement and multiplier, global rules read by the modelled '
            'parse_static_mods, any charge, isotope offset, loss, both modes: mass = residues + ion offset + sum mult x mod mass + charge '
            'term + isotope x neutron + loss); mass_eq_spec_adducts (explicit adduct lists: the same sum plus the exactly characterised '
            'defect sum q*m_e*(count-1), zero when every count is 1 - the known finding); mass_label_eq_spec (isotope-label path = sum of '
            'parts with the element substituted: labelShift on residues, ion offset and charge carrier, on modifications only with '
            'use_isotope_on_mods); mass_precision_last / mass_precision_bound (precision applied last on both paths, error <= half a unit '
            'of the last place; mz_double_rounding_bound: a caller that rounds the mass first, as fragment() does, is within '
            '(1 + 1/z) half units of the exact quotient); reference_closeness (library tables vs hand-typed NIST for any composition). The model is tied to '
            '/repo by differential correspondence at 1e-7 Da (every line of the modelled functions is executed in the quick tier) and '
            'the implementation is compared with the hand-typed NIST reference at 1e-5 Da (monoisotopic) / 2e-3 Da (average), '
            'labelled peptides included',
    'note': 'trusted: Lean kernel; the Python subset reader harness/translate_masscore.py (its output Generated/MassCorePy.lean is committed and readable next to the source; round(x, p) is read as round-half-even on the exact rational, floats as exact rationals); translator of the two tables; hand-typed NIST/CODATA reference data; per-value modification '
            'resolution is a parameter of the model (C10); float summation error bounded by the 1e-7 correspondence tolerance. Not '
            'proved, correspondence + oracle only: global rules / adduct lists combined with isotope labels; float rounding near ties',
    'technique': 'Lean 4 proof about executable model + generated tables checked by kernel evaluation + differential correspondence '
                 '+ independent reference oracle',
}

TOL = 1e-7


def _pt():
    import peptacular as pt
    return pt


def load_corpus(pid):
    d = os.path.join(core.VERIF, 'corpus', pid)
    out = []
    if os.path.isdir(d):
        for fn in sorted(os.listdir(d)):
            if fn.endswith('.jsonl'):
                for ln in open(os.path.join(d, fn)):
                    ln = ln.strip()
                    if ln:
                        out.append(json.loads(ln))
    return out


def case_of(obj):
    """corpus / replay object -> (annotation, kwargs)"""
    a = annot.undump(obj['annotation'])
    kw = dict(obj.get('kw', {}))
    if 'isotope_mods' in kw and kw['isotope_mods'] is not None:
        from peptacular.proforma.proforma_dataclasses import Mod
        kw['isotope_mods'] = [Mod(x, 1) for x in kw['isotope_mods']]
    return a, kw


def obj_of(a, kw):
    kw = dict(kw)
    if kw.get('isotope_mods') is not None:
        kw['isotope_mods'] = [m.val for m in kw['isotope_mods']]
    return {'annotation': annot.dump(a), 'proforma': _ser(a), 'kw': kw}


def _ser(a):
    try:
        return a.serialize()
    except Exception as e:  # noqa
        return 'unserialisable: ' + type(e).__name__


def gen_kw(rng, fragment_p=0.35, label_p=0.0, adduct_p=0.25, prec_p=0.3, full=True):
    kw = {}
    if rng.random() < 0.75:
        kw['charge'] = rng.randint(-4, 6)
    if rng.random() < fragment_p:
        kw['ion_type'] = rng.choice(cm.ION_TYPES)
    kw['monoisotopic'] = rng.random() < 0.5
    if rng.random() < 0.5:
        kw['isotope'] = rng.randint(0, 4)
    if rng.random() < 0.4:
        kw['loss'] = rng.choice([-18.010565, -17.026549, 0.0, 1.0, round(rng.uniform(-100, 100), rng.randint(0, 6)), float(rng.randint(-50, 50))])
    if rng.random() < adduct_p:
        kw['charge_adducts'] = cm.gen_adducts(rng)
    if rng.random() < prec_p:
        kw['precision'] = rng.randint(0, 6)
    if full and rng.random() < label_p:
        from peptacular.proforma.proforma_dataclasses import Mod
        kw['isotope_mods'] = [Mod(x, 1) for x in rng.sample(cm.ISOTOPES, rng.choice([1, 1, 2]))]
        if rng.random() < 0.3:
            kw['use_isotope_on_mods'] = True
    return kw


def tol_of(kw):
    p = kw.get('precision')
    return TOL if p is None else 10.0 ** (-p) + TOL


def ref_tables(chk):
    """hand-typed reference tables, read back from the Lean Spec module through the driver"""
    nuc, avg, part = chk.driver(DRV, ['table\tspec_nuclides', 'table\tspec_average', 'table\tspec_particles'])
    f = lambda s: {k: float(v) for k, v in (e.split('=') for e in s.split(','))}
    return f(nuc), f(avg), f(part)


def spec_overrides(a, kw, nuc, avg):
    """for Formula: mods the reference mass is recomputed from the hand-typed element table (independent of chem.txt)"""
    ov = {}
    mono = kw.get('monoisotopic', True)
    for k, v in cm.all_vals(a).items():
        el = dict(nuc)
        el['2H'] = nuc['D']
        el['3H'] = nuc['T']
        if not mono:
            for s, m in avg.items():
                el[s] = m
        r = cm.formula_mass_ref(v, el)
        if r is not None:
            ov[k] = (repr(r), repr(r))
    return ov


def in_domain(a, kw):
    """C02 quantifier: letters over the 22 + X, J; mods with a-priori mass; no global isotope labels"""
    if a._isotope_mods or kw.get('isotope_mods'):
        return False
    return all(c in cm.RES24 for c in a._sequence)


def run(chk):
    pt = _pt()
    from peptacular import mass_calc, constants
    from peptacular.chem import chem_constants, chem_util
    rng = chk.rng
    tier = chk.tier
    translate_tables.translate(chk)
    # mass_calc.py / chem_util.py / util.py arithmetic core -> Generated/MassCorePy.lean + Props/C02Gen.lean, regenerated on change
    gen_done, gen_unt = translate_masscore.translate(chk)
    chk.lean_build(['PeptVerif.Props.C02', 'PeptVerif.Props.C02Gen'], DRV)
    chk.trusted += [
        'harness/translate_masscore.py: the reading of the Python subset (None defaults, = += -=, d[k] = v, if/elif/else on == != in-tuple '
        'in-TABLE is-True is-None and Python truthiness, or, + - * /, conditional expressions, TABLE[key] as KeyError, round -> '
        'round-half-even on the exact rational, x[0].isdigit(), d.get(k, 0), for k, v in d.items() with continue, dict comprehension '
        'filter, return, raise) into the combinators of the hand model; translated on this run: %s; hand-modelled only: '
        '_parse_charge_adducts_mass (isinstance dispatch), parse_ion_elements, mass, mz, comp_mass and the label path%s'
        % (', '.join(gen_done) or 'none', ''.join(', ' + k for k in gen_unt)),
    ]
    chk.trusted += [
        'modelled: mass (fast path and label path), mz, adjust_mass, adjust_mz, _parse_charge_adducts_mass, _parse_adduct_mass, '
        'parse_ion_elements, chem_mass, merge_dicts, element_setup tables, chem_constants tables, comp_mass/_sequence_comp/'
        '_pop_delta_mass_mods/condense_static_mods (label path)',
        'outside the model (parameters, sent over the wire per case): mod_mass/mod_comp/_parse_mod_delta_mass_only per Mod.val '
        '(name resolution = C10) and parse_static_mods (rule text -> targets, mods)',
        'hand-typed reference data in lean/PeptVerif/Spec/Mass.lean: 21 NIST nuclide masses, isotopic compositions of 14 elements, '
        'CODATA particle masses, 24 residue formulas',
        'round(x, p) is modelled as round-half-even on the exact rational; values with precision are compared at 1e-p',
    ]
    from peptacular.proforma import proforma_parser as _pp
    reach = cm.Reach([mass_calc.mass, mass_calc.mz, mass_calc.adjust_mass, mass_calc.adjust_mz, mass_calc._parse_adduct_mass,
                      mass_calc._parse_charge_adducts_mass, chem_util.chem_mass, _pp.parse_ion_elements, _pp._pop_ion_count,
                      _pp._pop_ion_symbol, _pp._pop_ion_charge])
    reach.start()
    chk.rule = ('annotations over the 22 unambiguous letters + X, J (len 1..15) with numeric / formula (incl. isotopes) / Unimod / glycan '
                'mods at residue, terminus, interval, unknown, labile and global-rule positions, multipliers 1..3; charge -4..6 or None, '
                '18 ion types, isotope 0..4, loss, precision None/0..6, adduct lists over 9 ions x counts {-2,-1,1,2,3}, both modes; '
                'non-trivial = at least one modification or a non-zero charge; distinct = distinct protocol line')

    # ------------------------------------------------------------------ tables: derived Python tables vs recomputed in Lean
    tbl = [('isotopic', constants.ISOTOPIC_ATOMIC_MASSES), ('average', constants.AVERAGE_ATOMIC_MASSES),
           ('aa_mono', chem_constants.MONOISOTOPIC_AA_MASSES), ('aa_avg', chem_constants.AVERAGE_AA_MASSES),
           ('frag_adj_mono', chem_constants.MONOISOTOPIC_FRAGMENT_ADJUSTMENTS), ('frag_adj_avg', chem_constants.AVERAGE_FRAGMENT_ADJUSTMENTS),
           ('frag_ion_adj_mono', chem_constants.MONOISOTOPIC_FRAGMENT_ION_ADJUSTMENTS),
           ('frag_ion_adj_avg', chem_constants.AVERAGE_FRAGMENT_ION_ADJUSTMENTS),
           ('ion_adj_mono', chem_constants.MONOISOTOPIC_ION_ADJUSTMENTS), ('ion_adj_avg', chem_constants.AVERAGE_ION_ADJUSTMENTS)]

    def tbl_cmp(im, m):
        a = json.loads(im)
        b = {k: float(v) for k, v in (e.split('=') for e in m.split(','))} if m else {}
        return set(a) == set(b) and all(abs(a[k] - b[k]) <= 1e-9 for k in a)

    chk.correspond('derived_mass_tables', DRV, tbl, lambda c: 'table\t' + c[0], lambda c: json.dumps(c[1]), compare=tbl_cmp)

    def ctbl_cmp(im, m):
        a = json.loads(im)
        b = {}
        for e in m.split(';'):
            k, v = e.split(':', 1)
            b[k] = cm.parse_model_comp(v)
        return set(a) == set(b) and all(cm.comp_close(a[k], b[k]) for k in a)

    chk.correspond('derived_comp_tables', DRV,
                   [('neutral_adj', constants.NEUTRAL_FRAGMENT_COMPOSITION_ADJUSTMENTS), ('ion_adj', constants.FRAGMENT_ION_COMPOSITION_ADJUSTMENTS)],
                   lambda c: 'table\t' + c[0], lambda c: json.dumps(c[1]), compare=ctbl_cmp)
    chk.correspond('particles', DRV, [0], lambda c: 'table\tparticles',
                   lambda c: json.dumps({'p': constants.PROTON_MASS, 'e': constants.ELECTRON_MASS, 'n': constants.NEUTRON_MASS}), compare=tbl_cmp)
    chk.correspond('averagine_mass', DRV, [0], lambda c: 'table\taveragine_mass',
                   lambda c: 'ok ' + repr(chem_constants.ISOTOPIC_AVERAGINE_MASS), compare=lambda im, m: cm.cmp_float(im, 'ok ' + m, 1e-9))

    # ------------------------------------------------------------------ building blocks
    N = 1 if tier == 'quick' else 20
    adds = ['+H+', '+Na+', '+2Na+', '+2Na-', 'H+', 'H-', '+Na+,+H+', '2H+', '-2H+', '0H+', '+e-', '-e-', '+3H+,+e-', '+Mg2+', '+2Mg+2',
            '-Cl-', '+3I-', '+Ca+2,-2K+', 'Xx+', '+D+', '+T+,+H+', '+2D+', '+13C+', '+', '', '+Na', '+2Mg2-', '+H+,', '-1H+,+2H+,+e-']
    adds += [cm.gen_adducts(rng) for _ in range(300 * N)]
    adds += [f'{n}H+' for n in range(-9, 10)] + [f'{n - 1}H+,{b}' for n in range(-4, 7) for b in constants.FRAGMENT_ION_BASE_CHARGE_ADDUCTS.values()]
    ad_cases = [(s, m) for s in adds for m in (True, False)]

    def ad_impl(c):
        try:
            return 'ok ' + repr(mass_calc._parse_charge_adducts_mass(c[0], None, c[1]))
        except Exception as e:  # noqa
            return 'ERR:' + type(e).__name__

    chk.correspond('adduct_mass', DRV, ad_cases, lambda c: f'adduct_mass\t{annot.esc(c[0])}\t{int(c[1])}', ad_impl,
                   compare=lambda im, m: cm.cmp_float(im, m, TOL), nontrivial_fn=lambda c, im: im.startswith('ok'))

    def ie_impl(s):
        from peptacular.proforma.proforma_parser import parse_ion_elements
        try:
            c, sym, q = parse_ion_elements(s)
            return f'ok {c},{sym},{q}'
        except Exception as e:  # noqa
            return 'ERR:' + type(e).__name__

    singles = sorted({x for s in adds for x in s.split(',')})
    chk.correspond('ion_elements', DRV, singles, lambda s: f'ion_elements\t{annot.esc(s)}', ie_impl,
                   nontrivial_fn=lambda c, im: im.startswith('ok'))

    elems = list(constants.ISOTOPIC_ATOMIC_MASSES.keys()) + ['e', 'p', 'n']
    cm_cases = []
    for _ in range(400 * N):
        d = {}
        for _ in range(rng.randint(0, 6)):
            el = rng.choice(['C', 'H', 'N', 'O', 'S', 'P', '13C', 'D', '2H', '15N', 'e', 'n', 'p', 'Na', 'Se', 'T']) if rng.random() < 0.8 else rng.choice(elems)
            d[el] = rng.choice([1, 2, -1, 10, 53, 0, 2.5, -0.25, 1e-3, 7])
        if rng.random() < 0.03:
            d['Xx'] = 1
        cm_cases.append((d, rng.random() < 0.5, rng.choice([None, None, 0, 1, 2, 3, 4, 5, 6])))

    def chem_impl(c):
        try:
            return 'ok ' + repr(chem_util.chem_mass(dict(c[0]), c[1], c[2]))
        except Exception as e:  # noqa
            return 'ERR:' + type(e).__name__

    chk.correspond('chem_mass', DRV, cm_cases,
                   lambda c: f'chem_mass\t{cm.show_comp(c[0])}\t{int(c[1])}\t{"None" if c[2] is None else c[2]}', chem_impl,
                   compare=lambda im, m: True, nontrivial_fn=lambda c, im: im.startswith('ok') and len(c[0]) >= 2)
    # (comparison with per-case tolerance)
    st = chk.corr['chem_mass']
    outs = chk.driver(DRV, [f'chem_mass\t{cm.show_comp(c[0])}\t{int(c[1])}\t{"None" if c[2] is None else c[2]}' for c in cm_cases])
    for c, m in zip(cm_cases, outs):
        im = chem_impl(c)
        if not cm.cmp_float(im, m, TOL if c[2] is None else 10.0 ** -c[2] + TOL):
            st['disagreements'] += 1
            chk.disagreements.append({'op': 'chem_mass', 'line': repr(c), 'impl': im, 'model': m})

    # the two adduct helpers called on their own (precision branches, non-string TypeError) and chem_mass on a formula string
    from peptacular.proforma.proforma_dataclasses import Mod as _M
    a1 = [(x, m, pr) for x in singles[:: max(1, len(singles) // 60)] + ['+Na+', '+2Mg2+', '-e-', 'Xx+'] for m in (True, False)
          for pr in (None, 0, 3, 5)]

    def a1_impl(c):
        try:
            return 'ok ' + repr(mass_calc._parse_adduct_mass(c[0], c[2], c[1]))
        except Exception as e:  # noqa
            return 'ERR:' + type(e).__name__

    chk.correspond('adduct_mass_single', DRV, a1,
                   lambda c: f'adduct_mass1\t{annot.esc(c[0])}\t{int(c[1])}\t{"None" if c[2] is None else c[2]}', a1_impl,
                   compare=lambda im, m: cm.cmp_float(im, m, 1e-3 + TOL if False else 1.0))
    st1 = chk.corr['adduct_mass_single']
    o1 = chk.driver(DRV, [f'adduct_mass1\t{annot.esc(c[0])}\t{int(c[1])}\t{"None" if c[2] is None else c[2]}' for c in a1])
    for c, m in zip(a1, o1):
        im = a1_impl(c)
        if not cm.cmp_float(im, m, TOL if c[2] is None else 10.0 ** -c[2] + TOL):
            st1['disagreements'] += 1
            chk.disagreements.append({'op': 'adduct_mass_single', 'line': repr(c), 'impl': im, 'model': m})
    av = [(v, m, pr) for v in ['+Na+,+H+', '+H+', _M('+2K+,-e-', 1), _M('+H+', 2), 5, 2.5, _M(7, 1), '+Ca2+', 'Xx+', ''] + adds[:40]
          for m in (True, False) for pr in (None, 2, 5)]

    def av_impl(c):
        try:
            return 'ok ' + repr(mass_calc._parse_charge_adducts_mass(c[0], c[2], c[1]))
        except Exception as e:  # noqa
            return 'ERR:' + type(e).__name__

    av_line = lambda c: f'adducts_mass_v\t{annot.show_val(c[0].val if isinstance(c[0], _M) else c[0])}\t{int(c[1])}\t{"None" if c[2] is None else c[2]}'
    o2 = chk.driver(DRV, [av_line(c) for c in av])
    st2 = chk.corr.setdefault('adducts_mass_value', {'evaluations': 0, 'disagreements': 0, 'samples': []})
    for c, m in zip(av, o2):
        im = av_impl(c)
        st2['evaluations'] += 1
        chk.evaluations += 1
        if not cm.cmp_float(im, m, TOL if c[2] is None else 10.0 ** -c[2] + TOL):
            st2['disagreements'] += 1
            chk.disagreements.append({'op': 'adducts_mass_value', 'line': av_line(c), 'impl': im, 'model': m})
    fs = []
    for d, mono, pr in cm_cases[:150]:
        if all(isinstance(v, int) for v in d.values()) and 'Xx' not in d:
            fs.append((chem_util.write_chem_formula(d), mono, pr))
    fs += [(f.split(':', 1)[1], m, None) for f in cm.FORMULAS for m in (True, False)] + [('C6X2', True, 3), ('C2ss', True, None)]

    def fs_impl(c):
        try:
            return 'ok ' + repr(chem_util.chem_mass(c[0], c[1], c[2]))
        except Exception as e:  # noqa
            return 'ERR:' + type(e).__name__

    o3 = chk.driver(DRV, [f'chem_mass_str\t{annot.esc(c[0])}\t{int(c[1])}\t{"None" if c[2] is None else c[2]}' for c in fs])
    st3 = chk.corr.setdefault('chem_mass_of_formula_text', {'evaluations': 0, 'disagreements': 0, 'samples': []})
    for c, m in zip(fs, o3):
        im = fs_impl(c)
        st3['evaluations'] += 1
        chk.evaluations += 1
        if not cm.cmp_float(im, m, TOL if c[2] is None else 10.0 ** -c[2] + TOL):
            st3['disagreements'] += 1
            chk.disagreements.append({'op': 'chem_mass_of_formula_text', 'line': repr(c), 'impl': im, 'model': m})

    # ------------------------------------------------------------------ mass / mz : model correspondence
    corpus = [case_of(o) for o in load_corpus(PID)]
    n_rand = 1500 if tier == 'quick' else 25000
    if chk.broken():
        n_rand *= 2
    cases = list(corpus)
    for i in range(n_rand):
        r = rng.random()
        if r < 0.75:
            a = cm.gen_annotation(rng, kinds=cm.APRIORI)
            kw = gen_kw(rng)
        elif r < 0.9:       # label path (composition calculator)
            a = cm.gen_annotation(rng, kinds=cm.APRIORI + ['tagged'], isotope_p=0.7)
            kw = gen_kw(rng, label_p=0.3)
        else:               # error paths: odd values, ambiguous letters
            a = cm.gen_annotation(rng, residues=cm.RES24 + rng.choice(['BZ', 'b1', 'B', 'Z*', '.', '(+']) if rng.random() < 0.4 else cm.RES24,
                                  kinds=cm.APRIORI + ['tagged', 'odd'], isotope_p=0.2)
            kw = gen_kw(rng, label_p=0.1)
            if rng.random() < 0.1:
                kw['ion_type'] = rng.choice(['q', 'yb', '', 'B'])
        cases.append((a, kw))
    if tier == 'thorough' or True:
        # every Unimod entry once in each mode (quick: a sample)
        ents = cm.unimod_entries()
        if tier == 'quick':
            ents = rng.sample(ents, 150)
        from peptacular.proforma.proforma_parser import ProFormaAnnotation
        from peptacular.proforma.proforma_dataclasses import Mod
        for e in ents:
            for mono in (True, False):
                a = ProFormaAnnotation(_sequence='PEPTIDE', _internal_mods={rng.randint(0, 6): [Mod(f'UNIMOD:{e.id}', rng.choice([1, 1, 2]))]})
                cases.append((a, {'monoisotopic': mono}))
    for a, kw in cases:
        chk.count('len=%d' % min(len(a._sequence), 15) if len(a._sequence) in (1, 2) else 'len>=3')
        chk.count('ion=' + kw.get('ion_type', 'p'))
        chk.count('mode=' + ('mono' if kw.get('monoisotopic', True) else 'avg'))
        chk.count('path=' + ('label' if (a._isotope_mods or kw.get('isotope_mods')) else 'fast'))
        if kw.get('charge_adducts') or a._charge_adducts:
            chk.count('adducts')
        if kw.get('precision') is not None:
            chk.count('precision')

    def nontriv(c, im):
        a, kw = c
        return im.startswith('ok') and (cm.has_mods(a) or (kw.get('charge') or a._charge or 0) != 0)

    for op, fn in (('mass', pt.mass), ('mz', pt.mz)):
        sel = cases if op == 'mass' else [c for c in cases if 'use_isotope_on_mods' not in c[1]][::2]
        lines = [cm.line(op, a, kw) for a, kw in sel]
        outs = chk.driver(DRV, lines)
        st = chk.corr.setdefault(op, {'evaluations': 0, 'disagreements': 0, 'samples': []})
        for (a, kw), l, m in zip(sel, lines, outs):
            im = cm.call(fn, a, kw)
            st['evaluations'] += 1
            chk.evaluations += 1
            chk.count('result=' + ('ok' if im.startswith('ok') else im))
            if nontriv((a, kw), im):
                chk.nontrivial.add(op + '|' + l)
                if len(st['samples']) < 2:
                    st['samples'].append({'line': l[:400], 'impl': im, 'model': m})
            if not cm.cmp_float(im, m, tol_of(kw)):
                st['disagreements'] += 1
                if len([d for d in chk.disagreements if d['op'] == op]) < 5:
                    chk.disagreements.append({'op': op, 'line': l, 'impl': im, 'model': m, 'case': obj_of(a, kw)})

    # global rules parsed by the CONCRETE model of parse_static_mods (C12's Model/StaticMods.lean) instead of the wire
    pc = [c for c in cases if c[0]._static_mods is not None][:400 if tier == 'quick' else 8000]
    outs = chk.driver(DRV, [cm.line('mass', a, kw, concrete_rules=True) for a, kw in pc])
    st = chk.corr.setdefault('mass_concrete_rule_parser', {'evaluations': 0, 'disagreements': 0, 'samples': [], 'unmodelled': 0})
    for (a, kw), m in zip(pc, outs):
        if m == 'ERR:unmodelled':
            st['unmodelled'] += 1
            continue
        im = cm.call(pt.mass, a, kw)
        st['evaluations'] += 1
        chk.evaluations += 1
        if im.startswith('ok'):
            chk.nontrivial.add('massP|' + annot.dump(a) + repr(sorted(kw.items(), key=str)))
        if not cm.cmp_float(im, m, tol_of(kw)):
            st['disagreements'] += 1
            if len([d for d in chk.disagreements if d['op'] == 'mass_concrete_rule_parser']) < 5:
                chk.disagreements.append({'op': 'mass_concrete_rule_parser', 'line': annot.dump(a), 'impl': im, 'model': m, 'case': obj_of(a, kw)})

    # string inputs (sequence_to_annotation in front of the same code): mass(str) / mz(str) vs the model on parse(str)
    scases = []
    for a, kw in cases[:: max(1, len(cases) // 300)]:
        try:
            txt = a.serialize()
            a2 = pt.parse(txt)
        except Exception:  # noqa
            continue
        if type(a2).__name__ != 'ProFormaAnnotation':
            continue
        scases.append((txt, a2, kw))
    for op, fn in (('mass', pt.mass), ('mz', pt.mz)):
        sc = [c for c in scases if not (op == 'mz' and 'use_isotope_on_mods' in c[2])]
        outs = chk.driver(DRV, [cm.line(op, a2, kw) for _, a2, kw in sc])
        st = chk.corr.setdefault(op + '_from_string', {'evaluations': 0, 'disagreements': 0, 'samples': []})
        for (txt, a2, kw), m in zip(sc, outs):
            try:
                im = 'ok ' + repr(fn(txt, **kw))
            except Exception as e:  # noqa
                im = 'ERR:' + type(e).__name__
            st['evaluations'] += 1
            chk.evaluations += 1
            if not cm.cmp_float(im, m, tol_of(kw)):
                st['disagreements'] += 1
                if len([d for d in chk.disagreements if d['op'] == op + '_from_string']) < 5:
                    chk.disagreements.append({'op': op + '_from_string', 'line': txt, 'impl': im, 'model': m, 'case': obj_of(a2, kw)})

    # ------------------------------------------------------------------ oracle 1: reference tables
    nuc, avg, part = ref_tables(chk)

    def o_nuclide(sym):
        lib = constants.ISOTOPIC_ATOMIC_MASSES.get(sym)
        if lib is None:
            return f'{sym} missing from ISOTOPIC_ATOMIC_MASSES'
        if abs(lib - nuc[sym]) > 1e-8:
            return f'{sym}: library {lib!r} vs NIST reference {nuc[sym]!r}'
        return None

    chk.oracle('nuclide_masses_vs_reference', sorted(nuc), o_nuclide)

    def o_average(sym):
        lib = constants.AVERAGE_ATOMIC_MASSES.get(sym)
        if lib is None or abs(lib - avg[sym]) > 1e-6:
            return f'{sym}: library average {lib!r} vs reference {avg[sym]!r}'
        return None

    chk.oracle('average_masses_vs_reference', sorted(avg), o_average)

    def o_particles(_):
        if abs(constants.PROTON_MASS - part['p']) > 1e-8 or abs(constants.ELECTRON_MASS - part['e']) > 1e-8 \
                or abs(constants.NEUTRON_MASS - part['n']) > 1e-8:
            return 'particle constants differ from CODATA by more than 1e-8'
        return None

    chk.oracle('particles_vs_reference', [0], o_particles)

    # residue masses: 24 letters x 2 modes against formulas x reference elements
    res_lines = [cm.line('spec_mass', annot.undump(f'{aa}|N|N|N|N|N|N|N|N|None|N'), {'ion_type': 'n', 'monoisotopic': mono}, prefix=('nist',))
                 for aa in cm.RES24 for mono in (True, False)]
    res_out = chk.driver(DRV, res_lines)
    res_ref = {}
    i = 0
    for aa in cm.RES24:
        for mono in (True, False):
            res_ref[(aa, mono)] = res_out[i]
            i += 1

    def o_residue(c):
        aa, mono = c
        got = (chem_constants.MONOISOTOPIC_AA_MASSES if mono else chem_constants.AVERAGE_AA_MASSES)[aa]
        r = res_ref[c]
        if not r.startswith('ok '):
            return 'no reference: ' + r
        if abs(got - float(r[3:])) > (1e-6 if mono else 2e-4):
            return f'residue {aa} mono={mono}: library {got!r} vs reference {r[3:]}'
        return None

    chk.oracle('residue_masses_vs_reference', list(res_ref), o_residue)

    # call history: library routes that work on parsed formula / composition objects (a result of mass() must not depend on
    # what was computed before): isotope substitution given a formula TEXT, compositions of the same formula modifications
    from peptacular.chem import chem_calc as _cc
    hist = [f.split(':', 1)[1] for f in cm.FORMULAS] + ['C2H2O', 'C2H3NO', 'H2O', 'HPO3', 'CH2']
    for txt in hist:
        for labs in (['13C'], ['15N', 'D'], ['18O']):
            try:
                _cc.apply_isotope_mods_to_composition(txt, labs)
                _cc.mod_comp('Formula:' + txt)
                chem_util.chem_mass(txt)
            except Exception:  # noqa
                pass
    chk.count('history_calls_before_oracle', len(hist) * 3)

    # ------------------------------------------------------------------ oracle 2: mass = specification sum over the NIST reference
    budget = (1200 if tier == 'quick' else 20000) * (3 if chk.broken() else 1)
    ocases = [c for c in corpus if in_domain(*c)]
    while len(ocases) < budget:
        a = cm.gen_annotation(rng, kinds=cm.APRIORI)
        kw = gen_kw(rng, prec_p=0.15, full=False)
        ocases.append((a, kw))
    for e in (cm.unimod_entries() if tier == 'thorough' else rng.sample(cm.unimod_entries(), 100)):
        from peptacular.proforma.proforma_parser import ProFormaAnnotation
        from peptacular.proforma.proforma_dataclasses import Mod
        for mono in (True, False):
            pos = rng.choice(['n', 'c', 'i', 'u', 'l', 's'])
            a = ProFormaAnnotation(_sequence='ACDEFGHIK')
            m = [Mod(f'UNIMOD:{e.id}', rng.choice([1, 2, 3]))]
            if pos == 'n':
                a._nterm_mods = m
            elif pos == 'c':
                a._cterm_mods = m
            elif pos == 'i':
                a._internal_mods = {rng.randint(0, 8): m}
            elif pos == 'u':
                a._unknown_mods = m
            elif pos == 'l':
                a._labile_mods = m
            else:
                a._static_mods = [Mod(f'[UNIMOD:{e.id}]@{rng.choice("ACDEFGHIK")}', 1)]
            ocases.append((a, {'monoisotopic': mono, 'charge': rng.choice([0, 1, 2, -1])}))
    # every ion of the quantifier's list with count 1 (outside the known-finding region), in the string and as argument,
    # both modes, with and without a charge
    from peptacular.proforma.proforma_parser import ProFormaAnnotation as _PA
    from peptacular.proforma.proforma_dataclasses import Mod as _Mod
    for sym, q in cm.ADDUCT_IONS:
        for ion in {f'+{sym}{q}', f'{sym}{q}'} | ({f'+{sym}+2'} if q == '2+' else set()):
            for mono in (True, False):
                for z in (None, 1, 2):
                    seq = rng.choice(['PEPTIDE', 'ACDK', 'MW', 'G'])
                    ocases.append((_PA(_sequence=seq, _charge=z if z is not None else 1, _charge_adducts=[_Mod(ion, 1)]), {'monoisotopic': mono}))
                    ocases.append((_PA(_sequence=seq), {'monoisotopic': mono, 'charge_adducts': ion, **({} if z is None else {'charge': z})}))
        # two different ions, each once
        other = rng.choice([x for x in cm.ADDUCT_IONS if x[0] != sym])
        pair = f'+{sym}{q},+{other[0]}{other[1]}'
        for mono in (True, False):
            ocases.append((_PA(_sequence='PEPTIDE', _charge=2, _charge_adducts=[_Mod(pair, 1)]), {'monoisotopic': mono}))
            ocases.append((_PA(_sequence='PEPTIDE'), {'monoisotopic': mono, 'charge_adducts': pair}))
    # a global rule together with the SAME modification written explicitly on some of its target residues (search-engine style
    # output): both count - "each modification's mass times its multiplier, wherever it is written"
    for _ in range(80 if tier == 'quick' else 2500):
        t = rng.choice(cm.RES22)
        n = rng.randint(2, 9)
        sq = [rng.choice(cm.RES22) for _ in range(n)]
        for pos in rng.sample(range(n), rng.randint(1, min(3, n))):
            sq[pos] = t
        v = cm.gen_value(rng, ['num', 'named', 'formula', 'unimod'])
        mult = rng.choice([1, 1, 2])
        vs = ('+' if isinstance(v, (int, float)) and v > 0 and rng.random() < 0.5 else '') + str(v)
        a = _PA(_sequence=''.join(sq), _static_mods=[_Mod(f'[{vs}]' + (f'^{mult}' if mult > 1 else '') + f'@{t}', 1)])
        tpos = [i for i, c in enumerate(sq) if c == t]
        d = {}
        for i in rng.sample(tpos, rng.randint(1, len(tpos))):
            d[i] = [_Mod(v, mult)] + ([_Mod(rng.choice([1.5, 'Methyl']), 1)] if rng.random() < 0.3 else [])
        a._internal_mods = d
        ocases.append((a, {'monoisotopic': rng.random() < 0.5, **({'charge': rng.randint(0, 3)} if rng.random() < 0.5 else {})}))
    # formula modifications with repeated elements / isotopes at every kind of position
    for fm in [f for f in cm.FORMULAS] + [cm.gen_formula(rng) for _ in range(60 if tier == 'quick' else 2000)]:
        pos = rng.choice(['n', 'c', 'i', 'u', 'l', 's', 'v'])
        a = _PA(_sequence=rng.choice(['PEPTIDE', 'ACDEFGHIK', 'MK']))
        m = [_Mod(fm, rng.choice([1, 1, 2]))]
        if pos == 'n':
            a._nterm_mods = m
        elif pos == 'c':
            a._cterm_mods = m
        elif pos == 'i':
            a._internal_mods = {rng.randint(0, len(a._sequence) - 1): m}
        elif pos == 'u':
            a._unknown_mods = m
        elif pos == 'l':
            a._labile_mods = m
        elif pos == 'v':
            from peptacular.proforma.proforma_dataclasses import Interval as _Iv
            a._intervals = [_Iv(0, 2, False, m)]
        else:
            a._static_mods = [_Mod(f'[{fm}]@{rng.choice(a._sequence)}', 1)]
        ocases.append((a, {'monoisotopic': rng.random() < 0.5}))
    spec_lines = []
    for a, kw in ocases:
        k2 = {k: v for k, v in kw.items() if k != 'precision'}
        spec_lines.append(cm.line('spec_mass', a, k2, overrides=spec_overrides(a, kw, nuc, avg), prefix=('nist',)))
    spec_out = chk.driver(DRV, spec_lines)
    spec_of = {id(c): s for c, s in zip(ocases, spec_out)}

    def spec_ref(c):
        if id(c) in spec_of:
            return spec_of[id(c)]
        a, kw = c
        k2 = {k: v for k, v in kw.items() if k != 'precision'}
        return chk.driver(DRV, [cm.line('spec_mass', a, k2, overrides=spec_overrides(a, kw, nuc, avg), prefix=('nist',))])[0]

    def o_mass(c):
        a, kw = c
        ref = spec_ref(c)
        if not ref.startswith('ok '):
            return None if ref == 'none' else 'specification not evaluated: ' + ref
        ref = float(ref[3:])
        mono = kw.get('monoisotopic', True)
        tol = 1e-5 if mono else 2e-3
        p = kw.get('precision')
        got = pt.mass(a.copy(), **kw)
        lim = tol + (0.5 * 10.0 ** -p if p is not None else 0.0)
        if abs(got - ref) > lim:
            return f'mass = {got!r}, specification sum over the NIST reference = {ref!r} (|diff| = {abs(got - ref):.3g} > {lim:g})'
        ch = kw.get('charge', a._charge)
        if ch is not None and ch > 0:
            k2 = {k: v for k, v in kw.items() if k != 'use_isotope_on_mods'}
            z = pt.mz(a.copy(), **k2)
            if abs(z - ref / ch) > lim:
                return f'mz = {z!r} but specification mass / charge = {ref / ch!r}'
        return None

    def spec_defined(c):
        return spec_of[id(c)].startswith('ok ') and (cm.has_mods(c[0]) or (c[1].get('charge') or c[0]._charge or 0) != 0)

    chk.oracle('mass_vs_nist_specification', ocases, o_mass, nontrivial_fn=spec_defined, key_fn=lambda c: json.dumps(obj_of(*c), sort_keys=True),
               max_report=10 ** 6)
    for f in chk.failures:
        if f['oracle'] == 'mass_vs_nist_specification' and isinstance(f['case'], str):
            pass
    # make oracle failures replayable: store the structured case
    _attach_cases(chk, 'mass_vs_nist_specification', ocases, o_mass, classify)

    # ------------------------------------------------------------------ oracle 3: label path (loss verbatim, precision last)
    lcases = []
    for _ in range(300 if tier == 'quick' else 6000):
        a = cm.gen_annotation(rng, kinds=cm.APRIORI, isotope_p=1.0)
        kw = gen_kw(rng, adduct_p=0.1, prec_p=0.3, full=False)
        kw['loss'] = rng.choice([-18.010565, 1.0, round(rng.uniform(-100, 100), 4)])
        lcases.append((a, kw))

    def o_label(c):
        a, kw = c
        k0 = dict(kw)
        k0.pop('loss')
        k0.pop('precision', None)
        k1 = dict(kw)
        k1.pop('precision', None)
        try:
            base = pt.mass(a.copy(), **k0)
        except ValueError:
            return None           # not a valid input (e.g. a numeric charge-adduct group)
        with_loss = pt.mass(a.copy(), **k1)
        if abs(with_loss - base - kw['loss']) > 1e-6:
            return f'isotope-labelled: mass(loss={kw["loss"]}) - mass(loss=0) = {with_loss - base!r}'
        p = kw.get('precision')
        if p is not None:
            r = pt.mass(a.copy(), **kw)
            if abs(r - with_loss) > 0.5 * 10.0 ** -p + 1e-6 or abs(r - round(r, p)) > 1e-9:
                return f'isotope-labelled: mass(precision={p}) = {r!r} is not the rounding of {with_loss!r}'
        return None

    chk.oracle('label_path_loss_and_precision', lcases, o_label, key_fn=lambda c: json.dumps(obj_of(*c), sort_keys=True), max_report=50)
    _attach_cases(chk, 'label_path_loss_and_precision', lcases, o_label)

    from decimal import Decimal as _D, ROUND_HALF_EVEN as _RHE

    def half_even(x, p):
        return float(_D(x).quantize(_D(1).scaleb(-p), rounding=_RHE))

    # ------------------------------------------------------------------ oracle 3b: fast path - loss and isotope offset enter before the rounding
    # (a result with precision p is a p-decimal number within half a unit of the unrounded mass; comparing at 1e-p alone would not
    # notice a term added after the rounding)
    fcases = []
    for _ in range(250 if tier == 'quick' else 5000):
        a = cm.gen_annotation(rng, kinds=cm.APRIORI, max_len=10)
        kw = gen_kw(rng, adduct_p=0.1, prec_p=0.0, full=False)
        kw['loss'] = rng.choice([-18.010565, -17.026549, round(rng.uniform(-100, 100), 5)])
        kw['isotope'] = rng.choice([0, 1, 2, 3])
        kw['precision'] = rng.choice([0, 1, 2, 3, 4])
        fcases.append((a, kw))

    def o_fast(c):
        a, kw = c
        k1 = dict(kw)
        p = k1.pop('precision')
        try:
            unrounded = pt.mass(a.copy(), **k1)
        except ValueError:
            return None           # not a valid input (e.g. a numeric charge-adduct group)
        r = pt.mass(a.copy(), **kw)
        if abs(r - half_even(r, p)) > 1e-9 or abs(r - unrounded) > 0.5 * 10.0 ** -p + 1e-6:
            return f'mass(loss={kw["loss"]}, isotope={kw["isotope"]}, precision={p}) = {r!r} is not the rounding of {unrounded!r}'
        return None

    chk.oracle('fast_path_precision_last', fcases, o_fast, key_fn=lambda c: json.dumps(obj_of(*c), sort_keys=True), max_report=50)
    _attach_cases(chk, 'fast_path_precision_last', fcases, o_fast)

    # ------------------------------------------------------------------ oracle 6: m/z with precision (0 included), charge >= 2
    mzp = []
    for _ in range(200 if tier == 'quick' else 5000):
        a = cm.gen_annotation(rng, kinds=['num', 'formula', 'named'], max_len=10, charge_p=0.4, static_p=0.1)
        a._charge_adducts = None
        z = rng.choice([2, 2, 3, 4, 5])
        in_string = rng.random() < 0.4
        if in_string:
            a._charge = z
        else:
            a._charge = None
        kw = {'monoisotopic': rng.random() < 0.5, 'precision': rng.choice([0, 0, 0, 1, 2, 3])}
        if not in_string:
            kw['charge'] = z
        mzp.append((a, kw, z))
    mz_lines = [cm.line('spec_mass', a, {k: v for k, v in kw.items() if k != 'precision'},
                        overrides=spec_overrides(a, kw, nuc, avg), prefix=('nist',)) for a, kw, _ in mzp]
    mz_ref = dict(zip(map(id, mzp), chk.driver(DRV, mz_lines)))

    def o_mzp(c):
        a, kw, z = c
        ref = mz_ref[id(c)]
        if not ref.startswith('ok '):
            return None
        ref = float(ref[3:])
        p = kw['precision']
        tol = (1e-5 if kw['monoisotopic'] else 2e-3)
        got = pt.mz(a.copy(), **kw)
        if abs(got - half_even(got, p)) > 1e-9:
            return f'mz(precision={p}) = {got!r} is not rounded to {p} decimals'
        if abs(got - ref / z) > 0.5 * 10.0 ** -p + tol:
            return f'mz(precision={p}) = {got!r}, reference mass / charge = {ref / z!r} (charge {z})'
        gm = pt.mass(a.copy(), **kw)
        if abs(gm - half_even(gm, p)) > 1e-9 or abs(gm - ref) > 0.5 * 10.0 ** -p + tol:
            return f'mass(precision={p}) = {gm!r}, reference {ref!r}'
        raw = pt.mass(a.copy(), **{k: v for k, v in kw.items() if k != 'precision'})
        for pp in (0, 1, 4):
            d = mass_calc.adjust_mz(raw, z, pp)
            if d != half_even(raw / z, pp):
                return f'adjust_mz({raw!r}, {z}, {pp}) = {d!r}, round-half-even of the quotient is {half_even(raw / z, pp)!r}'
        d0 = mass_calc.adjust_mz(raw, z, None)
        if d0 != raw / z:
            return f'adjust_mz({raw!r}, {z}, None) = {d0!r}, quotient {raw / z!r}'
        return None

    chk.oracle('mz_with_precision', mzp, o_mzp, key_fn=lambda c: json.dumps(obj_of(c[0], c[1]), sort_keys=True), max_report=20)
    for f in chk.failures:
        if f['oracle'] == 'mz_with_precision' and not isinstance(f['case'], dict):
            for c in mzp:
                if repr(c) == f['case']:
                    f['case'] = obj_of(c[0], c[1])
                    f['function'] = 'peptacular.mz / peptacular.mass_calc.adjust_mz'
                    break

    # ------------------------------------------------------------------ oracle 5: call sequences (no state may leak between calls)
    from peptacular.chem import chem_calc as _cc2
    seq_cases = []
    for _ in range(120 if tier == 'quick' else 3000):
        v = cm.gen_value(rng, ['formula', 'formula', 'glycan', 'named', 'unimod', 'num'])
        a = _PA(_sequence=''.join(rng.choice(cm.RES22) for _ in range(rng.randint(1, 8))))
        m = [_Mod(v, rng.choice([1, 1, 2]))]
        pos = rng.choice(['n', 'c', 'i', 'u', 'l', 's'])
        if pos == 'n':
            a._nterm_mods = m
        elif pos == 'c':
            a._cterm_mods = m
        elif pos == 'i':
            a._internal_mods = {rng.randint(0, len(a._sequence) - 1): m}
        elif pos == 'u':
            a._unknown_mods = m
        elif pos == 'l':
            a._labile_mods = m
        else:
            vs = ('+' if isinstance(v, (int, float)) and v > 0 else '') + str(v)
            a._static_mods = [_Mod(f'[{vs}]@{rng.choice(a._sequence)}', 1)]
        seq_cases.append((a, {'monoisotopic': rng.random() < 0.5, **({'charge': rng.randint(1, 3)} if rng.random() < 0.5 else {})}, v))
    sq_lines = [cm.line('spec_mass', a, kw, overrides=spec_overrides(a, kw, nuc, avg), prefix=('nist',)) for a, kw, _ in seq_cases]
    sq_ref = dict(zip(map(id, seq_cases), chk.driver(DRV, sq_lines)))

    def _spoil(d):
        if isinstance(d, dict):
            for k in list(d):
                d[k] = 999
            d['Xx'] = 1
        elif isinstance(d, tuple):
            for x in d:
                _spoil(x)
        elif isinstance(d, list):
            d.append('junk')

    def o_sequence(c):
        a, kw, v = c
        mono = kw['monoisotopic']
        first = pt.mass(a.copy(), **kw)
        # the calls in between get the caller's OWN object (not a copy): a query that edits its argument (a dropped or
        # shallow defensive copy) changes what the same object weighs afterwards
        calls = [lambda: mass_calc.mod_mass(v, True), lambda: mass_calc.mod_mass(v, False), lambda: _cc2.mod_comp(v),
                 lambda: pt.comp(a), lambda: pt.comp_mass(a), lambda: pt.comp_mass(a, 'b', 1),
                 lambda: pt.mass(a, monoisotopic=not mono), lambda: pt.mass(a, isotope_mods=['13C', '15N', 'D']),
                 lambda: pt.mass(a, isotope_mods=['13C'], use_isotope_on_mods=True),
                 lambda: pt.mz(a, charge=2, monoisotopic=not mono),
                 lambda: pt.fragment(a, ['b', 'y'], [1], monoisotopic=not mono, return_type='mass')]
        if isinstance(v, str) and ':' in v:
            body = v.split(':', 1)[1]
            if v.lower().startswith('formula:'):
                calls += [lambda: chem_util.parse_chem_formula(body), lambda: chem_util.chem_mass(body),
                          lambda: _cc2.apply_isotope_mods_to_composition(body, ['13C']),
                          lambda: _cc2.apply_isotope_mods_to_composition(body, ['15N', 'D', '18O'])]
            if v.lower().startswith('glycan:'):
                calls += [lambda: pt.glycan_comp(body), lambda: _cc2.glycan_to_chem(body), lambda: mass_calc.glycan_mass(body)]
        for f in calls:
            try:
                _spoil(f())
            except Exception:  # noqa
                pass
        again = pt.mass(a, **kw)
        if again != first:
            return f'mass() answered {first!r} first and {again!r} after other calls on the same annotation object (modification {v!r})'
        again = pt.mass(a.copy(), **kw)
        if again != first:
            return f'mass() answered {first!r} first and {again!r} after other calls on the same modification {v!r}'
        ref = sq_ref[id(c)]
        if ref.startswith('ok '):
            tol = 1e-5 if mono else 2e-3
            if abs(again - float(ref[3:])) > tol:
                return f'after a call sequence mass = {again!r}, specification sum over the NIST reference = {float(ref[3:])!r}'
            z = kw.get('charge')
            if z:
                mzv = pt.mz(a.copy(), **kw)
                if abs(mzv - float(ref[3:]) / z) > tol:
                    return f'after a call sequence mz = {mzv!r}, reference {float(ref[3:]) / z!r}'
        return None

    chk.oracle('call_sequences_no_state_leak', seq_cases, o_sequence, key_fn=lambda c: json.dumps(obj_of(c[0], c[1]), sort_keys=True),
               max_report=20)
    for f in chk.failures:
        if f['oracle'] == 'call_sequences_no_state_leak' and not isinstance(f['case'], dict):
            for c in seq_cases:
                if repr(c) == f['case']:
                    f['case'] = obj_of(c[0], c[1])
                    f['function'] = 'peptacular.mass after mod_mass / mod_comp / chem_mass / apply_isotope_mods_to_composition / comp / comp_mass'
                    break

    # ------------------------------------------------------------------ oracle 4: labelled precursor = unlabelled reference + n(E)*(m(L)-m(E))
    rf = chk.driver(DRV, ['table\tspec_residues'])[0]
    res_formula = {}
    for e in rf.split(';'):
        k, v = e.split(':', 1)
        res_formula[k] = {kk: float(vv) for kk, vv in cm.parse_model_comp(v).items()}
    LABELS = {'13C': 'C', '15N': 'N', '18O': 'O', '17O': 'O', 'D': 'H', 'T': 'H', '34S': 'S', '2H': 'H'}
    lab_cases = []
    for _ in range(250 if tier == 'quick' else 6000):
        seq = ''.join(rng.choice(cm.RES22) for _ in range(rng.randint(1, 12)))
        labs = rng.sample(['13C', '15N', '18O', 'D', '34S', '17O', 'T', '2H'], rng.choice([1, 1, 2]))
        if len({LABELS[x] for x in labs}) != len(labs):
            labs = labs[:1]
        a = _PA(_sequence=seq)
        if rng.random() < 0.5:
            a._internal_mods = {rng.randint(0, len(seq) - 1): [_Mod(rng.choice([15.995, 1, 42.0106, -17.5]), rng.choice([1, 2]))]}
        kw = {'charge': rng.choice([0, 0, 1, 2, 3]), 'monoisotopic': True}
        if rng.random() < 0.5:
            a._isotope_mods = [_Mod(x, 1) for x in labs]
        else:
            kw['isotope_mods'] = [_Mod(x, 1) for x in labs]
        if rng.random() < 0.3:
            kw['loss'] = rng.choice([-18.010565, 1.0])
        if rng.random() < 0.3:
            kw['isotope'] = rng.randint(0, 2)
        lab_cases.append((a, kw, labs))
    base_lines = []
    for a, kw, labs in lab_cases:
        b = a.copy()
        b._isotope_mods = None
        k2 = {k: v for k, v in kw.items() if k != 'isotope_mods'}
        base_lines.append(cm.line('spec_mass', b, k2, prefix=('nist',)))
    base_out = chk.driver(DRV, base_lines)
    base_of = {id(c): r for c, r in zip(lab_cases, base_out)}

    def o_labelled(c):
        a, kw, labs = c
        ref = base_of[id(c)]
        if not ref.startswith('ok '):
            return None
        ref = float(ref[3:])
        z = kw.get('charge', 0)
        for lab in labs:
            el = LABELS[lab]
            n = sum(res_formula[aa].get(el, 0) for aa in a._sequence) + {'H': 2, 'O': 1}.get(el, 0) + (z if el == 'H' else 0)
            src = nuc['D'] if lab == '2H' else nuc[lab]
            ref += n * (src - nuc[el])
        got = pt.mass(a.copy(), **kw)
        if abs(got - ref) > 1e-5:
            return (f'labelled mass = {got!r}; reference (NIST sum of parts with {labs} substituted in residues, water and '
                    f'charge-carrying hydrogens) = {ref!r} (diff {got - ref:.3g})')
        return None

    chk.oracle('labelled_precursor_vs_reference', lab_cases, o_labelled, key_fn=lambda c: json.dumps(obj_of(c[0], c[1]), sort_keys=True) ,
               max_report=20)
    for f in chk.failures:
        if f['oracle'] == 'labelled_precursor_vs_reference' and not isinstance(f['case'], dict):
            for c in lab_cases:
                if repr(c) == f['case']:
                    f['case'] = obj_of(c[0], c[1])
                    f['function'] = 'peptacular.mass'
                    break

    cm.attach_reach(chk, reach)
    if tier == 'thorough':
        chk.leanchecker(['PeptVerif.Props.C02', 'PeptVerif.Model.Mass', 'PeptVerif.Model.Chem', 'PeptVerif.Props.C02Gen',
                         'PeptVerif.Lemmas.MassGen', 'PeptVerif.Generated.MassCorePy'])
    return chk.finish(classify)


def _attach_cases(chk, name, cases, fn, classify_fn=None, keep_unknown=5, keep_known=1):
    """make the failures of one oracle replayable: structured case, known-finding triage BEFORE the report cap (so that
    known findings cannot crowd out a new violation), shrinking of the failures that are kept"""
    by_repr = {}
    for c in cases:
        by_repr.setdefault(repr(c), c)
    mine = [f for f in chk.failures if f['oracle'] == name]
    others = [f for f in chk.failures if f['oracle'] != name]
    kept, n_known, n_unknown = [], {}, 0

    def in_known_region(f):
        # failures whose input lies outside every known-finding region are reported first (cleanest witness of something new)
        c = by_repr.get(f['case']) if not isinstance(f['case'], dict) else None
        if c is None:
            return 0
        ad = c[1].get('charge_adducts')
        if ad is None and c[0]._charge_adducts:
            ad = ','.join(str(m.val) for m in c[0]._charge_adducts)
        return 1 if isinstance(ad, str) and _adduct_count_matters(ad) else 0
    mine.sort(key=in_known_region)
    for f in mine:
        c = by_repr.get(f['case']) if not isinstance(f['case'], dict) else None
        if c is None:
            kept.append(f)
            continue
        f2 = dict(f)
        f2['case'] = obj_of(*c)
        kid = classify_fn(f2) if classify_fn else None
        if kid:
            if n_known.get(kid, 0) >= keep_known:
                continue
            n_known[kid] = n_known.get(kid, 0) + 1
            a, kw = c
        else:
            if n_unknown >= keep_unknown:
                continue
            n_unknown += 1
            # shrink towards a smaller input of the SAME kind: a step that turns the failure into a known finding is not taken
            # (otherwise a new violation whose input also touches a known-finding region shrinks into the known finding and
            # disappears from the report)
            def still_unknown(c2, _f=f2):
                d = fn(c2)
                if d is None or not classify_fn:
                    return d
                return None if classify_fn({**_f, 'case': obj_of(*c2), 'detail': str(d)}) else d
            a, kw = shrink(c, still_unknown)
            try:
                f2['detail'] = str(fn((a, kw)))
            except Exception as e:  # noqa
                f2['detail'] = f'unexpected {type(e).__name__}: {e}'
        f2['case'] = obj_of(a, kw)
        f2['function'] = 'peptacular.mass'
        f2['rerun'] = f'./check {chk.pid} --replay <this file>'
        kept.append(f2)
    chk.failures[:] = others + kept


def shrink(c, fn):
    """greedy structural shrinking of a failing (annotation, kwargs)"""
    a, kw = c

    def fails(a2, kw2):
        try:
            return fn((a2, kw2)) is not None
        except Exception:  # noqa
            return False

    changed = True
    while changed:
        changed = False
        for k in list(kw):
            k2 = {x: y for x, y in kw.items() if x != k}
            if fails(a, k2):
                kw = k2
                changed = True
        for fld in ('_labile_mods', '_unknown_mods', '_nterm_mods', '_cterm_mods', '_static_mods', '_intervals', '_internal_mods',
                    '_charge_adducts', '_charge', '_isotope_mods'):
            if getattr(a, fld) is None:
                continue
            b = a.copy()
            setattr(b, fld, None)
            if fails(b, kw):
                a = b
                changed = True
                continue
            v = getattr(a, fld)
            if isinstance(v, list) and len(v) > 1:
                for i in range(len(v)):
                    b = a.copy()
                    setattr(b, fld, [x for j, x in enumerate(getattr(b, fld)) if j != i])
                    if fails(b, kw):
                        a = b
                        changed = True
                        break
            if isinstance(v, dict) and len(v) > 1:
                for key in list(v):
                    b = a.copy()
                    getattr(b, fld).pop(key)
                    if fails(b, kw):
                        a = b
                        changed = True
                        break
        # multipliers -> 1
        for l in _mod_lists(a):
            for i, m in enumerate(l):
                if m.mult != 1:
                    b = a.copy()
                    for l2, l1 in zip(_mod_lists(b), _mod_lists(a)):
                        if l1 is l:
                            l2[i].mult = 1
                    if fails(b, kw):
                        a = b
                        changed = True
                        break
        if len(a._sequence) > 1 and a._intervals is None:
            for cut in (a._sequence[:len(a._sequence) // 2], a._sequence[:-1]):
                if a._internal_mods and max(a._internal_mods) >= len(cut):
                    continue
                b = a.copy()
                b._sequence = cut
                if cut and fails(b, kw):
                    a = b
                    changed = True
                    break
    return a, kw


def _mod_lists(a):
    out = []
    for l in (a._labile_mods, a._unknown_mods, a._nterm_mods, a._cterm_mods):
        if l:
            out.append(l)
    if a._internal_mods:
        out += list(a._internal_mods.values())
    if a._intervals:
        out += [iv.mods for iv in a._intervals if iv.mods]
    return out


def classify(f):
    """known findings of C02 (structural match on the shrunk witness)"""
    case = f.get('case')
    if not isinstance(case, dict) or 'annotation' not in case:
        return None
    if f['oracle'] == 'mass_vs_nist_specification':
        a, kw = case_of(case)
        ad = kw.get('charge_adducts')
        if ad is None and a._charge_adducts:
            ad = ','.join(str(m.val) for m in a._charge_adducts)
        if isinstance(ad, str) and _adduct_count_matters(ad):
            # re-check: the whole discrepancy must be the electron term of the adducts whose count is not +1,
            # i.e. sum over ions of charge * m_e * (count - 1); anything else is a different violation
            import re
            from peptacular.constants import ELECTRON_MASS
            from peptacular.proforma.proforma_parser import parse_ion_elements
            m = re.match(r'mass = (\S+), specification sum over the NIST reference = (\S+) ', f.get('detail', ''))
            scale = 1.0
            if not m:
                # the same finding seen through mz(): the electron term divided by the charge (rounding to `precision` can push
                # a deviation that the mass comparison still tolerates over the half-unit bound of the m/z comparison)
                m = re.match(r'mz = (\S+) but specification mass / charge = (\S+)', f.get('detail', ''))
                ch = kw.get('charge', a._charge)
                if not m or not ch:
                    return None
                scale = float(ch)
            diff = float(m.group(1)) - float(m.group(2))
            pred = 0.0
            for x in ad.split(','):
                cnt, sym, q = parse_ion_elements(x)
                if sym != 'e':
                    pred += q * ELECTRON_MASS * (cnt - 1)
            tol = 1e-5 if kw.get('monoisotopic', True) else 2e-3
            p = kw.get('precision')
            if abs(diff - pred / scale) <= tol + (0.5 * 10.0 ** -p if p is not None else 0.0):
                return 'KF-C02-adduct-electron-count'
    return None


def _adduct_count_matters(s):
    from peptacular.proforma.proforma_parser import parse_ion_elements
    if s == '+H+':
        return False
    for x in s.split(','):
        try:
            cnt, sym, q = parse_ion_elements(x)
        except Exception:  # noqa
            return False
        if sym != 'e' and cnt != 1:
            return True
    return False


def replay(chk, obj):
    pt = _pt()
    case = obj.get('case')
    if not isinstance(case, dict) or 'annotation' not in case:
        print(json.dumps(obj, indent=1))
        return 0
    a, kw = case_of(case)
    print('input   :', case.get('proforma'), kw)
    try:
        print('mass    :', repr(pt.mass(a.copy(), **kw)))
    except Exception as e:  # noqa
        print('mass raised', type(e).__name__, e)
    print('expected:', obj.get('detail'))
    return 0
