"""C01 - ProForma text and annotation objects are faithful inverses of each other."""
import json

from .. import annot
from ..annot import esc, unesc
from . import c01_lib as L

PID = 'C01'
DRV = L.DRV01

REGISTRY = {
    'id': 'C01',
    'text': 'Mechanical tie for the serializer: harness/translate_serializer.py reads the CURRENT source of Mod.serialize, '
            '_serialize_annotation_start/middle/end, _serialize_annotation and MultiProFormaAnnotation.serialize with ast and emits '
            'Generated/SerializerPy.lean; Props/C01Gen proves each equal to the hand model (GenSer.f = Pept.f) and transfers '
            'parse_serialize, serialize_fixpoint, serialize_total and the +-joined multi-chain round trip to the definitions read off '
            'the source (a function outside the small statement subset is reported as untranslated and stays tied by correspondence). '
            'Lean theorems about an executable model of the three-phase parser, convert_type and the serializer, for every canonical '
            'annotation (decidable predicate canon = image of the documented grammar), every length, both include_plus settings: '
            'scan_roundtrip, parseMod_serialize, parseMods_roundtrip, parseStart_serializeStart, parseMiddle_serializeMiddle, '
            'parseEnd_serializeEnd, parse_serialize (parse(serialize(a)) = a for single chains; stated for any per-modification choice of the + '
            'spelling, include_plus False/True are instances), parse_any_section_order (leading sections in any order), serialize_fixpoint, '
            'parse_serialize_multi_partial (any number of chains joined by +), parse_joined (the parser reads any mix of + and //), '
            'int_value_roundtrip; parse_render (parse(render t) = denote t for every well-formed surface-syntax tree of the documented grammar, '
            'any spelling of every modification); accepted_roundtrip / accepted_serialize_fixpoint for every accepted grammatical string; '
            'parse_serializeMultiFixed (mixed +/// relative to the corrected joiner constant); parse_serialize_crosslink_false is the decide-checked counter-example for the known finding '
            '(serializer writes two backslashes for //). The model is tied to /repo by differential correspondence on grammar-derived '
            'strings (all spelling families, 1-3 chains), test-file strings and mutants; denotation / round-trip oracles run on the real code',
    'note': 'trusted: Lean kernel, axioms propext/Classical.choice/Quot.sound, the serializer subset reader translate_serializer.py (its '
            'output Generated/SerializerPy.lean is committed and diffable), the correspondence harness, the reading of canon as the image '
            'of the documented grammar (the generator output is checked against it on every run); floats with more than 15 significant '
            'digits or decimal exponent beyond 290 and non-ASCII text are outside the round-trip model; equality proved is structural, '
            'which implies the library multiset ==; known finding KF-C01-crosslink-backslash (pinned by a test and a doctest)',
    'technique': 'Lean 4 proof about executable model + differential correspondence',
}

KF_CROSSLINK = 'KF-C01-crosslink-backslash'


def run(chk):
    pt, pp, Mod, Interval, PFE = L._mods()
    tier = chk.tier
    rng = chk.rng
    quick = tier == 'quick'
    # serializer source -> Generated/SerializerPy.lean + Props/C01Gen.lean (equality with the hand model), regenerated on change
    from .. import translate_serializer
    gen_done, gen_unt = translate_serializer.translate(chk)
    chk.lean_build(['PeptVerif.Props.C01', 'PeptVerif.Props.C01Gen'], DRV)
    chk.trusted += [
        'harness/translate_serializer.py: the reading of the Python statement subset of the serializer (comps.append, has_x() / is not '
        'None / truthiness guards, for-loops over guarded lists, enumerate(sequence), int ==, f-strings of simple parts, the fixed loop '
        'shape of MultiProFormaAnnotation.serialize) into the combinators of Model/SerializeC.lean; include_plus is read as the '
        'per-modification choice `plus mod`. Translated on this run: ' + (', '.join(gen_done) or 'nothing') +
        ('; tied by correspondence only: ' + ', '.join(gen_unt) if gen_unt else ''),
        'modelled: _ProFormaParser (all phases, chain loop), _is_unmodified, parse, Mod.__post_init__/convert_type on ASCII, '
        'Mod.serialize, _serialize_annotation_start/middle/end, MultiProFormaAnnotation.serialize; '
        'not modelled: ProFormaAnnotation.__eq__ (multiset equality; the theorems prove the stronger structural equality), '
        'error message texts, non-ASCII digits/whitespace accepted by int()/float()',
        'float values are carried as the text of Python repr: exact for <= 15 significant digits and decimal point position in '
        '[-290, 300]; other accepted numbers are opaque in the model and compared numerically',
    ]
    chk.assumptions += [
        'round-trip theorems are stated for canonical annotations (Spec/ProForma.lean: canon); the grammar-directed generator is '
        'checked against canon on every run',
        'input text is ASCII; float values are in the domain where the model reproduces Python repr (<= 15 significant digits, '
        'decimal point position in [-290, 300])',
        'equality in the theorems is structural equality of the model objects (implies ProFormaAnnotation.__eq__)',
    ]
    gen = L.Gen(rng, chk)

    # ------------------------------------------------------------------ inputs
    n_gen = 4500 if quick else 60000
    cases = []      # (text, expected obj, style, nchains, crosslink)
    for i in range(n_gen):
        style = [False, True, 'mixed'][i % 3]
        t, exp, k, xl = gen.proforma(style)
        cases.append((t, L.dump_any(exp), style, k, xl))
    tests = L.test_strings()
    corpus = [c for c in L.load_corpus(PID)]
    corpus_strings = [c['s'] for c in corpus if c.get('op') == 'parse']
    strings = corpus_strings + tests + [c[0] for c in cases]
    # single-token mutations of valid strings (accepted or not)
    muts = []
    for c in cases[:: (3 if quick else 2)]:
        muts.append(L.mutate(rng, c[0]))
    for s in tests:
        muts.append(L.mutate(rng, s))
    chk.count('generated', len(cases))
    chk.count('test-file strings', len(tests))
    chk.count('mutated', len(muts))

    # ------------------------------------------------------------------ correspondence: parse
    def ok_with_mod(c, im):
        return im[:1] in 'AM' and ('L' in im or 'D' in im or 'V' in im)

    reach = L.Reach()
    reach.__enter__()
    chk.correspond('parse', DRV, strings + muts, lambda s: 'parse\t1\t' + esc(s), L.impl_parse,
                   compare=L.same_reply, nontrivial_fn=ok_with_mod)

    # ------------------------------------------------------------------ correspondence: serialize
    objs = []
    for s in strings + muts:
        try:
            objs.append(pt.parse(s))
        except Exception:  # noqa
            pass
    # annotation objects that did not come from the parser (setters / generator), including non-canonical ones
    for _ in range(300 if quick else 6000):
        objs.append(annot.gen_annotation(rng, min_len=0, max_len=10))
    edge = [
        pp.ProFormaAnnotation(_sequence='PEP', _unknown_mods=[], _nterm_mods=[], _labile_mods=[]),
        pp.ProFormaAnnotation(_sequence='PEP', _cterm_mods=[], _charge=0, _charge_adducts=[L.mk_mod('+H+', 1)]),
        pp.ProFormaAnnotation(_sequence='PEPTIDE', _intervals=[Interval(3, 5, True, None), Interval(0, 2, False, [L.mk_mod(1, 2)])]),
        pp.ProFormaAnnotation(_sequence='PEP', _internal_mods={-1: [L.mk_mod('a', 1)], 7: [L.mk_mod('b', 1)], 1: [L.mk_mod(2.5, 0)]}),
        pp.ProFormaAnnotation(_sequence='', _charge=-3),
        pp.ProFormaAnnotation(_sequence='PEP', _intervals=[Interval(1, 1, False, []), Interval(3, 3, True, [L.mk_mod(-1.5, 3)])]),
        pp.MultiProFormaAnnotation([pp.ProFormaAnnotation(_sequence='A'), pp.ProFormaAnnotation(_sequence='C')], [None]),
        pp.MultiProFormaAnnotation([pp.ProFormaAnnotation(_sequence='A'), pp.ProFormaAnnotation(_sequence='C')], []),
        pp.MultiProFormaAnnotation([], []),
        pp.ProFormaAnnotation(_sequence='PEP', _nterm_mods=[L.mk_mod(float('inf'), 1), L.mk_mod(float('nan'), 2),
                                                            L.mk_mod(1e22, 1), L.mk_mod(-0.0, 1), L.mk_mod(1e-7, 1)]),
    ]
    objs += edge
    float_objs = L.float_annotations(rng, 150 if quick else 3000, max_sig=17)
    objs += float_objs
    ser_cases = [(o, plus) for o in objs for plus in (False, True)]
    chk.correspond('serialize', DRV, ser_cases,
                   lambda c: f'serialize\t{int(c[1])}\t{L.dump_any(c[0])}',
                   lambda c: L.impl_serialize(c[0], c[1]),
                   nontrivial_fn=lambda c, im: '%' in im)

    # ------------------------------------------------------------------ correspondence: convert_type
    conv = ['1', '+1', '-1', '1.0', '+1.0', '1.50', '15.9950', '-0.0', '0', '00012', '1_000', '1__0', '_1', '1_', ' 12 ', '\t3\n',
            '1e5', '1E5', '1e-5', '1e16', '1e15', '123456789012345', '1234567890123456', '0.0001', '0.00001', '1.5e300', '1e-300',
            'inf', '-inf', '+INF', 'Infinity', '-infinity', 'nan', '-nan', 'NaN', '.5', '5.', '.', '+', '-', '', ' ', '+-1', '1 2',
            '1.2.3', '1e', '1e+', 'e5', '0x10', '1_0.0_1e1_0', '1._5', '1_.5', '1e_5', '12abc', 'Oxidation', '\x1c7\x1f',
            '1' * 30, '0.' + '3' * 20, '100000000000000000000.0', '9007199254740993', '4.35', '0.1', '2.675', '1e22', '1e23']
    for _ in range(400 if quick else 20000):
        k = rng.random()
        if k < 0.4:
            x = round(rng.uniform(-1e6, 1e6), rng.randint(0, 8))
            t = repr(x)
            if rng.random() < 0.3:
                t = '+' + t if x > 0 else t
            if rng.random() < 0.3:
                t += '0' * rng.randint(1, 3)
        elif k < 0.6:
            t = '%d.%de%d' % (rng.randint(0, 999), rng.randint(0, 99999), rng.randint(-30, 30))
        elif k < 0.8:
            t = ''.join(rng.choice('0123456789.+-eE_ ') for _ in range(rng.randint(1, 8)))
        else:
            t = rng.choice(['', ' ', '+', '-']) + str(rng.randint(0, 10 ** rng.randint(1, 20))) + rng.choice(['', ' ', '.0', '.', 'e2'])
        conv.append(t)

    def conv_same(im, m):
        if im == m:
            return True
        if m.startswith('f%7E') and im.startswith('f'):
            a, b = float(unesc(im[1:])), float(unesc(m[4:]))
            return a == b or (a != a and b != b)
        return False

    chk.correspond('convert_type', DRV, conv, lambda s: 'convert\t' + esc(s), L.impl_convert, compare=conv_same,
                   nontrivial_fn=lambda c, im: im[0] in 'if')
    reach.__exit__()
    chk.notes.append({'reach_of_modelled_functions_during_correspondence': reach.report()})

    # ------------------------------------------------------------------ oracle 0: what a modification text denotes (independent reading)
    import re as _re
    INT_RE = _re.compile(r'^[ \t\n\r\x0b\x0c]*[+-]?[0-9]+(_[0-9]+)*[ \t\n\r\x0b\x0c]*$')
    FLT_RE = _re.compile(r'^[ \t\n\r\x0b\x0c]*[+-]?((([0-9]+(_[0-9]+)*)(\.([0-9]+(_[0-9]+)*)?)?|\.[0-9]+(_[0-9]+)*)([eE][+-]?[0-9]+(_[0-9]+)*)?'
                      r'|[iI][nN][fF]([iI][nN][iI][tT][yY])?|[nN][aA][nN])[ \t\n\r\x0b\x0c]*$')
    from fractions import Fraction
    from peptacular.util import convert_type

    def o_value(t):
        """a mod text denotes an int iff it is a decimal integer literal, a float iff it is a decimal/exponent literal, else itself"""
        got = convert_type(t)
        if INT_RE.match(t):
            want = int(t.strip().replace('_', ''))          # digits only: exact
            if type(got) is not int or got != want:
                return f'convert_type({t!r}) = {got!r}, the text denotes the integer {want}'
        elif FLT_RE.match(t):
            if type(got) is not float:
                return f'convert_type({t!r}) = {got!r} ({type(got).__name__}), the text denotes a float'
            body = t.strip().replace('_', '').lower()
            if 'inf' not in body and 'nan' not in body:
                m = _re.match(r'^([+-]?)([0-9]*)\.?([0-9]*)(?:e([+-]?[0-9]+))?$', body)
                sign, ip, fp, ex = m.groups()
                ex = int(ex or 0)
                if abs(ex) < 400:
                    exact = Fraction(int((ip + fp) or '0')) * Fraction(10) ** (ex - len(fp))
                    if sign == '-':
                        exact = -exact
                    if abs(exact) < Fraction(10) ** 300 and (exact == 0 or abs(exact) > Fraction(1, 10 ** 300)):
                        if got != float(exact) :
                            return f'convert_type({t!r}) = {got!r}, the nearest double of the denoted decimal is {float(exact)!r}'
        else:
            if got != t or type(got) is not str:
                return f'convert_type({t!r}) = {got!r}, the text is not a number and denotes itself'
        return None

    chk.oracle('value_denotation', conv, o_value, nontrivial_fn=lambda t: bool(INT_RE.match(t) or FLT_RE.match(t)))

    # ------------------------------------------------------------------ surface-syntax trees: Lean render/denote vs Python twin vs real parse
    tg = L.TreeGen(rng, chk)
    trees = [tg.tree() for _ in range(1200 if quick else 30000)]
    chk.correspond('ast_render', DRV, trees, lambda t: 'ast_render\t' + L.wire_tree(t), lambda t: 'S' + esc(L.tree_render(t)),
                   nontrivial_fn=lambda t, im: '%' in im)
    chk.correspond('ast_denote', DRV, trees, lambda t: 'ast_denote\t' + L.wire_tree(t), lambda t: L.dump_any(L.tree_denote(t)),
                   compare=L.same_reply, nontrivial_fn=lambda t, im: 'L' in im or 'D' in im or 'V' in im)
    wfbits = chk.driver(DRV, ['ast_wf\t' + L.wire_tree(t) for t in trees])
    chk.count('trees well-formed (Lean wf)', sum(1 for b in wfbits if b[:1] == '1'))
    chk.count('trees grammatical (Lean)', sum(1 for b in wfbits if b == '11'))
    tree_wf = {L.wire_tree(t): b for t, b in zip(trees, wfbits)}

    def o_tree(t):
        """the real parser on the text of a tree gives what the tree denotes (Python twin of Spec/ProForma.lean `denote`)"""
        if tree_wf[L.wire_tree(t)][:1] != '1':
            return 'generated tree is not well-formed for the Lean predicate SText.wf: ' + L.wire_tree(t)
        text = L.tree_render(t)
        got = L.with_alarm(lambda: pt.parse(text))
        exp = L.tree_denote(t)
        if L.dump_any(got) != L.dump_any(exp):
            return f'parse({text!r}) = {L.dump_any(got)} but the tree denotes {L.dump_any(exp)}'
        if not (got == exp):
            return f'parse({text!r}) is not == to what the tree denotes'
        return None

    chk.oracle('parse_vs_tree_denotation', trees, o_tree, key_fn=L.wire_tree,
               nontrivial_fn=lambda t: any(ch['start'] or ch['cterm'] or ch['charge'] for _, ch in t))

    # ------------------------------------------------------------------ every ACCEPTED string survives serialize/parse (since fix 0b351bb)
    import itertools
    SMALL = ['P', '[', ']', '(', ')', '{', '}', '<', '>', '?', '-', '+', '/', '^', '@', '1', '0', 'a', '.']
    depth = 4 if quick else 5
    acc_strings = []
    for k in range(1, depth + 1):
        for tup in itertools.product(SMALL, repeat=k):
            s0 = ''.join(tup)
            try:
                pt.parse(s0)
            except Exception:  # noqa
                continue
            acc_strings.append(s0)
    chk.count('accepted strings (exhaustive, small alphabet)', len(acc_strings))
    gram = chk.driver(DRV, ['gram\t' + esc(s0) for s0 in acc_strings])
    chk.count('of these grammatical (Lean grammaticalString)', sum(1 for g in gram if g == '1'))

    # ------------------------------------------------------------------ oracle 1: expected structure
    def o_expected(c):
        t, expd, style, k, xl = c
        exp = L.undump_any(expd)
        got = L.with_alarm(lambda: pt.parse(t))
        if L.dump_any(got) != expd:
            return f'parse({t!r}) = {L.dump_any(got)} but the notation denotes {expd}'
        if not (got == exp):
            return f'parse({t!r}) is not == to the object the notation denotes'
        if style in (False, True):
            if xl:
                return None   # canonical text of crosslinks: see round-trip oracle (known finding)
            back = pt.serialize(got, style)
            if back != t:
                return f'serialize(parse(s), include_plus={style}) = {back!r} differs from the canonical string {t!r}'
        return None

    chk.oracle('parse_vs_denotation', cases, o_expected, nontrivial_fn=lambda c: any(ch in c[0] for ch in '[{<('),
               key_fn=lambda c: c[0])

    # ------------------------------------------------------------------ oracle 2: round trips on the real code
    def o_roundtrip(s):
        a = L.with_alarm(lambda: pt.parse(s))
        for plus in (False, True):
            t = pt.serialize(a, plus)
            try:
                b = pt.parse(t)
            except Exception as e:  # noqa
                return f'include_plus={plus}: serialize(parse(s)) = {t!r} does not parse: {L.err_name(e)}'
            if not (b == a) or type(b) is not type(a):
                return f'include_plus={plus}: parse(serialize(parse(s))) != parse(s); serialized {t!r}'
            if L.dump_any(b) != L.dump_any(a):
                return f'include_plus={plus}: parse(serialize(parse(s))) differs field-wise from parse(s); serialized {t!r}'
            t2 = pt.serialize(b, plus)
            if t2 != t:
                return f'include_plus={plus}: serialize is not a fixpoint: {t!r} -> {t2!r}'
        return None

    rt_strings = [s for s in corpus_strings if L.impl_parse(s)[:1] in 'AM'] + tests + [c[0] for c in cases]
    chk.oracle('roundtrip', rt_strings, o_roundtrip, nontrivial_fn=lambda s: any(ch in s for ch in '[{<(/+'))

    # any accepted string whose parse result is canonical (decided by the Lean predicate) must round-trip as well
    acc = []
    for s in muts:
        try:
            acc.append((s, pt.parse(s)))
        except Exception:  # noqa
            pass
    can = chk.driver(DRV, ['canon\t' + L.dump_any(o) for _, o in acc]) if acc else []
    can_strings = [s for (s, o), r in zip(acc, can) if r == '1']
    chk.count('mutated accepted', len(acc))
    chk.count('mutated accepted canonical', len(can_strings))
    chk.oracle('roundtrip_canonical_mutants', can_strings, o_roundtrip,
               nontrivial_fn=lambda s: any(ch in s for ch in '[{<(/+'))
    # ... and so must every accepted string, canonical or not (the accepted-garbage classes are rejected since 0b351bb)
    chk.oracle('roundtrip_every_accepted_string', acc_strings + [s for s, _ in acc], o_roundtrip,
               nontrivial_fn=lambda s: any(ch in s for ch in '[{<(/+'))
    # generator output is canonical (ties the generator's grammar to the Lean predicate)
    gcan = chk.driver(DRV, ['canon\t' + c[1] for c in cases])
    gen_by_text = {}
    for c, r in zip(cases, gcan):
        gen_by_text[c[0]] = r

    def o_gen_canon(c):
        if c[4]:
            return None
        return None if gen_by_text[c[0]] == '1' else 'grammar-derived object is rejected by the Lean predicate Canon: ' + c[1]

    chk.oracle('generator_is_canonical', cases, o_gen_canon, key_fn=lambda c: c[0])

    # ------------------------------------------------------------------ oracle: float values of any precision survive, both include_plus
    def o_float_rt(c):
        d, plus = c
        a = L.undump_any(d)
        t = pt.serialize(a, plus)
        b = pt.parse(t)
        if L.dump_any(b) != d or not (b == a):
            return (f'serialize(a, include_plus={plus}) = {t!r}; parsing it gives {L.dump_any(b)} instead of {d}: a modification value '
                    f'is changed by writing it')
        return None

    chk.oracle('float_value_roundtrip', [(L.dump_any(o), p) for o in float_objs for p in (False, True)], o_float_rt,
               key_fn=lambda c: c[0] + str(c[1]))

    # ------------------------------------------------------------------ oracle: no state leaks between parse calls
    # sequences on the SAME string: parse -> edit the result in place at every container level -> parse again;
    # parse -> string-level editors on that string -> parse again; the earliest parses are re-issued at the end of the run
    seq_strings = [t for t in corpus_strings if L.impl_parse(t)[:1] in 'AM'] + tests + \
        [c[0] for c in cases[: (500 if quick else 6000)]] + ['PEP[Phospho]TIDE-[Amidated]', 'PEP[Phospho]TIDE+AC[Oxidation]K//[Acetyl]-MK']
    first_dump = {}

    def o_state(t):
        d0 = L.dump_any(pt.parse(t))
        first_dump.setdefault(t, d0)
        if d0 != first_dump[t]:
            return f'parse({t!r}) differs from the first parse of the same string in this run: {d0} vs {first_dump[t]}'
        a = pt.parse(t)
        L.mutate_in_place(a)
        d1 = L.dump_any(pt.parse(t))
        which = None
        if d1 != d0:
            which = 'editing the returned annotation in place'
        else:
            L.string_editors(pt, t)
            d2 = L.dump_any(pt.parse(t))
            if d2 != d0:
                which = 'calling string-level functions (add_mods, condense_static_mods, reverse, mass, fragment, ...) on the string'
                d1 = d2
        if which is None:
            b1, b2 = pt.parse(t), pt.parse(t)
            if b1 is b2:
                return f'parse({t!r}) returns the same object twice'
            return None
        ok, info = L.confirm_leak_fresh(t)
        return (f'after {which}, parse({t!r}) = {d1} instead of {d0} (state leaks between parse calls); '
                f'fresh interpreter: {"confirmed" if ok else "not reproduced: " + str(info)[:200]}')

    chk.oracle('parse_is_stateless', seq_strings, o_state, nontrivial_fn=lambda t: any(ch in t for ch in '[{<('))

    # ------------------------------------------------------------------ oracle 3: a = serialize-side round trip on objects
    def o_obj_roundtrip(c):
        o, plus = c
        t = pt.serialize(o, plus)
        b = pt.parse(t)
        t2 = pt.serialize(b, plus)
        if t2 != t:
            return f'serialize(parse(serialize(a))) = {t2!r} != serialize(a) = {t!r}'
        return None

    canon_objs = []
    gobjs = [annot.gen_annotation(rng, min_len=1, max_len=10) for _ in range(400 if quick else 8000)]
    gc = chk.driver(DRV, ['canon\t' + L.dump_any(o) for o in gobjs])
    for o, r in zip(gobjs, gc):
        if r == '1':
            canon_objs.append(o)
    chk.count('generated objects canonical', len(canon_objs))
    chk.oracle('object_roundtrip', [(o, p) for o in canon_objs for p in (False, True)], o_obj_roundtrip,
               key_fn=lambda c: L.dump_any(c[0]) + str(c[1]))

    # the earliest parses of the run, re-issued after everything else has happened
    def o_reissue(t):
        d = L.dump_any(pt.parse(t))
        return None if d == first_dump[t] else f'parse({t!r}) = {d} at the end of the run, {first_dump[t]} at its start'

    chk.oracle('parse_reissued_at_end', list(first_dump)[:400], o_reissue)

    chk.rule = ('strings built from the grammar together with the object they denote (all modification kinds and spelling families, '
                'vocabulary names/accessions with and without prefix, signed/unsigned numbers, Formula with isotope brackets, Glycan, Obs, '
                'INFO, # tags, | alternatives, ^n, charge with/without adducts, 1-3 chains joined by + or //, three spelling styles), the '
                'string literals of the repo tests, single-token mutations; non-trivial = the parse result has at least one modification '
                'list / the string has a section character; distinct = distinct protocol line or string')
    if not quick:
        chk.leanchecker(['PeptVerif.Props.C01', 'PeptVerif.Props.C01Gen', 'PeptVerif.Generated.SerializerPy',
                         'PeptVerif.Lemmas.SerializerGen', 'PeptVerif.Model.SerializeC', 'PeptVerif.Lemmas.ParserSurface', 'PeptVerif.Lemmas.ParserChain',
                         'PeptVerif.Lemmas.ParserAst', 'PeptVerif.Lemmas.ParserMiddle', 'PeptVerif.Lemmas.ParserRoundTrip', 'PeptVerif.Lemmas.ParserTotal',
                         'PeptVerif.Spec.ProForma', 'PeptVerif.Model.Serialize', 'PeptVerif.Model.Parser', 'PeptVerif.Model.ModText'])
    return chk.finish(classify)


def classify(f):
    """the only known finding: a chain joined by // serializes to two backslashes, which the parser rejects"""
    pt = L._mods()[0]
    if f['oracle'] in ('roundtrip', 'roundtrip_canonical_mutants', 'roundtrip_every_accepted_string'):
        s = f['case']
        if isinstance(s, str) and '//' in s and 'does not parse' in f['detail'] and '\\\\' in f['detail']:
            try:
                a = pt.parse(s.replace('//', '+'))
                ok = all(pt.parse(pt.serialize(a, p)) == a for p in (False, True))
            except Exception:  # noqa
                ok = False
            if ok:
                return KF_CROSSLINK
    return None


def replay(chk, obj):
    pt = L._mods()[0]
    print(json.dumps(obj, indent=1)[:3000])
    c = obj.get('case')
    if isinstance(c, str):
        try:
            a = pt.parse(c)
            print('parse ->', L.dump_any(a))
            for p in (False, True):
                t = pt.serialize(a, p)
                print(f'serialize(include_plus={p}) -> {t!r}')
                try:
                    print('  reparse ->', L.dump_any(pt.parse(t)))
                except Exception as e:  # noqa
                    print('  reparse raises', type(e).__name__)
        except Exception as e:  # noqa
            print('parse raises', type(e).__name__, e)
    return 0
