"""Shared by C12 and C18: the abstract mass environment sent to the Lean drivers, generators, canonicalisers."""
import copy
import os
import re
from fractions import Fraction  # noqa: F401 (re-exported)

from .. import annot

RES = 'ACDEFGHIKLMNPQRSTVWY'
LABELS = ['13C', '15N', '18O', '17O', '34S', 'D', 'T', '2H']
# element each label replaces
# hand-typed reference masses (NIST Atomic Weights and Isotopic Compositions / AME2016), NOT read from the library's table
REF_ISOTOPE_MASS = {'H': 1.00782503223, 'D': 2.01410177812, '2H': 2.01410177812, 'T': 3.0160492779, 'C': 12.0,
                    '13C': 13.00335483507, 'N': 14.00307400443, '15N': 15.00010889888, 'O': 15.99491461957,
                    '17O': 16.99913175650, '18O': 17.99915961286, 'S': 31.9720711744, '34S': 33.967867004}
LABEL_ELEMENT = {'13C': 'C', '15N': 'N', '18O': 'O', '17O': 'O', '34S': 'S', 'D': 'H', 'T': 'H', '2H': 'H'}

NUMERIC = [1, -1, 100, 15.995, -18.0106, 0.5, 42.0106, 79.97, 1.5, -17.03, 57.02, 10, 3.1415]
NAMED = ['Oxidation', 'Phospho', 'Acetyl', 'Carbamidomethyl', 'Methyl', 'Deamidated', 'U:Oxidation', 'UNIMOD:21',
         'M:L-methionine sulfoxide', 'MOD:00046', 'Unimod:1']
FORMULA = ['Formula:C2H3NO', 'Formula:[13C2]H4', 'Formula:C-1H2', 'Formula:H2O', 'Formula:[13C2]C-2H3N', 'Formula:C2H2OS',
           'Glycan:Hex']
POOL = NUMERIC + NAMED + FORMULA


def pt_mods():
    import peptacular as pt
    from peptacular import mass_calc, constants
    from peptacular.chem import chem_calc, chem_constants, chem_util
    from peptacular.proforma import proforma_parser as pp
    from peptacular.proforma.proforma_dataclasses import Mod, Interval
    return pt, mass_calc, constants, chem_calc, chem_constants, chem_util, pp, Mod, Interval


def rat(x):
    if isinstance(x, bool):
        x = int(x)
    if isinstance(x, int):
        return f'{x}/1'
    n, d = float(x).as_integer_ratio()
    return f'{n}/{d}'


def frac(s):
    n, _, d = s.partition('/')
    return Fraction(int(n), int(d or 1))


def show_comp(c):
    return ','.join(f'{annot.esc(str(k))}:{rat(v)}' for k, v in c.items())


def parse_comp(s):
    out = {}
    if s:
        for e in s.split(','):
            k, v = e.rsplit(':', 1)
            out[annot.unesc(k)] = frac(v)
    return out


def probe_quirks():
    """which of the two C02/C03-owned behaviours of the composition path the implementation shows"""
    _, mass_calc, *_ = pt_mods()
    q1 = abs(mass_calc.comp_mass('PEPTIDE[1.5]^2')[1] - 1.5) < 1e-9
    q2 = abs(mass_calc.comp_mass('{100}PEPTIDE', 'b', 1)[1] - 100) < 1e-9
    return int(q1), int(q2)


def env_fields(seq, vals, ion='p', mono=True, isotope=0, use_iso=False, charge=None, adducts=None, labels=(), quirks=(0, 0)):
    """the nine ENV fields of the driver protocol, resolved by the implementation.
    `vals` = python modification values (int / float / str) the model may look up."""
    pt, mass_calc, constants, chem_calc, chem_constants, chem_util, pp, Mod, Interval = pt_mods()
    aam = chem_constants.MONOISOTOPIC_AA_MASSES if mono else chem_constants.AVERAGE_AA_MASSES
    letters = sorted(set(seq))
    res = ','.join(f'{annot.esc(c)}={rat(aam[c])}' for c in letters)
    seen = {}
    for v in vals:
        seen.setdefault(annot.show_val(v), v)
    mu = []
    mr = []
    comps = []
    for k, v in seen.items():
        try:
            m = mass_calc.mod_mass(v, mono)
        except Exception:  # noqa
            m = 0
        mu.append(f'{k}={rat(m)}')
        try:
            d = chem_calc._parse_mod_delta_mass_only(v)
            if d is None:
                c = chem_calc.mod_comp(v)
                comps.append(c)
                mr.append(f'{k}=c{show_comp(c)}')
            else:
                mr.append(f'{k}=d{rat(d)}')
        except Exception:  # noqa
            mr.append(f'{k}=b')
    adj = mass_calc.adjust_mass(0.0, charge, ion, mono, isotope, 0.0, adducts, None)
    aac = ';'.join(f'{annot.esc(c)}={show_comp(constants.AA_COMPOSITIONS[c])}' for c in letters)
    comps += [constants.AA_COMPOSITIONS[c] for c in letters]
    ionc = chem_constants.NEUTRAL_FRAGMENT_COMPOSITION_ADJUSTMENTS[ion]
    ch = 0 if charge is None else charge
    if adducts is None:
        ad = f'{ch}H+' if ion in ('p', 'n') else f'{ch - 1}H+,{constants.FRAGMENT_ION_BASE_CHARGE_ADDUCTS[ion]}'
    else:
        ad = adducts
    chg = chem_calc._parse_charge_adducts_comp(ad)
    comps += [ionc, chg]
    els = {'n'}
    for c in comps:
        els |= set(map(str, c))
    comps += [constants.NTERM_COMPOSITION, constants.CTERM_COMPOSITION]
    for c in comps[-2:]:
        els |= set(map(str, c))
    # the keys of EM are also the labels the model's parse_isotope_mods accepts
    els |= {x for x in labels if isinstance(x, str) and x in constants.ISOTOPIC_ATOMIC_MASSES}
    em = ','.join(f'{annot.esc(e)}:{rat(chem_util.chem_mass({e: 1}, monoisotopic=mono))}' for e in sorted(els))
    flg = f'{isotope},{int(ion == "p")},{int(use_iso)},{quirks[0]},{quirks[1]}'
    return [res, ','.join(mu), rat(adj), aac, ';'.join(mr), show_comp(ionc), show_comp(chg), em, flg,
            show_comp(constants.NTERM_COMPOSITION), show_comp(constants.CTERM_COMPOSITION)]


def vals_from_reply(reply):
    return [annot.parse_val(t) for t in reply.split(',')] if reply else []


NUM_RE = re.compile(r'[+-]?\d+(?:\.\d*)?(?:[eE][+-]?\d+)?')


def same_text_numeric(a, b, tol):
    """equal up to the numbers inside (compared numerically within tol); everything else textually"""
    if a == b:
        return True
    sa = NUM_RE.split(a)
    sb = NUM_RE.split(b)
    if sa != sb:
        return False
    na = NUM_RE.findall(a)
    nb = NUM_RE.findall(b)
    if len(na) != len(nb):
        return False
    for x, y in zip(na, nb):
        if x.startswith('+') != y.startswith('+') and (float(x) != 0 or float(y) != 0):
            return False
        if abs(float(x) - float(y)) > tol:
            return False
    return True


def num_text(v):
    if isinstance(v, int):
        return ('+' if v > 0 else '') + str(v)
    return ('+' if v > 0 else '') + repr(v)


def rule_text(mods, targets, rng=None):
    parts = []
    for v in mods:
        if isinstance(v, (int, float)):
            t = num_text(v) if (rng is None or rng.random() < 0.5) else str(v)
        else:
            t = v
        parts.append(f'[{t}]')
    return ''.join(parts) + '@' + ','.join(targets)


def gen_rules(rng, seq, pool=POOL, max_rules=3):
    letters = sorted(set(seq))
    rules = []
    for _ in range(rng.choice([1, 1, 2, 3][:max_rules + 1])):
        cand = list(letters)
        absent = [c for c in RES if c not in letters]
        if absent:
            cand.append(rng.choice(absent))
        cand += ['N-Term', 'C-Term']
        if rng.random() < 0.5:
            cand += ['N-Term', 'C-Term']
        big_rule = rng.random() < 0.15           # make sure rules with two modifications AND three targets occur
        k = min(3 if big_rule else rng.choice([1, 1, 2, 3]), len(set(cand)))
        targets = []
        while len(targets) < k:
            t = rng.choice(cand)
            if t not in targets:
                targets.append(t)
        mods = [rng.choice(pool) for _ in range(2 if big_rule else rng.choice([1, 1, 2]))]
        rules.append((mods, targets))
    return rules


def gen_rule_annotation(rng, pool=POOL, max_len=20, premod=True, labels_p=0.0, extra_kinds=True):
    """annotation with 1..3 static rules; returns (annotation, rules) with rules = [(mod values, targets)]"""
    pt, mass_calc, constants, chem_calc, chem_constants, chem_util, pp, Mod, Interval = pt_mods()
    n = rng.randint(1, max_len)
    alpha = rng.sample(RES, rng.randint(1, 6))
    seq = ''.join(rng.choice(alpha) for _ in range(n))
    a = pp.ProFormaAnnotation(_sequence=seq)

    def mods():
        return [Mod(rng.choice(pool), 1) for _ in range(rng.choice([1, 1, 2]))]

    if premod:
        d = {}
        for i in range(n):
            if rng.random() < 0.25:
                d[i] = mods()
        if d:
            a._internal_mods = d
        if rng.random() < 0.3:
            a._nterm_mods = mods()
        if rng.random() < 0.3:
            a._cterm_mods = mods()
        if extra_kinds:
            if rng.random() < 0.15:
                a._labile_mods = mods()
            if rng.random() < 0.1:
                a._unknown_mods = mods()
            if rng.random() < 0.1 and n >= 2:
                s = rng.randint(0, n - 2)
                a._intervals = [Interval(s, rng.randint(s + 1, n), rng.random() < 0.3, mods() if rng.random() < 0.7 else None)]
    rules = gen_rules(rng, seq, pool)
    a._static_mods = [Mod(rule_text(m, t, rng), 1) for m, t in rules]
    if rng.random() < labels_p:
        a._isotope_mods = [Mod(x, 1) for x in rng.sample(LABELS, rng.choice([1, 1, 2]))]
    return a, rules


def explicit_form(a, rules):
    """the peptide with every rule modification written on each of its targets (independent of the implementation)"""
    pt, mass_calc, constants, chem_calc, chem_constants, chem_util, pp, Mod, Interval = pt_mods()
    b = copy.deepcopy(a)
    b._static_mods = None
    for mods, targets in rules:
        for t in targets:
            ms = [Mod(v, 1) for v in mods]
            if t == 'N-Term':
                b._nterm_mods = (b._nterm_mods or []) + ms
            elif t == 'C-Term':
                b._cterm_mods = (b._cterm_mods or []) + ms
            else:
                for i, c in enumerate(b._sequence):
                    if c == t:
                        if b._internal_mods is None:
                            b._internal_mods = {}
                        b._internal_mods.setdefault(i, []).extend(copy.deepcopy(ms))
    return b


def counter_text(c):
    return ','.join(f'{annot.esc(k)}*{v}' for k, v in sorted(c.items()))


def sort_counter_reply(r):
    if not r or r.startswith('ERR') or r in ('bad-op', 'unmodelled'):
        return r
    return ','.join(sorted(r.split(','), key=lambda t: annot.unesc(t.rsplit('*', 1)[0])))


class LineCoverage:
    """which lines of the modelled Python functions the correspondence / oracle inputs execute (sys.monitoring, 3.12)"""

    def __init__(self, funcs):
        import sys
        self.mon = getattr(sys, 'monitoring', None)
        self.codes = {}
        for f in funcs:
            f = getattr(f, '__wrapped__', f)
            f = getattr(f, 'fget', f)          # properties
            code = getattr(f, '__code__', None)
            if code is not None:
                self._add(code, f'{code.co_filename.split("/peptacular/")[-1]}:{f.__qualname__}')
        self.seen = set()
        self.active = False

    def _add(self, code, name):
        self.codes[code] = name
        for c in code.co_consts:
            if hasattr(c, 'co_lines'):
                self._add(c, name)

    def start(self):
        if self.mon is None:
            return
        m = self.mon
        try:
            m.use_tool_id(m.COVERAGE_ID, 'verif-c12')
        except ValueError:
            return
        self.active = True

        def cb(code, line):
            self.seen.add((code, line))
            return m.DISABLE

        m.register_callback(m.COVERAGE_ID, m.events.LINE, cb)
        for code in self.codes:
            m.set_local_events(m.COVERAGE_ID, code, m.events.LINE)

    def stop(self):
        if not self.active:
            return
        m = self.mon
        for code in self.codes:
            m.set_local_events(m.COVERAGE_ID, code, 0)
        m.register_callback(m.COVERAGE_ID, m.events.LINE, None)
        m.free_tool_id(m.COVERAGE_ID)
        self.active = False

    def report(self):
        """{function: [uncovered line numbers]} and totals; docstring-only / def lines are not code lines"""
        if self.mon is None:
            return {'available': False}
        per = {}
        tot = hit = 0
        for code, name in self.codes.items():
            lines = {ln for _, _, ln in code.co_lines() if ln is not None and ln != code.co_firstlineno}
            got = {ln for (c, ln) in self.seen if c is code}
            tot += len(lines)
            hit += len(lines & got)
            miss = sorted(lines - got)
            if miss:
                per.setdefault(name, [])
                per[name] = sorted(set(per[name]) | set(miss))
        return {'available': True, 'code_lines': tot, 'executed': hit, 'uncovered': per}


MY_LEAN_FILES = ('StaticMods', 'AbsMass', 'CondenseMass', 'CondenseLabel', 'DecText', 'ConcreteEnv', 'ConcreteBridge',
                 'ConcreteKeys', 'ConcreteLabel', 'C12', 'C18')


def optional_module(chk, mod, why):
    """build + audit a Props module that rests on another package's lemma file. If it does not build and every error sits in
    files of other packages, the module is reported as not built (a note, its theorems are not counted); an error in one of
    this package's files is a broken theorem like any other."""
    import fcntl
    import re
    import subprocess
    from .. import core
    cmd = ['lake', 'build', mod]
    with open(os.path.join(core.LEAN, '.lake', 'verif.lock'), 'w') as lk:
        fcntl.flock(lk, fcntl.LOCK_EX)
        p = subprocess.run(cmd, cwd=core.LEAN, capture_output=True, text=True)
    path = os.path.join(core.LEAN, mod.replace('.', '/') + '.lean')
    if p.returncode == 0:
        chk.checker_cmds.append('cd lean && ' + ' '.join(cmd))
        chk.obligations += core.theorems_in(path)
        chk._audit([mod])
        return True
    out = p.stdout + p.stderr
    files = set(re.findall(r'error: (\S+?\.lean):\d+', out))
    mine = [f for f in files if any(os.path.basename(f).startswith(n) for n in MY_LEAN_FILES)]
    if mine or not files:
        chk.lean_problems.append(f'{mod} does not build: {sorted(files) or out[-400:]}')
        chk.obligations += core.theorems_in(path)
        return False
    chk.notes.append(f'{mod} NOT BUILT in this run ({why}): build errors only in files of other packages {sorted(files)}; '
                     f'its theorems ({", ".join(core.theorems_in(path))}) are not counted')
    return False
