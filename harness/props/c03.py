"""C03 - the mass calculator and the elemental-composition calculator always agree."""
import json
import os

from .. import core, annot, translate_tables, translate_masscore
from . import c02_common as cm
from . import c02 as c02h

PID = 'C03'
DRV = 'drv_c03'

REGISTRY = {
    'id': 'C03',
    'text': 'Mechanical tie for the arithmetic core: harness/translate_masscore.py reads the CURRENT source with ast and emits Generated/MassCorePy.lean (adjust_mass, adjust_mz, _parse_adduct_mass from mass_calc.py; chem_mass (dict argument) with its loop body from chem_util.py; merge_dicts with its two loops from util.py); Props/C02Gen (6 theorems) proves each equal to the hand model (GenMass.adjust_mass = Mass.adjustMass, adjust_mz = Mass.adjustMz, _parse_adduct_mass = Mass.adductMassP, chem_mass_loop1 = Chem.chemStep, chem_mass = Chem.chemMass, merge_dicts = Chem.merge for a first dict with distinct keys), so the theorems below hold for the definitions read off the source; hand-modelled only (tied by correspondence): mass, mz, comp_mass and the label path, _parse_charge_adducts_mass (isinstance dispatch), parse_ion_elements, parse_static_mods, the text branch of chem_mass; a function outside the translator subset is reported as untranslated and falls back to correspondence. '
            'Lean (24 theorems): the two encodings of every +1 ion agree (ion_tables_agree); chem_mass is linear over addition / scaling / '
            'merge_dicts / zero-dropping; averagine estimation is mass-exact over Q (estimate_comp_mass); the central identity '
            'mass() = chem_mass(comp_mass().composition) + delta + loss + k*eps + row gaps EXACTLY over Q - mass_eq_compMass_partial '
            '(no rules), mass_eq_compMass_static / _static_concrete (global rules incl. N-Term, C-Term, multi-residue targets, read by the '
            'modelled parse_static_mods), mass_eq_compMass_adducts (explicit adduct lists: + adductGap = sum q*m_e*(count-1), the known '
            'finding exactly; zero when every ion is stated once) - for every placement and multiplier, 18 ion types, any charge / '
            'isotope / loss, both modes; eps = PROTON_MASS - (m(H) - m_e) (epsilon_bound: 2e-8 mono, 1.2e-4 average); with isotope labels '
            'mass IS the composition path (mass_label_path). Exhaustive clause by kernel evaluation over the regenerated vocabularies '
            'against this work package\'s element table: every Unimod row |mono - chem_mass(comp)| <= 1e-4 (unimod_mono_consistent); '
            'average rows outside 1e-3 + 5 ppm are exactly six metal entries and every C,H,N,O,P,S row is inside '
            '(unimod_avg_excluded, unimod_avg_chnops_consistent); PSI-MOD: exactly 63 of 1541 rows are not self-consistent '
            '(psimod_mono_excluded); row_gap_mono / row_gap_avg turn a checked row into a bound on the gap term of the identity. '
            'Models are tied to /repo by differential correspondence (exact compositions, masses at 1e-7; every line of the modelled '
            'functions executed in the quick tier) and the identity is searched on the implementation at 1e-4 Da / 1e-3 Da + 5 ppm',
    'note': 'trusted: Lean kernel; the Python subset reader harness/translate_masscore.py (its output Generated/MassCorePy.lean is committed and readable next to the source; round(x, p) is read as round-half-even on the exact rational, floats as exact rationals); translators; per-value modification resolution is a parameter of the model (C10); the vocabulary tables '
            'and the formula reader are the C10 / C15 work packages\' generated modules and model. Correspondence + oracle only: '
            'use_isotope_on_mods / isotope substitution inside the identity, adduct lists together with global rules',
    'technique': 'Lean 4 proof about executable model + generated tables checked by kernel evaluation + differential correspondence '
                 '+ direct identity oracle',
}

KINDS = cm.APRIORI + ['tagged', 'named', 'alts', 'alts']


def gen_kw(rng, adduct_p=0.2):
    kw = {'ion_type': rng.choice(cm.ION_TYPES) if rng.random() < 0.7 else 'p'}
    if rng.random() < 0.7:
        kw['charge'] = rng.randint(-3, 4)
    if rng.random() < 0.5:
        kw['isotope'] = rng.randint(0, 3)
    if rng.random() < adduct_p:
        kw['charge_adducts'] = cm.gen_adducts(rng)
    if rng.random() < 0.2:
        from peptacular.proforma.proforma_dataclasses import Mod
        kw['isotope_mods'] = [Mod(x, 1) for x in rng.sample(['13C', '15N', '18O', 'D', 'T'], rng.choice([1, 1, 2]))]
        if rng.random() < 0.3:
            kw['use_isotope_on_mods'] = True
    return kw


def comp_call(fn, a, kw):
    try:
        r = fn(a.copy(), **kw)
    except Exception as e:  # noqa
        return 'ERR:' + type(e).__name__
    return r


def cmp_comp_mass(r, m):
    """implementation (dict, delta) vs model reply 'ok comp|delta'"""
    if isinstance(r, str):
        return r == m
    if not m.startswith('ok '):
        return False
    c, d = m[3:].split('|')
    return cm.comp_close(r[0], cm.parse_model_comp(c)) and abs(float(d) - r[1]) <= 1e-7


def cmp_comp(r, m):
    if isinstance(r, str):
        return r == m
    if not m.startswith('ok '):
        return False
    return cm.comp_close(r, cm.parse_model_comp(m[3:]), rel=1e-7)


def value_gap(v, mono):
    """|tabulated mass - mass of the composition| of one modification value; None = outside the quantifier
    (no composition and not a plain shift, or - in average mode - elements other than C, H, N, O, P, S and isotopes)"""
    from peptacular.mass_calc import mod_mass
    from peptacular.chem.chem_calc import mod_comp, _parse_mod_delta_mass_only
    from peptacular.chem.chem_util import chem_mass
    if isinstance(v, str) and '|' in v:
        # several alternatives: both calculators must speak about the SAME alternative (the first one that means something);
        # the row gap that may be excused is the gap of that alternative alone - a disagreement between different
        # alternatives (mass of one, composition of another) is a violation, not a table inconsistency
        for alt in v.split('|'):
            try:
                mod_mass(alt, mono)
            except Exception:  # noqa
                continue
            g = value_gap(alt, mono)
            if g is None:
                return None
            try:
                m = mod_mass(v, mono)
            except Exception:  # noqa
                return None
            return (g[0], abs(m))
        return None
    try:
        d = _parse_mod_delta_mass_only(v)
        m = mod_mass(v, mono)
        if d is not None:
            return (abs(d - m), abs(m))
        c = mod_comp(v)
        if not mono and any(k not in ('C', 'H', 'N', 'O', 'P', 'S') and not (k[0].isdigit() or k in 'DT') for k in c):
            return None
        return (abs(chem_mass(c, mono) - m), abs(m))
    except Exception:  # noqa
        return None


def instances(a):
    """(value, total multiplicity) of every written modification, global rules counted per matching residue"""
    out = []
    for l in c02h._mod_lists(a):
        for m in l:
            out.append((m.val, abs(m.mult)))
    try:
        sm = cm.static_map(a)
    except Exception:  # noqa
        sm = None
    if sm:
        for t, l in sm.items():
            n = 1 if t in ('N-Term', 'C-Term') else a._sequence.count(t)
            for m in l:
                out.append((m.val, abs(m.mult) * n))
    return out


def domain_tolerance(a, mono):
    """(in_domain, tolerance): tolerance of the property; in the domain when the annotation's own table rows are
    self-consistent well inside that tolerance (the rest is left to the calculators)"""
    gap = 0.0
    size = 0.0
    for v, k in instances(a):
        g = value_gap(v, mono)
        if g is None:
            return False, 0.0
        gap += k * g[0]
        size += k * g[1]
    tol = 1e-4 if mono else 1e-3 + 5e-6 * size
    return gap <= tol / 2, tol


def run(chk):
    import peptacular as pt
    from peptacular.chem import chem_calc
    rng = chk.rng
    tier = chk.tier
    translate_tables.translate(chk)
    # the vocabulary tables of the exhaustive clause (unimod_mono_consistent, ...) are regenerated from the CURRENT loader
    # (translator of the C10 work package, read-only use)
    from .. import translate_vocab as TV
    TV.translate_into(chk)
    # the arithmetic core both calculators share (adjust_mass, chem_mass, merge_dicts, ...) read mechanically from the source
    gen_done, gen_unt = translate_masscore.translate(chk)
    chk.lean_build(['PeptVerif.Props.C03', 'PeptVerif.Props.C02Gen'], DRV)
    chk.trusted += [
        'harness/translate_masscore.py: the reading of the Python subset (None defaults, = += -=, d[k] = v, if/elif/else on == != in-tuple '
        'in-TABLE is-True is-None and Python truthiness, or, + - * /, conditional expressions, TABLE[key] as KeyError, round -> '
        'round-half-even on the exact rational, x[0].isdigit(), d.get(k, 0), for k, v in d.items() with continue, dict comprehension '
        'filter, return, raise) into the combinators of the hand model; translated on this run: %s; hand-modelled only: '
        '_parse_charge_adducts_mass (isinstance dispatch), parse_ion_elements, mass, mz, comp_mass and the label path%s'
        % (', '.join(gen_done) or 'none', ''.join(', ' + k for k in gen_unt)),
    ]
    chk.trusted += [
        'modelled: comp_mass, comp, _pop_delta_mass_mods, _sequence_comp, mod_comp (multiplier), condense_static_mods, '
        'apply_isotope_mods_to_composition, parse_isotope_mods, _parse_charge_adducts_comp, _parse_adduct_comp, estimate_comp, mass',
        'outside the model (parameters): per-value resolution mod_mass / mod_comp / _parse_mod_delta_mass_only (C10), parse_static_mods',
        'the default charge carrier text f"{n}H+" is modelled as the composition {H: n, e: -n}; the parser model returns exactly that for '
        '|n| <= 9 (theorem protons_text_roundtrip) and for the generated charges (correspondence op adduct_comp)',
    ]
    from peptacular import mass_calc as _mc
    from peptacular.proforma import proforma_parser as _pp
    reach = cm.Reach([_mc.comp_mass, _mc.comp, _mc._pop_delta_mass_mods, chem_calc._sequence_comp, chem_calc.mod_comp,
                      chem_calc.estimate_comp, chem_calc.apply_isotope_mods_to_composition, chem_calc._parse_adduct_comp,
                      chem_calc._parse_charge_adducts_comp, _pp.parse_isotope_mods, _pp.ProFormaAnnotation.condense_static_mods])
    reach.start()
    chk.rule = ('annotations with every modification position and kind (numeric, formula, Unimod, PSI-MOD, glycan, "|" alternatives, '
                'localisation tags, Obs:), multipliers 1..3, intervals, labile/unknown, static rules incl. N-Term/C-Term/multi-residue '
                'targets, isotope labels x 18 ion types x charge -3..4 or from the string x isotope 0..3 x both modes x adducts in the '
                'string or as argument; every Unimod / self-consistent PSI-MOD entry (sampled in quick); non-trivial = at least one '
                'modification, label or non-zero charge; distinct = distinct protocol line')

    # ------------------------------------------------------------------ building blocks
    adds = ['+H+', '+Na+', '+2Na+', '2H+', '-2H+', '0H+', '+e-', '-e-', '+3H+,+e-', '+3H+,+2e-', '-H+,-2e-', '+Mg2+', '+2Mg+2', '-Cl-',
            '+Na+,+H+', '-1H+,+2H+,+e-', 'Xx+', '+']
    adds += [cm.gen_adducts(rng) for _ in range(200 if tier == 'quick' else 5000)]
    adds += [f'{n}H+' for n in range(-12, 13)]

    def ac_impl(s):
        try:
            return 'ok ' + json.dumps(chem_calc._parse_charge_adducts_comp(s))
        except Exception as e:  # noqa
            return 'ERR:' + type(e).__name__

    def ac_cmp(im, m):
        if not im.startswith('ok '):
            return im == m
        return m.startswith('ok ') and cm.comp_close(json.loads(im[3:]), cm.parse_model_comp(m[3:]))

    chk.correspond('adduct_comp', DRV, adds, lambda s: 'adduct_comp\t' + annot.esc(s), ac_impl, compare=ac_cmp,
                   nontrivial_fn=lambda c, im: im.startswith('ok'))

    est = [(rng.choice([1000, 1.0, -18.5, 0.001, round(rng.uniform(-500, 5000), 4)]),
            rng.choice([None, None, ['13C'], ['15N', 'D'], ['T', '13C'], ['18O'], ['H']])) for _ in range(100 if tier == 'quick' else 3000)]

    def est_impl(c):
        try:
            return 'ok ' + json.dumps(chem_calc.estimate_comp(c[0], c[1]))
        except Exception as e:  # noqa
            return 'ERR:' + type(e).__name__

    chk.correspond('estimate_comp', DRV, est,
                   lambda c: f'estimate_comp\t{cm.fnum(c[0])}\t' + ('N' if c[1] is None else 'L' + ';'.join(annot.show_val(x) + '^1' for x in c[1])),
                   est_impl, compare=lambda im, m: ac_cmp(im, m) if im.startswith('ok') else im == m)

    iso_cases = []
    for _ in range(200 if tier == 'quick' else 5000):
        d = {}
        for el in rng.sample(['C', 'H', 'N', 'O', 'S', '13C', 'D', '15N', 'e', 'n', 'T', '2H'], rng.randint(0, 6)):
            d[el] = rng.choice([1, 2, 10, -1, 2.5, 0])
        iso_cases.append((d, rng.sample(cm.ISOTOPES + ['H', 'C', '12C'], rng.randint(0, 3))))

    def iso_impl(c):
        try:
            return 'ok ' + json.dumps(chem_calc.apply_isotope_mods_to_composition(dict(c[0]), list(c[1])))
        except Exception as e:  # noqa
            return 'ERR:' + type(e).__name__

    chk.correspond('apply_isotope', DRV, iso_cases,
                   lambda c: f'apply_isotope\t{cm.show_comp(c[0])}\tL' + ';'.join(annot.show_val(x) + '^1' for x in c[1]),
                   iso_impl, compare=lambda im, m: ac_cmp(im, m) if im.startswith('ok') else im == m)

    # ------------------------------------------------------------------ comp_mass / comp / mass correspondence
    corpus = [c02h.case_of(o) for o in c02h.load_corpus(PID)]
    cases = [(a, {k: v for k, v in kw.items() if k not in ('monoisotopic', 'loss', 'precision')}) for a, kw in corpus]
    n_rand = 1200 if tier == 'quick' else 30000
    for _ in range(n_rand):
        r = rng.random()
        kinds = KINDS if r < 0.9 else KINDS + ['odd']
        a = cm.gen_annotation(rng, residues=cm.RES24 if r < 0.95 else cm.RES24 + rng.choice(['BZ', 'b1', 'Z']), kinds=kinds, isotope_p=0.3, charge_p=0.35)
        cases.append((a, gen_kw(rng)))
    from peptacular.proforma.proforma_parser import ProFormaAnnotation
    from peptacular.proforma.proforma_dataclasses import Mod
    uni = cm.unimod_entries()
    psi = cm.psimod_entries()
    if tier == 'quick':
        uni = rng.sample(uni, 120)
        psi = rng.sample(psi, 120)
    db_cases = []
    for e, pre in [(e, 'UNIMOD') for e in uni] + [(e, 'MOD') for e in psi]:
        val = f'{pre}:{e.id}'
        a = ProFormaAnnotation(_sequence='PEPTIDE', _internal_mods={rng.randint(0, 6): [Mod(val, rng.choice([1, 1, 2, 3]))]})
        if rng.random() < 0.3:
            a._nterm_mods = [Mod(val, 1)]
        db_cases.append((a, {'ion_type': rng.choice(['p', 'p', 'b', 'y', 'cz'])}))
    cases += db_cases

    for op, fn, cmpf in (('comp_mass', pt.comp_mass, cmp_comp_mass),):
        lines = [cm.line(op, a, kw) for a, kw in cases]
        outs = chk.driver(DRV, lines)
        st = chk.corr.setdefault(op, {'evaluations': 0, 'disagreements': 0, 'samples': []})
        for (a, kw), l, m in zip(cases, lines, outs):
            r = comp_call(fn, a, kw)
            st['evaluations'] += 1
            chk.evaluations += 1
            chk.count('ion=' + kw.get('ion_type', 'p'))
            chk.count('result=' + (r if isinstance(r, str) else 'ok'))
            if not isinstance(r, str) and (cm.has_mods(a) or a._isotope_mods or kw.get('charge')):
                chk.nontrivial.add(op + '|' + l)
                if len(st['samples']) < 2:
                    st['samples'].append({'line': l[:400], 'impl': repr(r), 'model': m})
            if not cmpf(r, m):
                st['disagreements'] += 1
                if len([d for d in chk.disagreements if d['op'] == op]) < 5:
                    chk.disagreements.append({'op': op, 'line': l, 'impl': repr(r), 'model': m, 'case': c02h.obj_of(a, kw)})

    pc = [c for c in cases if c[0]._static_mods is not None][:400 if tier == 'quick' else 8000]
    outs = chk.driver(DRV, [cm.line('comp_mass', a, kw, concrete_rules=True) for a, kw in pc])
    st = chk.corr.setdefault('comp_mass_concrete_rule_parser', {'evaluations': 0, 'disagreements': 0, 'samples': [], 'unmodelled': 0})
    for (a, kw), m in zip(pc, outs):
        if m == 'ERR:unmodelled':
            st['unmodelled'] += 1
            continue
        r = comp_call(pt.comp_mass, a, kw)
        st['evaluations'] += 1
        chk.evaluations += 1
        if not cmp_comp_mass(r, m):
            st['disagreements'] += 1
            if len([d for d in chk.disagreements if d['op'] == 'comp_mass_concrete_rule_parser']) < 5:
                chk.disagreements.append({'op': 'comp_mass_concrete_rule_parser', 'line': annot.dump(a), 'impl': repr(r), 'model': m,
                                          'case': c02h.obj_of(a, kw)})

    # _sequence_comp called directly (its own global-rule block is dead code behind comp_mass, which condenses first),
    # also on text input; condense_static_mods(inplace=False); comp_mass / comp on text input
    scs = [c for c in cases if c[0]._static_mods is not None][:250] + cases[:250]
    outs = chk.driver(DRV, [cm.line('sequence_comp', a, {k: v for k, v in kw.items() if k in ('ion_type', 'isotope', 'use_isotope_on_mods')})
                            for a, kw in scs])
    st = chk.corr.setdefault('sequence_comp', {'evaluations': 0, 'disagreements': 0, 'samples': []})
    for i, ((a, kw), m) in enumerate(zip(scs, outs)):
        arg = a.copy()
        if i % 7 == 0:
            try:
                txt = a.serialize()
                if type(pt.parse(txt)).__name__ == 'ProFormaAnnotation' and annot.dump(pt.parse(txt)) == annot.dump(a):
                    arg = txt
            except Exception:  # noqa
                pass
        try:
            r = chem_calc._sequence_comp(arg, kw.get('ion_type', 'p'), kw.get('isotope', 0), kw.get('use_isotope_on_mods', False))
        except Exception as e:  # noqa
            r = 'ERR:' + type(e).__name__
        st['evaluations'] += 1
        chk.evaluations += 1
        if not cmp_comp(r, m):
            st['disagreements'] += 1
            if len([d for d in chk.disagreements if d['op'] == 'sequence_comp']) < 5:
                chk.disagreements.append({'op': 'sequence_comp', 'line': annot.dump(a), 'impl': repr(r), 'model': m, 'case': c02h.obj_of(a, kw)})
    cds = [c[0] for c in cases if c[0]._static_mods is not None][:200] + [c[0] for c in cases if c[0]._static_mods is None][:20]
    outs = chk.driver(DRV, ['condense\t' + annot.dump(a) + '\t' + '\t'.join(cm.env_strings(a)) for a in cds])
    st = chk.corr.setdefault('condense_static_mods', {'evaluations': 0, 'disagreements': 0, 'samples': []})
    for a, m in zip(cds, outs):
        try:
            im = 'ok ' + annot.dump(a.copy().condense_static_mods(inplace=False))
        except Exception as e:  # noqa
            im = 'ERR:' + type(e).__name__
        st['evaluations'] += 1
        chk.evaluations += 1
        mm = 'ok ' + annot.canon_dump(m[3:]) if m.startswith('ok ') else m
        if im != mm:
            st['disagreements'] += 1
            if len([d for d in chk.disagreements if d['op'] == 'condense_static_mods']) < 5:
                chk.disagreements.append({'op': 'condense_static_mods', 'line': annot.dump(a), 'impl': im, 'model': mm})
    tcs = []
    for a, kw in cases[:: max(1, len(cases) // 150)]:
        try:
            txt = a.serialize()
            a2 = pt.parse(txt)
        except Exception:  # noqa
            continue
        if type(a2).__name__ == 'ProFormaAnnotation':
            tcs.append((txt, a2, kw))
    outs = chk.driver(DRV, [cm.line('comp_mass', a2, kw) for _, a2, kw in tcs])
    st = chk.corr.setdefault('comp_mass_from_string', {'evaluations': 0, 'disagreements': 0, 'samples': []})
    for (txt, a2, kw), m in zip(tcs, outs):
        try:
            r = pt.comp_mass(txt, **kw)
        except Exception as e:  # noqa
            r = 'ERR:' + type(e).__name__
        try:
            pt.comp(txt, estimate_delta=True, **kw)
        except Exception:  # noqa
            pass
        st['evaluations'] += 1
        chk.evaluations += 1
        if not cmp_comp_mass(r, m):
            st['disagreements'] += 1
            chk.disagreements.append({'op': 'comp_mass_from_string', 'line': txt, 'impl': repr(r), 'model': m})
    # non-string adduct / isotope values, formula-text composition, no labels
    misc = [('adduct_comp_v', 5), ('adduct_comp_v', 2.5), ('adduct_comp_v', '+Na+')]

    def misc_impl(c):
        try:
            return 'ok ' + json.dumps(chem_calc._parse_charge_adducts_comp(c[1]))
        except Exception as e:  # noqa
            return 'ERR:' + type(e).__name__

    chk.correspond('adduct_comp_value', DRV, misc, lambda c: f'adduct_comp_v\t{annot.show_val(c[1])}', misc_impl, compare=ac_cmp)
    iso2 = [({'C': 6, 'H': 12}, None), ({'C': 2}, [13]), ({'C': 2}, ['13X']), ({'C': 2, 'N': 1}, ['15N', 'Qq']), ({'C': 2, 'D': 1}, ['D', 2.5]), ('C6H12O6', ['13C']), ('C2[13C2]H', ['13C', 'D'])]

    def iso2_impl(c):
        try:
            return 'ok ' + json.dumps(chem_calc.apply_isotope_mods_to_composition(c[0] if isinstance(c[0], str) else dict(c[0]),
                                                                                  None if c[1] is None else list(c[1])))
        except Exception as e:  # noqa
            return 'ERR:' + type(e).__name__

    def iso2_line(c):
        comp = c[0] if isinstance(c[0], dict) else chem_calc.parse_chem_formula(c[0])
        return f'apply_isotope\t{cm.show_comp(comp)}\t' + ('N' if c[1] is None else 'L' + ';'.join(annot.show_val(x) + '^1' for x in c[1]))

    chk.correspond('apply_isotope_edge', DRV, iso2, iso2_line, iso2_impl,
                   compare=lambda im, m: ac_cmp(im, m) if im.startswith('ok') else im == m)

    sel = cases[::2]
    lines = [cm.line('comp', a, kw, prefix=(str(int(i % 3 != 0)),)) for i, (a, kw) in enumerate(sel)]
    outs = chk.driver(DRV, lines)
    st = chk.corr.setdefault('comp', {'evaluations': 0, 'disagreements': 0, 'samples': []})
    for i, ((a, kw), l, m) in enumerate(zip(sel, lines, outs)):
        k2 = dict(kw)
        k2['estimate_delta'] = i % 3 != 0
        r = comp_call(pt.comp, a, k2)
        st['evaluations'] += 1
        chk.evaluations += 1
        if not isinstance(r, str):
            chk.nontrivial.add('comp|' + l)
            if len(st['samples']) < 2:
                st['samples'].append({'line': l[:400], 'impl': repr(r), 'model': m})
        if not cmp_comp(r, m):
            st['disagreements'] += 1
            if len([d for d in chk.disagreements if d['op'] == 'comp']) < 5:
                chk.disagreements.append({'op': 'comp', 'line': l, 'impl': repr(r), 'model': m, 'case': c02h.obj_of(a, k2)})

    msel = cases[1::2]
    mk = []
    for a, kw in msel:
        k2 = dict(kw)
        k2['monoisotopic'] = rng.random() < 0.5
        mk.append((a, k2))
    lines = [cm.line('mass', a, kw) for a, kw in mk]
    outs = chk.driver(DRV, lines)
    st = chk.corr.setdefault('mass', {'evaluations': 0, 'disagreements': 0, 'samples': []})
    for (a, kw), l, m in zip(mk, lines, outs):
        im = cm.call(pt.mass, a, kw)
        st['evaluations'] += 1
        chk.evaluations += 1
        if im.startswith('ok'):
            chk.nontrivial.add('mass|' + l)
        if not cm.cmp_float(im, m, 1e-7):
            st['disagreements'] += 1
            if len([d for d in chk.disagreements if d['op'] == 'mass']) < 5:
                chk.disagreements.append({'op': 'mass', 'line': l, 'impl': im, 'model': m, 'case': c02h.obj_of(a, kw)})

    # ------------------------------------------------------------------ oracle: mass == chem_mass(comp) + delta on the implementation
    from peptacular.chem.chem_util import chem_mass

    def identity(c):
        a, kw = c
        mono = kw.get('monoisotopic', True)
        ok, tol = domain_tolerance(a, mono)
        if not ok:
            return None          # outside the quantifier
        k2 = {k: v for k, v in kw.items() if k != 'monoisotopic'}
        try:
            comp, delta = pt.comp_mass(a.copy(), **k2)
        except Exception as e:  # noqa
            # the composition calculator refuses: the mass calculator must refuse as well
            try:
                pt.mass(a.copy(), **kw)
            except Exception:  # noqa
                return None
            return f'comp_mass raised {type(e).__name__} but mass() returned a value'
        m = pt.mass(a.copy(), **kw)
        via = chem_mass(comp, monoisotopic=mono) + delta
        if abs(m - via) > tol:
            return f'mass = {m!r}, chem_mass(composition) + delta = {via!r} (diff {m - via:.6g} > {tol:g}); composition {comp}, delta {delta}'
        if mono and 'use_isotope_on_mods' not in k2:
            full = pt.comp(a.copy(), estimate_delta=True, **k2)
            m2 = chem_mass(full, monoisotopic=True)
            if not (a._isotope_mods or kw.get('isotope_mods')) and abs(m2 - m) > 1e-4:
                return f'comp(estimate_delta=True) has monoisotopic mass {m2!r}, mass() = {m!r}'
        return None

    # call sequences: before the identity is searched, every modification value of the pools goes through the other public
    # functions that accept it, and every returned dict is spoiled (no state may leak into later mass / comp_mass calls)
    from peptacular import mass_calc as _mcs
    from peptacular.chem import chem_util as _cu
    for v in cm.FORMULAS + cm.GLYCANS + cm.NAMED + cm.TAGGED:
        for f in (lambda: _mcs.mod_mass(v, True), lambda: _mcs.mod_mass(v, False), lambda: chem_calc.mod_comp(v),
                  lambda: _cu.parse_chem_formula(v.split(':', 1)[1]) if v.lower().startswith('formula:') else None,
                  lambda: chem_calc.apply_isotope_mods_to_composition(v.split(':', 1)[1], ['13C', 'D']) if v.lower().startswith('formula:') else None,
                  lambda: pt.comp_mass('PEPTIDE[%s]' % v), lambda: pt.comp('PEPTIDE[%s]' % v, estimate_delta=True)):
            try:
                r = f()
                for d in (r if isinstance(r, tuple) else (r,)):
                    if isinstance(d, dict):
                        for k in list(d):
                            d[k] = 999
                        d['Xx'] = 1
            except Exception:  # noqa
                pass
    budget = (1500 if tier == 'quick' else 40000) * (3 if chk.broken() else 1)
    ocases = [(a, dict(kw)) for a, kw in corpus]
    for a, kw in db_cases:
        for mono in (True, False):
            ocases.append((a, {**kw, 'monoisotopic': mono}))
    # global rules carrying plain numeric shifts (and mixed numeric + named) whose target occurs >= 2 times on otherwise
    # unmodified residues, with and without terminal targets, precursor and fragment ion types, both modes
    for _ in range(150 if tier == 'quick' else 4000):
        t = rng.choice(cm.RES22)
        n = rng.randint(3, 10)
        seq = [rng.choice(cm.RES22) for _ in range(n)]
        for pos in rng.sample(range(n), rng.randint(2, min(4, n))):
            seq[pos] = t
        body = rng.choice(['[+10]', '[10]', '[+1.5]^2', '[-17.5]', '[+10][Acetyl]', '[Oxidation][+3]', '[Formula:CH2][+2.25]',
                           '[+10][+0.5]', '[Phospho]', '[+7]^3[Methyl]^2'])
        tg = t + rng.choice(['', '', ',N-Term', ',C-Term', ',' + rng.choice(cm.RES22)])
        rules = [Mod(f'{body}@{tg}', 1)]
        if rng.random() < 0.3:
            rules.append(Mod(rng.choice(['[+1]@N-Term', '[Acetyl]@N-Term', '[+2]@C-Term', '[Methyl][+4]@C-Term']), 1))
        a = ProFormaAnnotation(_sequence=''.join(seq), _static_mods=rules)
        kw = {'ion_type': rng.choice(['p', 'p', 'n', 'b', 'y', 'a', 'by', 'cz', 'i']), 'monoisotopic': rng.random() < 0.5}
        if rng.random() < 0.6:
            kw['charge'] = rng.randint(-2, 3)
        ocases.append((a, kw))
    for v in cm.ALTS:
        for pos in ('n', 'c', 'i', 'u', 'l', 'v', 's', 'sn'):
            seq = rng.choice(['PEPTIDE', 'ACDTTK', 'MTW'])
            a = ProFormaAnnotation(_sequence=seq)
            m = [Mod(v, rng.choice([1, 1, 2]))]
            if pos == 'n':
                a._nterm_mods = m
            elif pos == 'c':
                a._cterm_mods = m
            elif pos == 'i':
                a._internal_mods = {rng.randint(0, len(seq) - 1): m}
            elif pos == 'u':
                a._unknown_mods = m
            elif pos == 'l':
                a._labile_mods = m
            elif pos == 'v':
                from peptacular.proforma.proforma_dataclasses import Interval
                a._intervals = [Interval(0, 2, False, m)]
            elif pos == 's':
                a._static_mods = [Mod(f'[{v}]@T', 1)]
            else:
                a._static_mods = [Mod(f'[{v}]@N-Term,{seq[-1]}', 1)]
            ocases.append((a, {'ion_type': rng.choice(['p', 'p', 'b', 'y', 'cz']), 'monoisotopic': rng.random() < 0.5,
                               **({'charge': rng.randint(0, 3)} if rng.random() < 0.6 else {})}))
    while len(ocases) < budget:
        a = cm.gen_annotation(rng, kinds=KINDS, isotope_p=0.15, charge_p=0.35)
        kw = gen_kw(rng)
        kw['monoisotopic'] = rng.random() < 0.5
        ocases.append((a, kw))
    chk.oracle('mass_eq_chem_mass_of_comp_plus_delta', ocases, identity,
               nontrivial_fn=lambda c: cm.has_mods(c[0]) or bool(c[1].get('charge')), key_fn=lambda c: json.dumps(c02h.obj_of(*c), sort_keys=True),
               max_report=10 ** 6)
    c02h._attach_cases(chk, 'mass_eq_chem_mass_of_comp_plus_delta', ocases, identity, classify)

    # ------------------------------------------------------------------ call sequences: the SAME adduct string in both mass modes, in both
    # orders, each order in its own fresh interpreter (whatever is evaluated first must not fix the answer for the other mode): every ion
    # of the quantifier's list with count 1, written in the string and passed as argument; mass vs chem_mass(composition) + delta each time
    seq_items = []
    for sym, q in cm.ADDUCT_IONS:
        z = {'+': 1, '2+': 2, '-': -1}[q]
        for ion in [f'+{sym}{q}', f'{sym}{q}'] + ([f'+{sym}+2'] if q == '2+' else []):
            seq_items.append((ion, 'string', f'PEPTIDE/{z}[{ion}]', {}))
            seq_items.append((ion, 'argument', 'PEPTIDE', {'charge': z, 'charge_adducts': ion}))
    seq_cases = []
    for order in ([True, False], [False, True]):
        rows = _adduct_sequence(core.REPO, order, [(t, kw) for _, _, t, kw in seq_items])
        for (ion, form, t, kw), row in zip(seq_items, rows):
            seq_cases.append({'adduct': ion, 'written_as': form, 'proforma': t, 'kw': kw,
                              'order_of_monoisotopic': order, 'results': row})

    def o_seq(c):
        for mono, m, via in c['results']:
            if isinstance(m, str):
                return f'{c["proforma"]} {c["kw"]} monoisotopic={mono}: {m}'
            if abs(m - via) > (1e-4 if mono else 1e-3):
                return (f'fresh interpreter, calls in the order monoisotopic={c["order_of_monoisotopic"]}: at monoisotopic={mono} '
                        f'mass({c["proforma"]!r}, {c["kw"]}) = {m!r} but chem_mass(composition) + delta = {via!r}')
        return None

    chk.oracle('adduct_both_modes_both_orders', seq_cases, o_seq, nontrivial_fn=lambda c: True,
               key_fn=lambda c: json.dumps([c['proforma'], c['kw'], c['order_of_monoisotopic']]), max_report=2, recheck=False)
    # these witnesses replay in a fresh interpreter (the single-call witnesses of a history dependence do not): report them first
    chk.failures.sort(key=lambda f: f['oracle'] != 'adduct_both_modes_both_orders')
    for f in chk.failures:
        if f['oracle'] == 'adduct_both_modes_both_orders':
            f['function'] = 'peptacular.mass / peptacular.comp_mass'
            f['rerun'] = './check C03 --replay <this file>'

    # ------------------------------------------------------------------ every Unimod row, by id and by name (exhaustive; witness
    # producer for unimod_mono_consistent / unimod_avg_*): tabulated mass vs mass of the tabulated composition, and mass() vs
    # comp_mass() of a peptide carrying it.  PSI-MOD: the rows outside psimodMonoExcluded (sampled in quick).
    from peptacular.mass_calc import mod_mass as _mm2
    AVG_EXCLUDED = {'291', '391', '415', '424', '444', '954'}

    def o_row(c):
        pre, e, by = c
        v = f'{pre}:{e.id}' if by == 'id' else (f'U:{e.name}' if pre == 'UNIMOD' else f'M:{e.name}')
        out = []
        for mono in (True, False):
            try:
                m = _mm2(v, mono)
                comp = chem_calc.mod_comp(v)
                x = chem_mass(comp, monoisotopic=mono)
            except Exception as ex:  # noqa
                return f'{v}: {type(ex).__name__}: {ex}'
            chn = all(k in ('C', 'H', 'N', 'O', 'P', 'S') or k[0].isdigit() or k in 'DT' for k in comp)
            tol = 1e-4 if mono else 1e-3 + 5e-6 * abs(m)
            if not mono and (not chn or e.id in AVG_EXCLUDED):
                continue
            if abs(m - x) > tol:
                out.append(f'{v} ({"mono" if mono else "avg"}): tabulated mass {m!r}, mass of its composition {comp} = {x!r}')
                continue
            s2 = 'PEPTIDE[%s]' % v
            mm = pt.mass(s2, monoisotopic=mono)
            cc, dd = pt.comp_mass(s2)
            if abs(mm - (chem_mass(cc, monoisotopic=mono) + dd)) > tol:
                out.append(f'{s2} ({"mono" if mono else "avg"}): mass {mm!r} vs chem_mass(comp)+delta {chem_mass(cc, monoisotopic=mono) + dd!r}')
        return '; '.join(out) if out else None

    import re as _re
    uall = cm.unimod_entries()
    rows = [('UNIMOD', e, 'id') for e in uall]
    rows += [('UNIMOD', e, 'name') for e in uall if _re.fullmatch(r'[A-Za-z][A-Za-z0-9_\-+()>. ]*', e.name)]
    excl = set(json.loads(open(os.path.join(core.VERIF, 'corpus', 'C03', 'psimod_mono_excluded.json')).read())) \
        if os.path.exists(os.path.join(core.VERIF, 'corpus', 'C03', 'psimod_mono_excluded.json')) else set()
    pall = [e for e in cm.psimod_entries() if e.mono_mass is not None and e.composition and e.id not in excl]
    chk.oracle('unimod_rows_exhaustive', rows, o_row, key_fn=lambda c: f'{c[0]}:{c[1].id}:{c[2]}', max_report=8)
    for f in chk.failures:
        if f['oracle'] == 'unimod_rows_exhaustive' and not isinstance(f['case'], dict):
            f['case'] = {'value': f['case'][:200]}
            f['function'] = 'peptacular.mod_mass / mod_comp / mass / comp_mass'

    # the +1 ion tables, entry by entry (witness producer for ion_tables_agree)
    from peptacular import constants

    def o_ion(t):
        if t == 'n':
            return None
        a = chem_calc._parse_charge_adducts_comp(constants.FRAGMENT_ION_BASE_CHARGE_ADDUCTS[t])
        b = constants.FRAGMENT_ION_COMPOSITIONS[t]
        a = {k: v for k, v in a.items() if v != 0}
        b = {k: v for k, v in b.items() if v != 0}
        if a != b:
            return f'FRAGMENT_ION_BASE_CHARGE_ADDUCTS[{t!r}] parses to {a}, FRAGMENT_ION_COMPOSITIONS[{t!r}] = {b}'
        return None

    chk.oracle('ion_encodings_agree', cm.ION_TYPES, o_ion)
    cm.attach_reach(chk, reach)
    if tier == 'thorough':
        chk.leanchecker(['PeptVerif.Props.C03', 'PeptVerif.Model.CompCalc'])
    return chk.finish(classify)


def _mm(v, mono):
    from peptacular.mass_calc import mod_mass
    try:
        return float(mod_mass(v, mono))
    except Exception:  # noqa
        return 0.0


def classify(f):
    case = f.get('case')
    if not isinstance(case, dict) or 'annotation' not in case:
        return None
    if f['oracle'] == 'mass_eq_chem_mass_of_comp_plus_delta':
        a, kw = c02h.case_of(case)
        ad = kw.get('charge_adducts')
        if ad is None and a._charge_adducts:
            ad = ','.join(str(m.val) for m in a._charge_adducts)
        if isinstance(ad, str) and c02h._adduct_count_matters(ad):
            import re
            from peptacular.constants import ELECTRON_MASS
            from peptacular.proforma.proforma_parser import parse_ion_elements
            m = re.match(r'mass = (\S+), chem_mass\(composition\) \+ delta = (\S+) ', f.get('detail', ''))
            if not m:
                return None
            diff = float(m.group(1)) - float(m.group(2))
            pred = 0.0
            for x in ad.split(','):
                cnt, sym, q = parse_ion_elements(x)
                if sym != 'e':
                    pred += q * ELECTRON_MASS * (cnt - 1)
            if abs(diff - pred) <= (1e-4 if kw.get('monoisotopic', True) else 2e-3):
                return 'KF-C03-adduct-electron-count'
    return None


_SEQ_SNIPPET = """
import sys, json
import peptacular as pt
from peptacular.chem.chem_util import chem_mass
order, items = json.loads(sys.argv[1]), json.loads(sys.argv[2])
out = []
for text, kw in items:
    row = []
    for mono in order:
        try:
            m = pt.mass(text, monoisotopic=mono, **kw)
            comp, delta = pt.comp_mass(text, **kw)
            row.append([mono, m, chem_mass(comp, monoisotopic=mono) + delta])
        except Exception as e:
            row.append([mono, 'raised ' + type(e).__name__ + ': ' + str(e)[:80], None])
    out.append(row)
print(json.dumps(out))
"""


def _adduct_sequence(repo, order, items):
    """for every (text, kwargs): mass and chem_mass(comp_mass) in each mode of `order`, all in ONE fresh interpreter"""
    import subprocess
    env = {k: v for k, v in os.environ.items() if k != 'PYTHONPATH'}
    env['PYTHONPATH'] = os.path.join(repo, 'src')
    env['PYTHONDONTWRITEBYTECODE'] = '1'
    p = subprocess.run(['/venv/bin/python', '-W', 'ignore', '-c', _SEQ_SNIPPET, json.dumps(order), json.dumps(items)], cwd='/tmp',
                       env=env, capture_output=True, text=True)
    if p.returncode != 0:
        raise core.InfraError('call-sequence stage: the tree under test cannot be run: ' + p.stderr[-800:])
    return json.loads(p.stdout.strip().split('\n')[-1])


def replay(chk, obj):
    if obj.get('oracle') == 'adduct_both_modes_both_orders' and isinstance(obj.get('case'), dict):
        c = obj['case']
        print('input    :', c['proforma'], c['kw'], 'order of monoisotopic:', c['order_of_monoisotopic'])
        for mono, m, via in _adduct_sequence(core.REPO, c['order_of_monoisotopic'], [(c['proforma'], c['kw'])])[0]:
            print(f'monoisotopic={mono}: mass = {m!r}, chem_mass(composition) + delta = {via!r}')
        print('violated :', obj.get('detail'))
        return 0
    import peptacular as pt
    case = obj.get('case')
    if not isinstance(case, dict) or 'annotation' not in case:
        print(json.dumps(obj, indent=1))
        return 0
    a, kw = c02h.case_of(case)
    print('input    :', case.get('proforma'), kw)
    k2 = {k: v for k, v in kw.items() if k != 'monoisotopic'}
    for name, f in (('mass', lambda: pt.mass(a.copy(), **kw)), ('comp_mass', lambda: pt.comp_mass(a.copy(), **k2))):
        try:
            print(f'{name:9s}:', repr(f()))
        except Exception as e:  # noqa
            print(name, 'raised', type(e).__name__, e)
    print('violated :', obj.get('detail'))
    return 0
