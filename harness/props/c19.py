"""C19 - combinatorial expansions are exactly the combinatorics of the modified residues."""
import itertools
import math

from .. import core
from .. import annot
from .c19_reach import Reach

PID = 'C19'
DRV = 'drv_c19'

REGISTRY = {
    'id': 'C19',
    'text': 'Lean theorems about the model of permutations/product/combinations/combinations_with_replacement: the four counting '
            'formulas, empty result for size > n in the non-repeating forms, equality of the four enumerations with the '
            'itertools-documentation definitions (filtered lexicographic index tuples: content and order), the elementwise '
            'specification (selected residues with their own mods, wrapped in the unchanged globals), and - on top of the C01 '
            'parser/serializer models and round-trip theorem - that for canonical inputs every result is canonical and parses back '
            'to itself, that the string the Python builds (serialize_start + piece texts + serialize_end) is the serialization of '
            'the assembled result and re-parses to it, and that the literal text-level model of the annotation methods and of the '
            'string functions of sequence/combinatoric.py returns exactly these results; outside canon: the same with '
            'canon(dropEmpty a) (empty-but-present labile/static/isotope/C-term/adduct lists), every result in normal form for '
            'every input, kernel-checked counter-examples (empty N-term/unknown list: no result parses; multiplier < 1 comes '
            'back as 1) replayed on the implementation; the models are tied to /repo by list-exact '
            'correspondence on generated annotations (dict order shuffled, API histories) x every size and by text-exact '
            'correspondence of the string functions; the oracle evaluates the property on the implementation',
    'note': 'trusted: Lean kernel, axioms propext/Classical.choice/Quot.sound, the correspondence harness; the parser/serializer '
            'models and canon are those of C01 (imported); sizes >= 1 in the parse theorems (size 0 gives an empty sequence)',
    'technique': 'Lean 4 proof about executable model + differential correspondence',
}

OPS = ('perm', 'prod', 'comb', 'cwr')


def _pt():
    import peptacular as pt
    from peptacular.proforma import proforma_parser as pp
    return pt, pp


def impl_fn(op):
    return {'perm': 'permutations', 'prod': 'product', 'comb': 'combinations', 'cwr': 'combinations_with_replacement'}[op]


def expected_count(op, n, k):
    if op == 'perm':
        return math.perm(n, k) if k <= n else 0
    if op == 'prod':
        return n ** k
    if op == 'comb':
        return math.comb(n, k)
    return math.comb(n + k - 1, k) if (n + k) > 0 else 1


def it_fn(op):
    return {'perm': lambda c, k: itertools.permutations(c, k), 'prod': lambda c, k: itertools.product(c, repeat=k),
            'comb': lambda c, k: itertools.combinations(c, k),
            'cwr': lambda c, k: itertools.combinations_with_replacement(c, k)}[op]


def gen_case(rng, max_len, intervals=False, p=None):
    """annotation of length 1..max_len with every modification kind (intervals only when asked)"""
    pool = annot.NAMED + annot.FORMULAS + annot.GLYCANS + ['Obs:+17.05', 'INFO:note', 'Oxidation|INFO:ok'] + annot.NUMS + annot.NUMS + \
        [1.0, 2, 2.0, 100.0]
    a = annot.gen_annotation(rng, 1, max_len, p=p if p is not None else rng.choice([0.2, 0.5, 0.8]), intervals=intervals,
                             value_pool=pool, max_mods=rng.choice([1, 2, 3]), mult_p=0.3)
    if rng.random() < 0.3:
        # repeated residues carrying different modifications
        a._sequence = ''.join(rng.choice(a._sequence[:2]) for _ in a._sequence)
    if rng.random() < 0.08:
        a._charge = 0          # written as /0 since fix 0046c62
    return with_history(a, rng)


def with_history(a, rng):
    """the same kind of annotation after a history of ordinary API calls: the insertion order of the internal-mod dict is
    then no longer the position order (reverse() and shift() fill the new dict while walking the old one, add_internal_mod
    appends), which no observable behaviour may depend on"""
    r = rng.random()
    n = len(a)
    if r < 0.2:
        a = a.reverse()
    elif r < 0.35 and n > 0:
        a = a.shift(rng.randint(0, n + 1))
    elif r < 0.45 and n > 0:
        a = a.reverse().shift(rng.randint(1, n))
    elif r < 0.6 and a._internal_mods:
        # rebuilt through the API back to front / in random order
        items = list(a._internal_mods.items())
        if rng.random() < 0.5:
            items.reverse()
        else:
            rng.shuffle(items)
        a._internal_mods = None
        for k, v in items:
            a.add_internal_mod(k, v, append=rng.random() < 0.5)
    elif r < 0.7 and a._internal_mods:
        items = list(a._internal_mods.items())
        rng.shuffle(items)
        a._internal_mods = dict(items)
    if a._internal_mods and list(a._internal_mods) != sorted(a._internal_mods):
        a._unsorted = True
    return a


def sizes_for(n):
    return [None] + list(range(1, n + 1)) + [n + 1, n + 3]


def load_corpus():
    import json
    import os
    out = []
    d = os.path.join(core.VERIF, 'corpus', PID)
    if os.path.isdir(d):
        for fn in sorted(os.listdir(d)):
            if fn.endswith('.jsonl'):
                for ln in open(os.path.join(d, fn)):
                    if ln.strip():
                        out.append(json.loads(ln))
    return out


def replay(chk, obj):
    """re-run the failing case of a replay file on the current implementation"""
    import json
    pt, pp = _pt()
    print(json.dumps(obj, indent=1)[:3000])
    case = obj.get('case')
    if isinstance(case, list) and len(case) == 3:
        op, d, k = case
        a = annot.undump(d)
        n = len(a)
        res = getattr(a.copy(), impl_fn(op))(k)
        kk = n if k is None else k
        print(f'{impl_fn(op)}({a.serialize()!r}, {k}) ->', [r.serialize() for r in res][:20], f'({len(res)} results)')
        exp = [''.join(a._sequence[i] for i in idx) for idx in it_fn(op)(list(range(n)), kk)]
        ok = [r._sequence for r in res] == exp and len(res) == expected_count(op, n, kk)
        print('residue sequences as itertools over the residues:', ok)
        return 0 if ok else 1
    return 0


def run(chk):
    pt, pp = _pt()
    tier = chk.tier
    rng = chk.rng
    chk.lean_build(['PeptVerif.Props.C19'], DRV)
    chk.trusted += [
        'modelled: ProFormaAnnotation.permutations/product/combinations/combinations_with_replacement, split, slice(i,i+1), '
        'pop_mods + internal restore, own itertools enumerations; the literal text pipeline (serialize start/pieces/end, '
        'concatenate, parse) on the C01 parser/serializer models, proved equal to the annotation-level assemble for canonical inputs',
        'correspondence domain of the annotation-level model (expandDomain): present mod lists non-empty, multipliers >= 1, '
        'adducts only with a charge; outside it the literal text-level model is compared on the raw fields (stage outside_domain)',
    ]
    chk.rule = ('generated annotations of length 1..6 (all modification kinds except intervals) x size in None,1..n,n+1,n+3 x '
                'four operations, always on copies; non-trivial = at least 2 results and at least one residue modification or global; '
                'distinct = distinct protocol line')
    limit = 800 if tier == 'quick' else 8000
    A = pp.ProFormaAnnotation
    from peptacular.sequence import combinatoric as cb
    INPLACE = 'slice(inplace=True) is not used by split()/the expansions'
    IV = 'interval clipping of slice belongs to C07/C11; C19 excludes intervals (sliceOne does not model them)'
    NONE = 'split() always passes both bounds'
    reach = Reach([A.permutations, A.product, A.combinations, A.combinations_with_replacement, A.split, A.slice, A.pop_mods,
                   A.serialize_start, A.serialize_end, cb.permutations, cb.product, cb.combinations,
                   cb.combinations_with_replacement],
                  outside={'ProFormaAnnotation.slice': {
                      'start = 0': NONE, 'stop = len(self.sequence)': NONE,
                      'if inplace is True:': INPLACE, 'self._sequence = new_sequence': INPLACE, 'return None': INPLACE,
                      'self._nterm_mods = None': INPLACE, 'self._cterm_mods = None': INPLACE, 'if start > 0:': INPLACE,
                      'if stop < len(self.sequence):  # compare with the original length, before the sequence is replaced': INPLACE,
                      'self._internal_mods = new_internal_mods  # already a copy': INPLACE,
                      'self._intervals = new_intervals  # already a copy': INPLACE,
                      'new_intervals = []': IV, 'for interval in self.intervals:': IV,
                      'if interval.start < stop and interval.end > start:': IV,
                      'new_start = max(0, interval.start - start)': IV, 'new_end = max(0, interval.end - start)': IV,
                      'new_intervals.append(Interval(start=new_start,': IV, 'end=new_end,': IV,
                      'ambiguous=interval.ambiguous,': IV, 'mods=copy.deepcopy(interval.mods)))': IV,
                      'if len(new_intervals) == 0:': IV, 'new_intervals = None': IV}})
    reach.__enter__()

    # ------------------------------------------------------------------ corpus (replayed first)
    corpus = []
    for c in load_corpus():
        ca = pp.parse(c['seq'])
        for h in c.get('history', []):
            ca = getattr(ca, h[0])(*h[1:])
        if 'internal_order' in c:
            ca._internal_mods = {k: ca._internal_mods[k] for k in c['internal_order']}
        corpus.append((c['op'], annot.dump(ca, sort_internal=False), c['size']))
    # ------------------------------------------------------------------ correspondence: the four expansions
    n_ann = 90 if tier == 'quick' else 150
    anns = []
    for i in range(n_ann):
        # one case in ten carries intervals (outside the property's quantifier: they are popped and never come back;
        # kept so that the model's claim about them stays tied to the code)
        a = gen_case(rng, 6 if i % 3 else 4, intervals=(i % 10 == 9))
        anns.append(a)
    cases = []
    for a in anns:
        n = len(a)
        d = annot.dump(a, sort_internal=False)
        if getattr(a, '_unsorted', False):
            chk.count('internal_dict_not_in_position_order')
        chk.count('len=%d' % n)
        chk.count('modified_residues=%d' % (len(a._internal_mods) if a._internal_mods else 0))
        for k in sizes_for(n):
            for op in OPS:
                kk = n if k is None else k
                if expected_count(op, n, kk) > limit:
                    # the largest enumerations (6^6 = 46656 results) only for a few annotations of the thorough tier
                    if tier == 'quick' or expected_count(op, n, kk) > 50000 or chk.distribution.get('large_cases', 0) >= 4:
                        chk.count('skipped_large')
                        continue
                    chk.count('large_cases')
                cases.append((op, d, k))

    def line(c):
        op, d, k = c
        return f'{op}\t{d}\t{k}'

    def impl(c):
        op, d, k = c
        a = annot.undump(d)
        res = getattr(a, impl_fn(op))(k)
        return '~'.join(annot.dump(r) for r in res)

    def cmp_(im, m):
        return im == '~'.join(annot.canon_dump(x) for x in m.split('~')) if m else im == m

    chk.correspond('corpus', DRV, corpus, line, impl, compare=cmp_)
    for i in range(0, len(cases), 250):   # in batches: the replies of the large enumerations are megabytes each
        chk.correspond('expansions', DRV, cases[i:i + 250], line, impl, compare=cmp_,
                       nontrivial_fn=lambda c, im: im.count('~') >= 1 and ('D' in im or '|L' in im))

    # split() on full annotations without intervals (labile to the first piece, terminals only on the end pieces)
    sp = [annot.dump(gen_case(rng, 6), sort_internal=False) for _ in range(300 if tier == 'quick' else 6000)]
    chk.correspond('split', DRV, sp, lambda d: f'split\t{d}',
                   lambda d: '~'.join(annot.dump(x) for x in annot.undump(d).split()),
                   compare=cmp_, nontrivial_fn=lambda d, im: im.count('~') >= 1)

    # text-exact: the module-level functions of sequence/combinatoric.py, string in, list of strings out, against the literal
    # text-level model (model parser -> serialize start/pieces/end -> itertools -> model parser -> serialize)
    fixed_strs = ['PET', '[3]-PET-[1]', 'PE[3.14]T', '<13C>PET', 'PEP+TIDE', 'PEP//TIDE', 'PE[', 'PEP[Phospho', '', 'P',
                  '{Glycan:Hex}<13C><[Oxidation]@M>[1][2]^2?[Acetyl]-PE[3]T[1.0][Phospho]^2-[Amide]/2[+Na+]', 'PE(PT)[+1]IDE',
                  '(?PE)PT[-1.5]^3', 'PEPT/-2', '[+1]-P', 'pep', 'PEP/0', 'P[Formula:[13C2]H4]E']
    scases = []
    for st in fixed_strs:
        n = len([c for c in st if c.isupper()])
        for k in [None, 0, 1, 2, 3, 4]:
            for op in OPS:
                if expected_count(op, min(n, 7), (n if k is None else k)) <= limit:
                    scases.append((op, st, k))
    for a in anns[:: (2 if tier == 'quick' else 1)]:
        st = a.serialize()
        n = len(a)
        for k in [None, 0, 1, 2, n, n + 1]:
            for op in OPS:
                if expected_count(op, n, (n if k is None else k)) <= limit // 2:
                    scases.append((op, st, k))

    def s_impl(c):
        op, st, k = c
        try:
            return 'S' + '~'.join(annot.esc(x) for x in getattr(pt, impl_fn(op))(st, k))
        except Exception as e:  # noqa
            return 'ERR:' + type(e).__name__
    chk.correspond('combinatoric_py_text_exact', DRV, scases, lambda c: f's_{c[0]}\t{annot.esc(c[1])}\t{c[2]}', s_impl,
                   nontrivial_fn=lambda c, im: im.count('~') >= 1)

    # outside the domain (round 5): the literal text-level model on annotations whose private fields hold what no text can
    # produce - empty-but-present lists, multipliers < 1, an empty internal entry, adducts without a charge - against the
    # implementation on the same fields. An empty-but-present N-term / unknown-position list makes every result fail to parse
    # (theorems empty_nterm_does_not_parse / empty_unknown_does_not_parse, replayed here as the first two cases).
    FIELDS = ['_labile_mods', '_static_mods', '_isotope_mods', '_cterm_mods', '_charge_adducts', '_nterm_mods', '_unknown_mods']
    xcases = [('perm', 'PET|N|N|N|N|L|N|D1=i3^1|N|None|N', 2), ('comb', 'PET|N|N|N|L|N|N|D1=i3^1|N|None|N', 2),
              ('comb', 'PET|N|N|N|N|N|N|D1=i3^0;2=sPhospho^-2|N|2|N', 2)]
    for _ in range(120 if tier == 'quick' else 1200):
        a = gen_case(rng, 4)
        kinds = []
        for f in FIELDS:
            if getattr(a, f) is None and rng.random() < (0.3 if f in FIELDS[:5] else 0.08):
                setattr(a, f, [])
                kinds.append('empty' + f)
        lists = [getattr(a, f) for f in FIELDS if getattr(a, f)] + list((a._internal_mods or {}).values())
        for l in lists:
            for m in l:
                if rng.random() < 0.3:
                    m.mult = rng.choice([0, -1, -3])
                    kinds.append('mult_below_1')
        if rng.random() < 0.2:
            a._internal_mods = dict(a._internal_mods or {})
            a._internal_mods.setdefault(rng.randrange(len(a)), [])
            kinds.append('empty_internal_entry')
        if a._internal_mods is None and rng.random() < 0.2:
            a._internal_mods = {}
            kinds.append('empty_internal_dict')
        if a._charge_adducts and rng.random() < 0.3:
            a._charge = None
            kinds.append('adducts_without_charge')
        if not kinds:
            continue
        for kd in set(kinds):
            chk.count('outside:' + kd)
        d = annot.dump(a, sort_internal=False)
        n = len(a)
        for k in (None, 1, 2):
            op = rng.choice(OPS)
            if expected_count(op, n, n if k is None else k) <= 300:
                xcases.append((op, d, k))

    def t_impl(c):
        op, d, k = c
        a = annot.undump(d)
        try:
            return 'T' + '~'.join(annot.dump(r) for r in getattr(a, impl_fn(op))(k))
        except Exception as e:  # noqa
            return 'ERR:' + type(e).__name__

    def t_cmp(im, m):
        if m.startswith('ERR:') or im.startswith('ERR:'):
            return im == m
        return m.startswith('T') and im[1:] == ('~'.join(annot.canon_dump(x) for x in m[1:].split('~')) if m[1:] else '')
    chk.correspond('outside_domain', DRV, xcases, lambda c: f't_{c[0]}\t{c[1]}\t{c[2]}', t_impl, compare=t_cmp,
                   nontrivial_fn=lambda c, im: im.startswith('ERR:') or im.count('~') >= 1)

    # the bare enumerations against the real itertools on integer lists (repeated elements included)
    its = []
    for n in range(0, 6 if tier == 'quick' else 8):
        for k in range(0, n + 3):
            for _ in range(2):
                l = [rng.randint(0, 3) for _ in range(n)] if _ else list(range(n))
                for op in OPS:
                    if expected_count(op, n, k) <= limit * 5:
                        its.append((op, k, l))

    def it_impl(c):
        op, k, l = c
        return ';'.join(','.join(map(str, t)) for t in it_fn(op)(l, k))

    chk.correspond('itertools', DRV, its, lambda c: f'it_{c[0]}\t{c[1]}\t{",".join(map(str, c[2]))}', it_impl,
                   nontrivial_fn=lambda c, im: ';' in im)

    # ------------------------------------------------------------------ oracle: the property on the implementation
    def o_expand(c):
        op, d, k = c
        a = annot.undump(d)
        n = len(a)
        kk = n if k is None else k
        src = a.copy()
        res = getattr(src, impl_fn(op))(k)
        # the modified residues, read straight from the fields (position -> own mods) ...
        own = [((a._internal_mods or {}).get(i) or None) for i in range(n)]
        # ... and the same through split(): every piece is its residue with exactly its own mods
        pieces = list(a.copy().split())
        if len(pieces) != n:
            return f'split() gives {len(pieces)} pieces for {n} residues'
        for i, pc in enumerate(pieces):
            got = ((pc._internal_mods or {}).get(0) or None)
            if pc._sequence != a._sequence[i] or annot.show_opt_mods(got) != annot.show_opt_mods(own[i]) or \
                    any(k != 0 for k in (pc._internal_mods or {})):
                return f'split() piece {i} is {annot.dump(pc)}, residue {i} carries {own[i]}'
            if annot.show_opt_mods(pc._labile_mods) != annot.show_opt_mods((a._labile_mods or None) if i == 0 else None):
                return f'split() piece {i} labile mods {pc._labile_mods}'
            if annot.show_opt_mods(pc._nterm_mods) != annot.show_opt_mods(a._nterm_mods if i == 0 else None) or \
                    annot.show_opt_mods(pc._cterm_mods) != annot.show_opt_mods(a._cterm_mods if i == n - 1 else None):
                return f'split() piece {i} terminal mods {pc._nterm_mods} / {pc._cterm_mods}'
        # Python's own itertools over the components written out independently of split()/slice()/serialize()
        comps = [a._sequence[i] + ''.join(('[%s]' % m.val) + ('^%d' % m.mult if m.mult > 1 else '') for m in (own[i] or []))
                 for i in range(n)]
        sel = list(it_fn(op)(list(range(n)), kk))
        if len(res) != len(sel):
            return f'{len(res)} results, itertools yields {len(sel)}'
        if len(res) != expected_count(op, n, kk):
            return f'{len(res)} results, formula gives {expected_count(op, n, kk)}'
        if op in ('perm', 'comb') and kk > n and res:
            return 'size above n must give an empty list'
        for r, idx in zip(res, sel):
            if r._sequence != ''.join(a._sequence[i] for i in idx):
                return f'result sequence {r._sequence} != selected residues {idx}'
            for pos, i in enumerate(idx):
                want = own[i]
                got = r._internal_mods.get(pos) if r._internal_mods else None
                if annot.show_opt_mods(want) != annot.show_opt_mods(got):
                    return f'result {annot.dump(r)}: residue {pos} carries {got}, source residue {i} carries {want}'
            if r._internal_mods and any(p >= len(idx) or p < 0 for p in r._internal_mods):
                return 'modification outside the result sequence'
            for f in ('_labile_mods', '_static_mods', '_isotope_mods', '_unknown_mods', '_nterm_mods', '_cterm_mods',
                      '_charge_adducts'):
                if annot.show_opt_mods(getattr(r, f)) != annot.show_opt_mods(getattr(a, f)):
                    return f'{f} changed: {getattr(a, f)} -> {getattr(r, f)}'
            if r._charge != a._charge:
                return f'charge changed: {a._charge} -> {r._charge}'
            if r._intervals is not None:
                return 'intervals appeared'
            # every result parses (and is a fixed point of serialise/parse)
            s = r.serialize()
            try:
                back = pp.parse(s)
            except Exception as e:  # noqa
                return f'result {s!r} does not parse: {type(e).__name__}: {e}'
            if not isinstance(back, pp.ProFormaAnnotation) or annot.dump(back) != annot.dump(r):
                return f'result {s!r} re-parses to a different annotation'
        # the string-level API agrees, and is start + components + end for itertools over the components
        start, end = a.serialize_start(), a.serialize_end()
        exp_strs = [start + ''.join(c) + end for c in it_fn(op)(comps, kk)]
        strs = getattr(pt, impl_fn(op))(a.copy(), k)
        if strs != exp_strs:
            bad = next((i for i, (x, y) in enumerate(zip(strs, exp_strs)) if x != y), min(len(strs), len(exp_strs)))
            return f'result {bad}: {strs[bad] if bad < len(strs) else None!r}, itertools over the modified residues gives ' \
                   f'{exp_strs[bad] if bad < len(exp_strs) else None!r}'
        if strs != [r.serialize() for r in res]:
            return 'peptacular.%s(annotation) differs from the annotation method' % impl_fn(op)
        if a._intervals is None and getattr(pt, impl_fn(op))(a.serialize(), k) != strs:
            return 'peptacular.%s(string) differs from the annotation method' % impl_fn(op)
        return None

    chk.oracle('corpus', corpus, o_expand, key_fn=lambda c: line(c))
    ocases = cases if chk.broken() else cases[::(3 if tier == 'quick' else 2)]
    chk.oracle('expansion_property', ocases, o_expand,
               nontrivial_fn=lambda c: '|D' in c[1] or '|L' in c[1], key_fn=lambda c: line(c))

    # ------------------------------------------------------------------ histories: state must not leak between calls
    # expand A, derive B from A through the ordinary API (new object or in place), expand B: must equal the expansion of a FRESH
    # object rebuilt from B's fields, and the model on B's fields; earlier expansions are re-issued afterwards and at the end
    HIST = [('reverse',), ('reverse_swap',), ('shift',), ('shuffle',), ('slice',), ('sort_residues',), ('copy',), ('deepcopy',),
            ('condense_static_mods',), ('add_internal_mod',), ('pop_internal_mod',), ('set_sequence',)]

    def derive(a, h, inplace):
        """B = op(A): a new object, or A itself edited in place"""
        import copy as _cp
        kind = h[0]
        n = len(a)
        if kind == 'copy':
            return a.copy()
        if kind == 'deepcopy':
            return _cp.deepcopy(a)
        if kind == 'add_internal_mod':
            b = a if inplace else a.copy()
            b.add_internal_mod(h[1] % n, pp.Mod('Oxidation', 1), append=True)
            return b
        if kind == 'pop_internal_mod':
            b = a if inplace else a.copy()
            if b._internal_mods:
                b.pop_internal_mod(sorted(b._internal_mods)[h[1] % len(b._internal_mods)])
                if not b._internal_mods:
                    b._internal_mods = None
            return b
        if kind == 'set_sequence':
            b = a if inplace else a.copy()
            b.sequence = b.sequence[::-1]
            return b
        args = {'reverse': (), 'reverse_swap': (), 'shift': (h[1] % (n + 1),), 'shuffle': (h[1],), 'sort_residues': (),
                'slice': (min(h[1] % n, h[2] % n), max(h[1] % n, h[2] % n) + 1), 'condense_static_mods': ()}[kind]
        name = 'reverse' if kind == 'reverse_swap' else kind
        kw = {'swap_terms': True} if kind == 'reverse_swap' else {}
        if inplace:
            r = getattr(a, name)(*args, inplace=True, **kw)
            return a if r is None else r
        return getattr(a, name)(*args, **kw)

    hcases = []
    hsrc = anns if tier != 'quick' else anns[:60]
    for a in hsrc:
        d = annot.dump(a, sort_internal=False)
        for _ in range(3):
            h = rng.choice(HIST) + (rng.randint(0, 11), rng.randint(0, 11))
            inplace = rng.random() < 0.35 and h[0] not in ('copy', 'deepcopy')
            op = rng.choice(OPS)
            k = rng.choice([None, 1, 2, 2, 3])
            try:
                b0 = derive(annot.undump(d), h, inplace)     # derived from a fresh object, nothing expanded before
            except Exception:  # noqa
                continue
            nb = len(b0)
            if nb == 0 or expected_count(op, nb, nb if k is None else k) > limit:
                k = 1
            hcases.append((op, d, k, list(h), inplace, annot.dump(b0, sort_internal=False)))
            chk.count('history_' + h[0] + ('_inplace' if inplace else ''))

    def dumps_of(res):
        return '~'.join(annot.dump(r) for r in res)

    def run_history(c):
        """the call sequence on live objects; returns (dumps of expand(B), description of the calls, A, B, first answers)"""
        op, d, k, h, inplace, _ = c
        a = annot.undump(d)
        calls = [f'A = <{a.serialize()}>']
        first = {}
        for o in OPS:                      # every method once on A (size 1), then the one under test with its size
            first[(o, 1)] = dumps_of(getattr(a, impl_fn(o))(1))
            calls.append(f'A.{impl_fn(o)}(1)')
        ka = k if expected_count(op, len(a), len(a) if k is None else k) <= limit else 1
        first[(op, ka)] = dumps_of(getattr(a, impl_fn(op))(ka))
        calls.append(f'A.{impl_fn(op)}({ka})')
        b = derive(a, tuple(h), inplace)
        calls.append(f'B = A.{h[0]}{tuple(h[1:])}' + (' [inplace]' if inplace else ''))
        rb = dumps_of(getattr(b, impl_fn(op))(k))
        calls.append(f'B.{impl_fn(op)}({k})  with B = <{b.serialize()}>')
        return rb, calls, a, b, first

    def h_impl(c):
        return run_history(c)[0]

    for i in range(0, len(hcases), 250):
        chk.correspond('expansions_after_history', DRV, hcases[i:i + 250], lambda c: f'{c[0]}\t{c[5]}\t{c[2]}', h_impl,
                       compare=cmp_, nontrivial_fn=lambda c, im: im.count('~') >= 1)

    live = []

    def o_history(c):
        op, d, k, h, inplace, db = c
        rb, calls, a, b, first = run_history(c)
        if annot.dump(b, sort_internal=False) != db:
            return f'{calls[-2]} gives {annot.dump(b, sort_internal=False)} after the expansions of A, {db} on a fresh A'
        fresh = annot.undump(annot.dump(b, sort_internal=False))
        rf = dumps_of(getattr(fresh, impl_fn(op))(k))
        if rb != rf:
            return 'call sequence ' + ' ; '.join(calls) + f' -> {rb[:300]} but a fresh object with the fields of B gives {rf[:300]}'
        if dumps_of(getattr(b, impl_fn(op))(k)) != rb:
            return 'call sequence ' + ' ; '.join(calls) + ' ; the same call again gives a different answer'
        if not inplace:
            for (o, kk), want in first.items():
                if dumps_of(getattr(a, impl_fn(o))(kk)) != want:
                    return 'call sequence ' + ' ; '.join(calls) + f' ; A.{impl_fn(o)}({kk}) again differs from its first answer'
        if len(live) < 80:
            live.append((b, op, k, rf, calls))
        return None

    chk.oracle('expansion_after_history', hcases, o_history, nontrivial_fn=lambda c: '|D' in c[5],
               key_fn=lambda c: repr(c[:5]))

    def o_reissue(i):
        b, op, k, want, calls = live[i]
        got = dumps_of(getattr(b, impl_fn(op))(k))
        if got != want:
            return 'call sequence ' + ' ; '.join(calls) + ' ; ... ; the same call at the end of the run gives ' + got[:300] + \
                   ' instead of ' + want[:300]
        return None
    chk.oracle('reissue_at_end_of_run', list(range(len(live))), o_reissue, key_fn=lambda i: 'live%d' % i)

    reach.__exit__()
    rep = reach.report()
    chk.notes.append({'reach_of_modelled_functions': rep})
    if rep.get('available'):
        chk.count('modelled_lines_total', rep['lines_of_modelled_functions'])
        chk.count('modelled_lines_executed', rep['lines_executed'])
    if tier == 'thorough':
        chk.leanchecker(['PeptVerif.Props.C19', 'PeptVerif.Model.Combinatoric', 'PeptVerif.Model.CombinatoricText'])
    return chk.finish(classify)


def classify(f):
    return None
