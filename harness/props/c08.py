"""C08 - queries never change their arguments or depend on call history."""
import glob
import json
import multiprocessing as mp
import os
import random as _random

from .. import core
from .. import c08_dyn as D

PID = 'C08'
DRV = 'drv_c08'

REGISTRY = {
    'id': 'C08',
    'text': 'Effect model: on every run a translator reads the current /repo source (Python ast) and regenerates, for every public '
            'function and ProFormaAnnotation method that takes an annotation/dict/list, a program in an effect IR (param, alias, '
            'element access, deep/shallow copy, pack, store, write, global write, call-by-summary). Lean theorems: for ANY program, '
            'any abstract state that is a post-fixpoint of its statements bounds every execution trace (any order, any repetition, '
            'any prefix of the statements: branches, loops, exceptions), hence mayWrite p = [] implies no parameter object and '
            'mayWriteGlobal p = [] no global object changes version; histories of any length of such programs leave every '
            'caller-owned object unchanged, so a later query returns what it returns on fresh arguments; per generated function '
            'the obligation mayWrite = [] is decided by the kernel over the regenerated module, summaries are checked closed, and '
            'every member of the API surface is analysed or explicitly declared outside. Dynamic tie: every API member is called on '
            'a dozen annotation shapes with all modification kinds; arguments, random.getstate() and the EntryDb maps are '
            'snapshotted around every call, every returned container/annotation is edited and the arguments re-snapshotted, '
            'history independence is run exhaustively over ordered pairs and randomly over triples; the set of functions observed '
            'writing an argument must be contained in the set the Lean analysis flags',
    'note': 'trusted: Lean kernel; the translator\'s classification of Python statements into IR statements (which method names '
            'mutate, which expressions copy deeply/shallowly/alias) and its call resolution; calls are executed by their summaries '
            '(summaries are kernel-checked to be closed under the bodies, the fixpoint-induction step from closed summaries to '
            'nested execution is not formalised); object identity of results is checked only dynamically; records handed in by the '
            'caller (Mod, Interval, Fragment) may be handed back by reference; field accessors and create_multi_annotation '
            '(aggregate of its arguments) are outside the no-shared-state clause; unseeded shuffle() is random by contract',
    'technique': 'Lean 4 proof about a regenerated effect model + dynamic snapshot/alias/history checks',
}

WRAPS = {'create_multi_annotation'}   # aggregate constructors: the result is documented to hold the arguments


def _pool_map(fn, args, procs):
    if procs <= 1 or len(args) <= 1:
        return [fn(a) for a in args]
    ctx = mp.get_context('fork')
    with ctx.Pool(min(procs, len(args))) as p:
        return p.map(fn, args, chunksize=1)


def _setup_state(chk, k_random):
    st = D.State(chk.seed, k_random=k_random)
    for s in st.specs:
        if s.api in WRAPS:
            s.accessor = True
    D.STATE = st
    return st


def _record(chk, name, res_list, key_prefix):
    st = chk.oracles.setdefault(name, {'evaluations': 0, 'failures': 0, 'samples': []})
    for i, r in enumerate(res_list):
        st['evaluations'] += r['evals']
        chk.evaluations += r['evals']
        nt = r.get('nontrivial', r['evals'])
        base = len(chk.nontrivial)
        for j in range(nt):
            chk.nontrivial.add((name, key_prefix, i, j))
        nf = r.get('nfail', len(r['failures']))
        st['failures'] += nf
        for f in r['failures']:
            if len([x for x in chk.failures if x['oracle'] == name]) < 6 and f.get('detail'):
                chk.failures.append({'oracle': name, 'case': {k: f[k] for k in ('kind', 'shape', 'calls', 'changed')},
                                     'detail': f['detail']})


def run(chk):
    import peptacular  # noqa
    tier = chk.tier
    procs = int(os.environ.get('VERIF_PROCS', '0') or 0) or min(12, os.cpu_count() or 1)
    # ------------------------------------------------------------------ translator + Lean
    from .. import translate_effects as T
    info = T.write_generated()
    if info['changed']:
        chk.generated_changed.append('PeptVerif/Generated/Effects.lean')
    chk.lean_build(['PeptVerif.Props.C08'], DRV)
    chk.trusted += [
        'translator harness/translate_effects.py: classification of Python statements into effect-IR statements (mutator method '
        'names, deep/shallow copy recognisers, alias through attribute/subscript/iteration, call resolution by name inside the '
        'package); an unrecognised call on a tracked name is treated as writing it',
        'a call is executed by the callee\'s summary; summaries are checked closed under the bodies by the kernel, the step from '
        'closed summaries to nested execution is the usual fixpoint induction and is not formalised',
        'dynamic only: returned objects are distinct from the arguments (edit-the-result test); records (Mod, Interval, Fragment) '
        'passed in may be passed back; property getters, get_internal_mods_by_index and create_multi_annotation hand back '
        'fields/arguments by design and are outside the no-shared-state clause',
        'unseeded shuffle() is random by contract: excluded from history independence and from the generator clause',
    ]
    chk.notes.append('declared outside: ' + json.dumps(D.DECLARED_OUTSIDE))

    st = _setup_state(chk, 4 if tier == 'quick' else 8)
    chk.count('shapes', len(st.bases))
    chk.count('specs', len(st.specs))
    chk.count('specs_declared_editor', sum(1 for s in st.specs if s.editor))
    for b in st.bases:
        for f, k in (('_labile_mods', 'labile'), ('_static_mods', 'static'), ('_isotope_mods', 'isotope'), ('_unknown_mods', 'unknown'),
                     ('_nterm_mods', 'nterm'), ('_cterm_mods', 'cterm'), ('_internal_mods', 'internal'), ('_intervals', 'intervals'),
                     ('_charge', 'charge'), ('_charge_adducts', 'adducts')):
            if getattr(b, f) is not None:
                chk.count('shape_with_' + k)

    # ------------------------------------------------------------------ API coverage (dynamic side)
    surface = D.api_surface()
    apis = {a for a, _ in surface}
    covered = {s.api for s in st.specs}
    missing = sorted(apis - covered - set(D.DECLARED_OUTSIDE))
    chk.oracle('api_surface_exercised', [m for m in missing] or ['<none missing>'],
               lambda m: None if m == '<none missing>' else f'public API member {m} accepts an annotation/dict/list but has no call spec '
                                                             f'and is not declared outside')
    chk.count('api_members', len(apis))

    # ------------------------------------------------------------------ corpus (witnesses of repaired defects) first
    cases = []
    for path in sorted(glob.glob(os.path.join(core.VERIF, 'corpus', PID, '*.jsonl'))):
        for line in open(path):
            line = line.strip()
            if line:
                cases.append(json.loads(line))

    def o_corpus(c):
        fs = D.eval_case(c)
        return None if not fs else '; '.join(f['kind'] + ': ' + f['detail'][:300] for f in fs)

    chk.oracle('corpus', cases, o_corpus, key_fn=lambda c: json.dumps(c, sort_keys=True))

    # ------------------------------------------------------------------ single calls: writes, globals, shared state, determinism
    full0 = D.db_stamp_full()
    rng0 = D.rng_stamp()
    res = _pool_map(D.task_single, list(range(len(st.bases))), procs)
    observed = {}
    for si, r in enumerate(res):
        st.writes[si] = r['writes']
        for api, ps in r['observed'].items():
            observed.setdefault(api, set()).update(ps)
    _record(chk, 'single_call', res, 'single')

    # ------------------------------------------------------------------ history independence
    pair_shapes = list(range(len(st.bases)))
    res = _pool_map(D.task_pairs, pair_shapes, procs)
    _record(chk, 'pairs_exhaustive', res, 'pairs')
    chk.exhaustive = True
    ntrip = 4000 if tier == 'quick' else 200000
    if chk.broken():
        ntrip *= 2
    chunks = max(1, procs)
    res = _pool_map(D.task_triples, [(chk.seed * 1000 + i, ntrip // chunks + 1) for i in range(chunks)], procs)
    _record(chk, 'triples_random', res, 'triples')

    def o_globals(_):
        if D.db_stamp_full() != full0:
            return 'content digest of the four EntryDb objects / constants tables changed during the run'
        if D.rng_stamp() != rng0:
            return 'the parent process random generator state changed during the run'
        return None
    chk.oracle('process_state_untouched', ['whole-run'], o_globals)

    # ------------------------------------------------------------------ static analysis vs observation
    _static_compare(chk, st, observed, info)

    chk.rule = ('shapes: 8 hand-written ProForma strings (labile+terminal+charge, static+isotope+adducts, numeric, intervals+unknown, '
                'ambiguous interval, plain, labile only, terminals only) + seeded random annotations with every kind; every API '
                'member has >= 1 call spec with arguments from a world of caller-owned objects; single-call clauses on every '
                '(shape, spec); ordered pairs (query A, any B) exhaustive on every shape; triples random; non-trivial = the last call '
                'returned a value (did not raise); distinct = distinct (shape, call sequence)')
    if tier == 'thorough':
        chk.leanchecker(['PeptVerif.Model.Effects', 'PeptVerif.Generated.Effects', 'PeptVerif.Props.C08'])
    return chk.finish(classify)


def _static_compare(chk, st, observed, info):
    """the Lean analysis verdict per API member (through the driver) against what was observed"""
    surface = D.api_surface()
    names = [a for a, _ in surface if a not in D.DECLARED_OUTSIDE] + ['Fragmenter']
    lines = ['verdict\t' + n for n in names]
    replies = chk.driver(DRV, lines)
    verdict = {}
    for n, r in zip(names, replies):
        verdict[n] = r
    flagged = {}
    unknown = []
    for n, r in verdict.items():
        if r in ('unknown', 'bad-op'):
            unknown.append(n)
            continue
        # reply: writes=<p1,p2>|globals=<g1,..>|editor=<0/1>
        parts = dict(p.split('=', 1) for p in r.split('|'))
        flagged[n] = {'writes': [x for x in parts['writes'].split(',') if x], 'globals': [x for x in parts['globals'].split(',') if x],
                      'editor': parts['editor'] == '1'}
    chk.samples.append({'driver': 'verdict', 'mass': verdict.get('mass'), 'fragment': verdict.get('fragment'),
                        'ProFormaAnnotation.pop_labile_mods': verdict.get('ProFormaAnnotation.pop_labile_mods')})

    def line_of(n):
        return 'verdict\t' + n

    cases = sorted(set(list(observed) + list(flagged)))

    def impl(n):
        return ','.join(sorted(p for p in observed.get(n, ()) if not p.startswith('?')))

    def cmp_(im, model_reply):
        if model_reply in ('unknown', 'bad-op'):
            return False
        parts = dict(p.split('=', 1) for p in model_reply.split('|'))
        fl = {x for x in parts['writes'].split(',') if x}
        ob = {x for x in im.split(',') if x}
        return ob <= fl      # soundness direction: everything observed written is flagged

    chk.correspond('observed_writes_subset_of_flagged', DRV, [n for n in cases if n not in D.DECLARED_OUTSIDE],
                   line_of, impl, compare=cmp_, nontrivial_fn=lambda c, im: True)
    imprecise = sorted(n for n, v in flagged.items()
                       if set(v['writes']) - observed.get(n, set()) - ({'self', 'sequence'} if D.is_declared_editor(n) else set()))
    chk.notes.append('flagged by the analysis but never observed writing (imprecision, not a violation): ' + json.dumps(
        {n: sorted(set(flagged[n]['writes']) - observed.get(n, set())) for n in imprecise}))
    chk.notes.append('observed argument writes (editors on non-target arguments, and queries): ' + json.dumps(
        {k: sorted(v) for k, v in observed.items()}))
    if unknown:
        chk.notes.append('API members without an analysed program: ' + json.dumps(unknown))
    # queries that the analysis flags: the Lean obligation generated_queries_pure fails with them; name them
    q_flagged = sorted(n for n, v in flagged.items() if not v['editor'] and (v['writes'] or v['globals']))
    if q_flagged:
        chk.lean_problems.append('analysis flags non-editor API members as writing: ' + json.dumps(
            {n: flagged[n] for n in q_flagged})[:1500])


def classify(failure):
    return None


def replay(chk, obj):
    _setup_state(chk, 0)
    case = obj.get('case', obj)
    fs = D.eval_case(case)
    print(json.dumps({'case': case, 'failures_now': fs}, indent=1)[:6000])
    return 1 if fs else 0
