"""C08 - queries never change their arguments or depend on call history."""
import glob
import json
import multiprocessing as mp
import os
import random as _random

from .. import core
from .. import c08_dyn as D

PID = 'C08'
DRV = 'drv_c08'

REGISTRY = {
    'id': 'C08',
    'text': 'Effect model: on every run a translator reads the current /repo source (Python ast) and regenerates, for every public '
            'function and ProFormaAnnotation method that takes an annotation/dict/list, a program in an effect IR (param, alias, '
            'element access, deep/shallow copy, pack, store, write, global write, call-by-summary). Lean theorems: for ANY program, '
            'any abstract state that is a post-fixpoint of its statements bounds every execution trace (any order, any repetition, '
            'any prefix of the statements: branches, loops, exceptions), hence mayWrite p = [] implies no parameter object and '
            'mayWriteGlobal p = [] no global object changes version; histories of any length of such programs leave every '
            'caller-owned object unchanged, so a later query returns what it returns on fresh arguments; a summary table closed '
            'under the bodies bounds real nested execution of calls (nested_calls_bounded); per generated function the obligation '
            'write set = [] is decided by the kernel (generated_queries_pure, end to end in generated_query_frame), editors write '
            'only their own object, getters and special methods are pure, and - no-shared-state clause - the result of every '
            'non-editor member is proved fresh (mayShareIn_sound, generated_results_fresh, generated_result_frame: the returned '
            'object and everything below it is allocated by the call or is a record the caller handed in), with an explicit '
            'declaredSharing list; no API member may write or hand back a modification database (generated_db_untouched, '
            'db_editors_are_flagged for non-vacuity); the generated model is one Lean file + one kernel check per Python source '
            'module (tables closed, summaries closed, verdicts as claimed), assembled and tied back by generated_verdicts_correct; '
            'every member of the API surface is analysed or explicitly declared outside. Dynamic tie: every API member is called on '
            'a dozen annotation shapes with all modification kinds; arguments, random.getstate() and the EntryDb maps are '
            'snapshotted around every call, every returned container/annotation is edited and the arguments re-snapshotted, '
            'history independence is run exhaustively over ordered pairs and randomly over triples (str-accepting functions get the '
            'same string object in every call, the caller edits every returned container between calls, one Fragmenter object '
            'is driven through pairs/triples of .fragment calls); memoised functions are modelled as handing out process-wide objects; the set of functions observed '
            'writing an argument, and the set of functions whose result was observed sharing state with an argument, must be '
            'contained in the sets the Lean analysis flags',
    'note': 'trusted: Lean kernel; the translator\'s classification of Python statements into IR statements (which method names '
            'mutate, which expressions copy deeply/shallowly/alias), its SSA renaming, inplace specialisation and call resolution; '
            'the lumping of everything below a parameter into one abstract object; static types are trusted for casts (a value '
            'annotated as Mod/Interval/Fragment is a record, a container annotated with scalar elements holds nothing mutable, a '
            'function annotated to return a number or string returns nothing shared); records handed in by the '
            'caller (Mod, Interval, Fragment) may be handed back by reference; field accessors and create_multi_annotation '
            '(aggregate of its arguments) are outside the no-shared-state clause; unseeded shuffle() is random by contract',
    'technique': 'Lean 4 proof about a regenerated effect model + dynamic snapshot/alias/history checks',
}

WRAPS = {'create_multi_annotation', 'merge_dicts'}   # declaredSharing besides the accessor (Model/EffectsApi.lean): see there


def _pool_map(fn, args, procs):
    if procs <= 1 or len(args) <= 1:
        return [fn(a) for a in args]
    ctx = mp.get_context('fork')
    with ctx.Pool(min(procs, len(args))) as p:
        return p.map(fn, args, chunksize=1)


def _setup_state(chk, k_random):
    st = D.State(chk.seed, k_random=k_random)
    for s in st.specs:
        if s.api in WRAPS:
            s.accessor = True
    D.STATE = st
    return st


def _record(chk, name, res_list, key_prefix):
    st = chk.oracles.setdefault(name, {'evaluations': 0, 'failures': 0, 'samples': []})
    for i, r in enumerate(res_list):
        st['evaluations'] += r['evals']
        chk.evaluations += r['evals']
        nt = r.get('nontrivial', r['evals'])
        base = len(chk.nontrivial)
        for j in range(nt):
            chk.nontrivial.add((name, key_prefix, i, j))
        nf = r.get('nfail', len(r['failures']))
        st['failures'] += nf
        for f in r['failures']:
            if len([x for x in chk.failures if x['oracle'] == name]) < 6 and f.get('detail'):
                chk.failures.append({'oracle': name, 'case': {k: f[k] for k in ('kind', 'shape', 'calls', 'changed')},
                                     'detail': f['detail']})


def run(chk):
    # the generated Lean modules depend on the repository under check (VERIF_REPO): concurrent C08 runs against different
    # trees would overwrite each other's Generated/Effects files, so a C08 run holds this lock from translation to the end
    import fcntl
    os.makedirs(os.path.join(core.LEAN, '.lake'), exist_ok=True)
    lock = open(os.path.join(core.LEAN, '.lake', 'c08-run.lock'), 'w')
    fcntl.flock(lock, fcntl.LOCK_EX)
    try:
        return _run(chk)
    finally:
        fcntl.flock(lock, fcntl.LOCK_UN)
        lock.close()


def _run(chk):
    import peptacular  # noqa
    import time as _t
    _t0 = [_t.time()]

    def phase(name):
        chk.count('wall_s_' + name, round(_t.time() - _t0[0], 1))
        _t0[0] = _t.time()
    tier = chk.tier
    procs = int(os.environ.get('VERIF_PROCS', '0') or 0) or min(12, os.cpu_count() or 1)
    # ------------------------------------------------------------------ translator + Lean
    from .. import translate_effects as T
    try:
        info = T.write_generated()
    except Exception as e:  # noqa - the translator must not abort the check: the stale generated model is reported as broken
        import traceback
        info = {'changed_files': [], 'files': {}, 'conservative_constructs': {}, 'index_errors': []}
        chk.lean_problems.append('translator failed, the generated effect model is stale: ' + type(e).__name__ + ': ' + str(e)[:300] +
                                 ' | ' + traceback.format_exc()[-500:])
    for rel in info.get('changed_files', []):
        chk.generated_changed.append('PeptVerif/Generated/' + rel)
    chk.count('generated_module_files', len([r for r in info['files'] if r.startswith('Effects/M_')]))
    phase('translate')
    chk.lean_build(['PeptVerif.Props.C08'], DRV)
    phase('lean_build_audit')
    chk.trusted += [
        'translator harness/translate_effects.py: classification of Python statements into effect-IR statements (mutator method '
        'names, deep/shallow copy recognisers, alias through attribute/subscript/iteration, call resolution by name inside the '
        'package); an unrecognised call on a tracked name is treated as writing it',
        'in the trace semantics a call is executed by the callee\'s summary; summaries_closed (kernel) + nested_calls_bounded (theorem) '
        'carry the bounds over to real nested execution of the translated bodies',
        'dynamic only: returned objects are distinct from the arguments (edit-the-result test); records (Mod, Interval, Fragment) '
        'passed in may be passed back; property getters, get_internal_mods_by_index and create_multi_annotation hand back '
        'fields/arguments by design and are outside the no-shared-state clause',
        'unseeded shuffle() is random by contract: excluded from history independence and from the generator clause',
    ]
    chk.notes.append('declared outside: ' + json.dumps(D.DECLARED_OUTSIDE))
    chk.notes.append('conservative_constructs (translated as may-write / may-share on everything they mention): ' +
                     json.dumps(info.get('conservative_constructs', {})))
    chk.count('conservative_constructs', sum(len(v) for v in info.get('conservative_constructs', {}).values()))
    if info.get('index_errors'):
        chk.notes.append('modules that could not be indexed: ' + json.dumps(info['index_errors']))

    st = _setup_state(chk, 4 if tier == 'quick' else 8)
    phase('state')
    chk.count('shapes', len(st.bases))
    chk.count('specs', len(st.specs))
    chk.count('specs_declared_editor', sum(1 for s in st.specs if s.editor))
    for b in st.bases:
        for f, k in (('_labile_mods', 'labile'), ('_static_mods', 'static'), ('_isotope_mods', 'isotope'), ('_unknown_mods', 'unknown'),
                     ('_nterm_mods', 'nterm'), ('_cterm_mods', 'cterm'), ('_internal_mods', 'internal'), ('_intervals', 'intervals'),
                     ('_charge', 'charge'), ('_charge_adducts', 'adducts')):
            if getattr(b, f) is not None:
                chk.count('shape_with_' + k)

    # ------------------------------------------------------------------ API coverage (dynamic side)
    surface = D.api_surface()
    apis = {a for a, _ in surface}
    covered = {s.api for s in st.specs}
    missing = sorted(apis - covered - set(D.DECLARED_OUTSIDE))
    all_public = {a for a, _ in D.api_surface(all_public=True)} | {'Fragmenter'}
    vanished = sorted(covered - all_public)

    def o_surface(m):
        if m == '<none missing>':
            return None
        if m in vanished:
            return f'the call specs exercise {m}, which is no longer a public callable of the package (removed or renamed)'
        return f'public API member {m} accepts an annotation/dict/list but has no call spec and is not declared outside'
    chk.oracle('api_surface_exercised', (missing + vanished) or ['<none missing>'], o_surface)
    _record(chk, 'specs_fit_api', [{'evals': len(st.specs), 'failures': st.spec_broken}], 'specfit')
    chk.count('api_members', len(apis))

    # ------------------------------------------------------------------ corpus (witnesses of repaired defects) first
    cases = []
    for path in sorted(glob.glob(os.path.join(core.VERIF, 'corpus', PID, '*.jsonl'))):
        for line in open(path):
            line = line.strip()
            if line:
                cases.append(json.loads(line))

    def o_corpus(c):
        fs = D.eval_case(c)
        return None if not fs else '; '.join(f['kind'] + ': ' + f['detail'][:300] for f in fs)

    chk.oracle('corpus', cases, o_corpus, key_fn=lambda c: json.dumps(c, sort_keys=True))

    # ------------------------------------------------------------------ process-wide tables at the very first calls
    _record(chk, 'first_call_module_tables', [{'evals': len(st.specs) * len(st.bases), 'failures': st.first_call_failures}], 'first')

    # ------------------------------------------------------------------ single calls: writes, globals, shared state, determinism
    full0 = D.db_stamp_full()
    rng0 = D.rng_stamp()
    res = _pool_map(D.g_single, list(range(len(st.bases))), procs)
    observed = {}
    st.shares = [r['shares'] for r in res]
    for si, r in enumerate(res):
        st.writes[si] = r['writes']
        for api, ps in r['observed'].items():
            observed.setdefault(api, set()).update(ps)
    _record(chk, 'single_call', res, 'single')
    phase('single')

    # ------------------------------------------------------------------ history independence
    pair_shapes = list(range(len(st.bases)))
    res = _pool_map(D.g_pairs, pair_shapes, procs)
    _record(chk, 'pairs_exhaustive', res, 'pairs')
    phase('pairs')
    chk.exhaustive = True
    res = _pool_map(D.g_fragmenter, pair_shapes, procs)
    _record(chk, 'fragmenter_object_histories', res, 'fragmenter')
    phase('fragmenter')
    ntrip = 4000 if tier == 'quick' else 200000
    if chk.broken():
        ntrip *= 2
    chunks = max(1, procs)
    res = _pool_map(D.g_triples, [(chk.seed * 1000 + i, ntrip // chunks + 1) for i in range(chunks)], procs)
    _record(chk, 'triples_random', res, 'triples')
    phase('triples')

    def o_globals(_):
        if D.db_stamp_full() != full0:
            return 'content digest of the four EntryDb objects / constants tables changed during the run'
        if D.rng_stamp() != rng0:
            return 'the parent process random generator state changed during the run'
        return None
    chk.oracle('process_state_untouched', ['whole-run'], o_globals)

    # ------------------------------------------------------------------ static analysis vs observation
    _static_compare(chk, st, observed, info)
    phase('static_compare')

    chk.rule = ('shapes: 8 hand-written ProForma strings (labile+terminal+charge, static+isotope+adducts, numeric, intervals+unknown, '
                'ambiguous interval, plain, labile only, terminals only) + seeded random annotations with every kind; every API '
                'member has >= 1 call spec with arguments from a world of caller-owned objects; single-call clauses on every '
                '(shape, spec); ordered pairs (query A, any B) exhaustive on every shape; triples random; non-trivial = the last call '
                'returned a value (did not raise); distinct = distinct (shape, call sequence)')
    if tier == 'thorough':
        gen_mods = ['PeptVerif.Generated.' + r[:-5].replace('/', '.') for r in sorted(info['files'])]
        chk.leanchecker(['PeptVerif.Model.Effects', 'PeptVerif.Model.EffectsNested', 'PeptVerif.Lemmas.Effects',
                         'PeptVerif.Lemmas.EffectsNested'] + gen_mods + ['PeptVerif.Props.C08'])
    return chk.finish(classify)


def _parse_verdict(r):
    parts = dict(p.split('=', 1) for p in r.split('|'))
    return {'writes': [x for x in parts['writes'].split(',') if x], 'globals': [x for x in parts['globals'].split(',') if x],
            'share': [x for x in parts['share'].split(',') if x], 'shareglobals': [x for x in parts['shareglobals'].split(',') if x],
            'editor': parts['editor'] == '1', 'random': parts['random'] == '1', 'closed': parts['closed'] == '1',
            'recheck': parts['recheck']}


def _static_compare(chk, st, observed, info):
    """the Lean analysis verdict per API member (through the driver) against what was observed"""
    surface = D.api_surface(all_public=True)
    names = [a for a, _ in surface] + ['Fragmenter']
    variants = []
    for n in names:
        variants.append(n)
        variants.append(n + '[inplace]')
    replies = chk.driver(DRV, ['verdict\t' + n for n in variants] + ['sharing', 'outside', 'count'])
    lean_sharing = set(x for x in replies[-3].split(',') if x)
    lean_outside = set(x for x in replies[-2].split(',') if x)
    nfun = replies[-1]
    chk.count('analysed_functions', int(nfun) if nfun.isdigit() else 0)
    verdict = {}
    for n, r in zip(variants, replies[:-3]):
        if r not in ('unknown', 'bad-op'):
            verdict[n] = _parse_verdict(r)
    chk.samples.append({'driver': 'verdict', **{k: replies[variants.index(k)] for k in
                                                ('mass', 'ProFormaAnnotation.slice[inplace]', 'shuffle') if k in variants}})

    # (1) the explicit outside list is the same on both sides, and every API member has a verdict or is outside
    def o_cov(n):
        if n == '<outside-lists>':
            if lean_outside != set(D.DECLARED_OUTSIDE):
                return f'declaredOutside differs: Lean {sorted(lean_outside)} vs harness {sorted(D.DECLARED_OUTSIDE)}'
            hs = set(WRAPS) | {s.api for s in st.specs if s.accessor and s.api not in WRAPS}
            if lean_sharing != hs:
                return f'declaredSharing differs: Lean {sorted(lean_sharing)} vs harness {sorted(hs)}'
            return None
        if n not in verdict:
            return f'API member {n} has no analysed program (translator did not find its definition)'
        v = verdict[n]
        if not v['closed']:
            return f'{n}: the emitted table is not closed under its program'
        if v['recheck'] != 'same':
            return f'{n}: the Lean analysis recomputed natively disagrees with the table computed by the translator'
        return None
    chk.oracle('analysis_covers_api', ['<outside-lists>'] + names, o_cov)

    # (2) soundness direction: every parameter observed written is flagged by the analysis (for the variant observed)
    obs_by_variant = {}
    for spec in st.specs:
        key = spec.api + ('[inplace]' if 'inplace' in spec.name else '')
        for si in range(len(st.bases)):
            for k in st.writes[si].get(spec.name, ()):
                if spec.editor and k == spec.target:
                    obs_by_variant.setdefault(key, set()).add(spec.params.get(k, '?' + k))
                else:
                    obs_by_variant.setdefault(key, set()).add(spec.params.get(k, '?' + k))
    cases = sorted(set(obs_by_variant) | {n for n in verdict if n in names})

    def line_of(n):
        return 'verdict\t' + n

    def impl(n):
        return ','.join(sorted(p for p in obs_by_variant.get(n, ()) if not p.startswith('?')))

    def cmp_(im, reply):
        if reply in ('unknown', 'bad-op'):
            return False
        fl = set(_parse_verdict(reply)['writes'])
        ob = {x for x in im.split(',') if x}
        return ob <= fl
    chk.correspond('observed_writes_subset_of_flagged', DRV, [n for n in cases if n.replace('[inplace]', '') not in D.DECLARED_OUTSIDE],
                   line_of, impl, compare=cmp_, nontrivial_fn=lambda c, im: bool(im))
    # (3) the same for sharing: whatever the edit-the-result step saw shared must be flagged by mayShare
    share_by_variant = {}
    for spec in st.specs:
        key = spec.api + ('[inplace]' if 'inplace' in spec.name else '')
        for si in range(len(st.bases)):
            for k in st.shares[si].get(spec.name, ()):
                share_by_variant.setdefault(key, set()).add(spec.params.get(k, '?' + k))

    def impl_share(n):
        return ','.join(sorted(p for p in share_by_variant.get(n, ()) if not p.startswith('?')))

    def cmp_share(im, reply):
        if reply in ('unknown', 'bad-op'):
            return False
        fl = set(_parse_verdict(reply)['share'])
        return {x for x in im.split(',') if x} <= fl
    chk.correspond('observed_sharing_subset_of_flagged', DRV,
                   [n for n in sorted(set(share_by_variant) | {m for m in verdict if m in names})
                    if n.replace('[inplace]', '') not in D.DECLARED_OUTSIDE],
                   line_of, impl_share, compare=cmp_share, nontrivial_fn=lambda c, im: bool(im))
    chk.notes.append('observed result/argument sharing per API variant (edit-the-result step): ' +
                     json.dumps({k: sorted(v) for k, v in share_by_variant.items()}))
    chk.notes.append('process-wide objects any API member (editors, random and declared-outside members included) may write, by name: ' +
                     json.dumps({n: v['globals'] for n, v in verdict.items() if v['globals']}))
    chk.notes.append('flagged as possibly sharing by the analysis: ' + json.dumps(
        {n: v['share'] + v['shareglobals'] for n, v in verdict.items() if v['share'] or v['shareglobals']}))
    r_flagged = {n: v for n, v in verdict.items() if not v['editor'] and (v['share'] or v['shareglobals'])
                 and n.replace('[inplace]', '') not in D.DECLARED_OUTSIDE and n not in lean_sharing}
    if r_flagged:
        chk.lean_problems.append('the analysis flags results as possibly sharing state with arguments / globals '
                                 '(generated_results_fresh): ' + json.dumps({n: v['share'] + v['shareglobals'] for n, v in r_flagged.items()})[:1500])
    # observed global disturbance must be flagged too (the dynamic clause itself already fails for non-random specs)
    imprecise = {}
    for n, v in verdict.items():
        extra = set(v['writes']) - obs_by_variant.get(n, set())
        if extra and n in obs_by_variant or (extra and n in names):
            imprecise[n] = sorted(extra)
    chk.notes.append('flagged by the analysis but not observed written by the call specs (imprecision or unexercised path, '
                     'not a violation): ' + json.dumps(imprecise))
    chk.notes.append('observed argument writes per API variant: ' + json.dumps({k: sorted(v) for k, v in obs_by_variant.items()}))
    # queries flagged by the analysis: the Lean obligation generated_queries_pure fails with them; name them here
    q_flagged = {n: v for n, v in verdict.items() if not v['editor'] and not v['random'] and (v['writes'] or v['globals'])
                 and n.replace('[inplace]', '') not in D.DECLARED_OUTSIDE}
    if q_flagged:
        chk.lean_problems.append('the analysis flags non-editor API members as writing (generated_queries_pure): ' +
                                 json.dumps({n: {'writes': v['writes'], 'globals': v['globals']} for n, v in q_flagged.items()})[:1500])
    e_flagged = {n: v for n, v in verdict.items() if v['editor'] and not v['random'] and
                 ([w for w in v['writes'] if w not in ('self', 'sequence')] or v['globals'])
                 and n.replace('[inplace]', '') not in D.DECLARED_OUTSIDE}
    if e_flagged:
        chk.lean_problems.append('the analysis flags editors as writing more than their own object (generated_editors_write_only_target): ' +
                                 json.dumps({n: {'writes': v['writes'], 'globals': v['globals']} for n, v in e_flagged.items()})[:1500])


def classify(failure):
    return None


def replay(chk, obj):
    _setup_state(chk, 0)
    case = obj.get('case', obj)
    if not (isinstance(case, dict) and 'shape' in case and 'calls' in case):
        print(json.dumps(obj, indent=1)[:6000])
        return 0
    fs = D.eval_case(case)
    if case.get('kind') == 'global-state-disturbed':
        # such a change is visible only at the first call in a process: the warm-up pass of the state build recorded it
        fs = fs + [f for f in D.STATE.first_call_failures if f['calls'] == case['calls']][:3]
    print(json.dumps({'case': case, 'failures_now': fs}, indent=1)[:6000])
    return 1 if fs else 0
