"""line reach of the modelled Python functions (sys.monitoring, Python 3.12); shared by c16.py and c17.py.
The class is the one of c12_env.py (copied: helpers of other work packages are not imported)."""


class LineCoverage:
    """which lines of the modelled Python functions the correspondence / oracle inputs execute (sys.monitoring, 3.12)"""

    def __init__(self, funcs, tool='verif-c17'):
        import sys
        self.tool = tool
        self.mon = getattr(sys, 'monitoring', None)
        self.codes = {}
        for f in funcs:
            f = getattr(f, '__wrapped__', f)
            f = getattr(f, 'fget', f)          # properties
            code = getattr(f, '__code__', None)
            if code is not None:
                self._add(code, f'{code.co_filename.split("/peptacular/")[-1]}:{f.__qualname__}')
        self.seen = set()
        self.active = False

    def _add(self, code, name):
        self.codes[code] = name
        for c in code.co_consts:
            if hasattr(c, 'co_lines'):
                self._add(c, name)

    def start(self):
        if self.mon is None:
            return
        m = self.mon
        try:
            m.use_tool_id(m.COVERAGE_ID, self.tool)
        except ValueError:
            return
        self.active = True

        def cb(code, line):
            self.seen.add((code, line))
            return m.DISABLE

        m.register_callback(m.COVERAGE_ID, m.events.LINE, cb)
        for code in self.codes:
            m.set_local_events(m.COVERAGE_ID, code, m.events.LINE)

    def stop(self):
        if not self.active:
            return
        m = self.mon
        for code in self.codes:
            m.set_local_events(m.COVERAGE_ID, code, 0)
        m.register_callback(m.COVERAGE_ID, m.events.LINE, None)
        m.free_tool_id(m.COVERAGE_ID)
        self.active = False

    def report(self):
        """{function: [uncovered line numbers]} and totals; docstring-only / def lines are not code lines"""
        if self.mon is None:
            return {'available': False}
        per = {}
        tot = hit = 0
        for code, name in self.codes.items():
            lines = {ln for _, _, ln in code.co_lines() if ln is not None and ln != code.co_firstlineno}
            got = {ln for (c, ln) in self.seen if c is code}
            tot += len(lines)
            hit += len(lines & got)
            miss = sorted(lines - got)
            if miss:
                per.setdefault(name, [])
                per[name] = sorted(set(per[name]) | set(miss))
        return {'available': True, 'code_lines': tot, 'executed': hit, 'uncovered': per}


def record(chk, cov):
    """stop, put the report into the evidence (notes + input distribution)"""
    import json
    cov.stop()
    rep = cov.report()
    chk.notes.append('line reach of the modelled Python functions during this run (sys.monitoring): ' + json.dumps(rep))
    if rep.get('available'):
        chk.count('reach_code_lines', rep['code_lines'])
        chk.count('reach_executed_lines', rep['executed'])
    return rep
