"""C15 - chemical and glycan formulas survive a write/parse round trip and add linearly."""
import json
import math
import os
import sys
import time
from fractions import Fraction

from .. import core
from .. import translate_vocab as TV
from .c10 import enc, dec, parse_model_rat, parse_model_comp, cmp_comp, show_impl_comp, guarded, Hang, close, to_float, impl_same

PID = 'C15'
DRV = 'drv_c15'

REGISTRY = {
    'id': 'C15',
    'text': 'Lean theorems about the executable model of chem_util.write_chem_formula / parse_chem_formula (hand-written scanners '
            'with finditer semantics for the two tokenizer regexes), chem_mass, write/parse_glycan_formula, glycan_comp and '
            'glycan_mass over the element and monosaccharide tables regenerated from the repo: token-level round trip lemmas, '
            'parse(write c) = dropZeros c on well-formed compositions, mass of the written string, additivity of the parser on '
            'writer outputs, longest-name-first glycan tokenizer picks the longest prefix name, glycan composition and mass are '
            'count-weighted sums, synonyms resolve to the entry of their name. The model is tied to /repo by differential '
            'correspondence (text-exact writers, dict-exact parsers) over all table elements, isotopes, D/T, particles, integer '
            'and 4-place decimal counts, all separators and Hill order, and the property is evaluated on the real functions',
    'note': 'trusted: Lean kernel, axioms propext/Classical.choice/Quot.sound, translate_vocab.py, the correspondence harness; '
            'float repr is modelled for positional notation only (|x| in [1e-4, 1e16)); ASCII digits only',
    'technique': 'Lean 4 proof about executable model + generated tables + differential correspondence',
}

SEPS = ['', ' ', '|']


def num_wire(v):
    if isinstance(v, bool):
        raise TypeError
    if isinstance(v, int):
        return f'i:{v}'
    f = Fraction(repr(v))
    return f'f:{f.numerator}/{f.denominator}'


def comp_wire(d):
    return ';'.join(f'{enc(k)}={num_wire(v)}' for k, v in d.items())


def show_text(fn):
    try:
        return 'OK ' + enc(guarded(fn))
    except Hang:
        return 'ERR:HANG'
    except Exception as e:  # noqa
        return 'ERR:' + type(e).__name__


def show_float(fn):
    try:
        r = guarded(fn)
    except Hang:
        return 'ERR:HANG'
    except Exception as e:  # noqa
        return 'ERR:' + type(e).__name__
    r = float(r)
    if math.isnan(r) or math.isinf(r):
        return 'ERR:SPECIAL'
    return 'OK ' + repr(r)


def cmp_float(im, m):
    if not isinstance(im, str) or not isinstance(m, str) or (m.startswith('OK ') and '/' not in m):
        return impl_same(im, m)
    if im.startswith('OK '):
        if not m.startswith('OK '):
            return False
        a = float(im[3:])
        b = to_float(parse_model_rat(m[3:]))
        return abs(a - b) <= 1e-7 + 1e-9 * max(abs(a), abs(b))
    if im == 'ERR:SPECIAL' and m.startswith('OK '):
        # a number beyond the range of a double: inf / nan in Python, exact in the model (outside the model)
        return abs(parse_model_rat(m[3:])) > Fraction(10) ** 300
    return im == m


def positional(v):
    """is repr(v) in positional notation (the modelled range)"""
    return isinstance(v, int) or ('e' not in repr(v) and 'n' not in repr(v))


def _run(chk):
    import peptacular as pt
    from peptacular.chem import chem_util as CU
    from peptacular.mods import mod_db_setup as S
    from peptacular import constants as K
    tier = chk.tier
    rng = chk.rng
    _t = [time.time()]

    def lap(what):
        if os.environ.get('VERIF_TIMING'):
            print(f'[timing] {what}: {time.time() - _t[0]:.1f}s', file=sys.stderr)
        _t[0] = time.time()
    TV.translate_into(chk)  # never raises: a failed dump is a reported item, the previous tables stay
    chk.lean_build(['PeptVerif.Props.C15', 'PeptVerif.Props.C15Glycan', 'PeptVerif.Props.C15Ext'], DRV)
    lap('build')
    chk.trusted += [
        'translate_vocab.py: element tables (ISOTOPIC_ATOMIC_MASSES, AVERAGE_ATOMIC_MASSES, HILL_ORDER, particle masses) and the '
        'monosaccharide EntryDb as loaded -> Lean literals',
        'modelled: write_chem_formula (precision=None), parse_chem_formula, _split_chem_formula, _parse_isotope_component, '
        '_parse_condensed_chem_formula, _parse_split_chem_formula, chem_mass, util.convert_type, write_glycan_formula, '
        '_parse_glycan_formula, _glycan_comp, glycan_mass; the two tokenizer regexes are hand-written scanners; '
        'not modelled: precision rounding, float repr outside positional notation, non-ASCII digits/whitespace',
    ]
    from ..reach_c10 import Reach
    from peptacular import mass_calc as MC, glycan as GL, util as UT
    reach = Reach([CU.parse_chem_formula, CU.write_chem_formula, CU.chem_mass, CU._split_chem_formula, CU._parse_isotope_component,
                   CU._parse_condensed_chem_formula, CU._parse_split_chem_formula, S._parse_glycan_formula, S._glycan_comp,
                   GL.write_glycan_formula, GL.glycan_comp, GL.parse_glycan_formula, MC.glycan_mass, UT.convert_type])
    reach.start()
    iso_keys = list(K.ISOTOPIC_ATOMIC_MASSES.keys())
    plain = [k for k in iso_keys if not k[0].isdigit() and k not in ('D', 'T')]
    isos = [k for k in iso_keys if k[0].isdigit()]
    particles = ['e', 'p', 'n']
    common = ['C', 'H', 'N', 'O', 'S', 'P', 'Se', 'Na', 'Cl', 'Fe', 'Ce', 'Co', 'Cu', 'No', 'Np', 'Ne', 'Pa', 'Pe' if 'Pe' in plain else 'Pb']
    mdb = S.MONOSACCHARIDES_DB
    mono_names = list(mdb.name_map.keys())
    mono_syns = list(mdb.synonym_map.keys())

    def gen_count(zero_ok=True):
        r = rng.random()
        if r < 0.45:
            v = rng.randint(-200, 500)
        elif r < 0.6:
            v = rng.choice([1, 2, 3, 6, 12, -1, 0, 10, 100])
        elif r < 0.92:
            v = round(rng.uniform(-200, 500), rng.randint(1, 4))
        else:
            v = rng.choice([0.0, 1.0, -1.0, 0.5, 0.0001, -0.0001, 2.5, 100.0, 0.1, 0.3])
        if v == 0 and not zero_ok:
            return gen_count(zero_ok)
        if v == 0:
            v = abs(v)  # no negative zero: a rational count cannot carry the sign of -0.0 (outside the model)
        return v

    def gen_key():
        r = rng.random()
        if r < 0.35:
            return rng.choice(common)
        if r < 0.6:
            return rng.choice(plain)
        if r < 0.8:
            return rng.choice(isos)
        if r < 0.9:
            return rng.choice(['D', 'T', '2H', '3H', '13C', '15N', '18O'])
        return rng.choice(particles)

    def gen_comp(maxk=7):
        d = {}
        for _ in range(rng.randint(0, maxk)):
            d[gen_key()] = gen_count()
        return d

    n_w = 3000 if tier == 'quick' else 40000
    comps = [gen_comp() for _ in range(n_w)]
    # every table key at least once
    allk = iso_keys + particles
    for i in range(0, len(allk), 6):
        comps.append({k: gen_count() for k in allk[i:i + 6]})
    comps += [{}, {'C': 0}, {'C': 0, 'H': 0.0}, {'': 3, 'C': 1}, {'C': 1, 'e': 1}, {'Ce': 1}, {'C': 1, 'e': -1, 'H': 1}]
    chk.count('compositions', len(comps))

    wcases = [(d, sep, hill) for d in comps for sep in SEPS for hill in (False, True)]
    chk.correspond('write_chem_formula', DRV, wcases,
                   lambda c: f'write\t{comp_wire(c[0])}\t{enc(c[1])}\t{int(c[2])}',
                   lambda c: show_text(lambda: pt.write_chem_formula(c[0], c[1], c[2])),
                   nontrivial_fn=lambda c, im: len(im) > 6)
    lap('write')

    # parse: the writer's whole output language + hand-made + malformed stream
    def malform(s):
        pos = rng.randint(0, len(s))
        return s[:pos] + rng.choice(['x', '[', ']', '.', '-', '--', ':', ' ', '1', 'Xx', '[]', '[13]', '[13C', 'e', 'E', '1.2.3', '|', '||']) + s[pos:]

    pcases = []
    for d, sep, hill in wcases:
        try:
            w = pt.write_chem_formula(d, sep, hill)
        except Exception:  # noqa
            continue
        pcases.append((w, sep))
        if rng.random() < 0.05:
            pcases.append((malform(w), sep))
        if rng.random() < 0.03:
            pcases.append((w, rng.choice(SEPS)))
    pcases += [(s, '') for s in ['C6H12O6', 'C6H12O-6', '[13C6]H12O6', 'C6[13C6]H12O6', 'CCeH12.2O6D', 'C1[1H-1.2][2H3]D', 'D6H12', '[D6]',
                                 '[T2]', '[D2C3]', '[13C6xyz]', '[13C-]', '[12323]', '[]', 'C[]H', 'e-16.33', 'C6e-2n-2p2', '123', 'C6H12O-',
                                 'C6H12O6ssss', 'C.5', 'C-.5', 'C5.', 'C.', 'C-', 'C1.2.3', 'Cee', 'Ce', 'cE', 'C]', '[13C', '][', '[[13C]]',
                                 'C 6', ' C6', 'C6 ', 'C+6', 'C1e5', 'C1_0', '[13C1_0]', '']]
    pcases += [(s, ' ') for s in ['C 6 H 12 O 6', 'C 1 1H -1 2H 3 D 1', 'C 6 Ce 1 H 12.2', 'e 13 n 12 p 6', 'C', 'C C', 'C 2 C 3', 'C  2',
                                  ' ', '', 'C 1e3', 'C nan', 'C inf', 'C 1_0', 'C +5', '5 5', 'C 5 5']]
    pcases += [(s, '|') for s in ['13C|6|H|12|O|6', 'C|', '|C', 'C||5', 'C|5|', 'H|-1.5|H|2']]
    chk.count('parse_inputs', len(pcases))
    chk.correspond('parse_chem_formula', DRV, pcases, lambda c: f'parse\t{enc(c[0])}\t{enc(c[1])}',
                   lambda c: show_impl_comp(lambda: guarded(pt.parse_chem_formula, c[0], c[1])), compare=cmp_comp,
                   nontrivial_fn=lambda c, im: isinstance(im, list) and len(im) >= 2)
    for s in chk.corr['parse_chem_formula']['samples']:
        s['impl'] = str(s['impl'])[:300]
    lap('parse')

    plain_inputs = [c[0] for c in pcases if c[1] == ''][:: (3 if tier == 'quick' else 1)]

    def split_impl(s):
        try:
            return 'OK ' + '\t'.join(enc(x) for x in guarded(CU._split_chem_formula, s))
        except Hang:
            return 'ERR:HANG'
        except Exception as e:  # noqa
            return 'ERR:' + type(e).__name__
    chk.correspond('_split_chem_formula', DRV, plain_inputs, lambda s: f'split\t{enc(s)}', split_impl,
                   nontrivial_fn=lambda c, im: '\t' in im)
    comps_in = []
    for s in plain_inputs:
        try:
            comps_in += list(CU._split_chem_formula(s))
        except Exception:  # noqa
            pass
    comps_in = list(dict.fromkeys(comps_in))
    chk.correspond('_parse_condensed_chem_formula', DRV, [c for c in comps_in if not c.startswith('[')] + [''],
                   lambda s: f'condensed\t{enc(s)}', lambda s: show_impl_comp(lambda: CU._parse_condensed_chem_formula(s)),
                   compare=lambda a, b: cmp_comp(a, b, ordered=True), nontrivial_fn=lambda c, im: isinstance(im, list) and len(im) >= 2)
    chk.correspond('_parse_isotope_component', DRV, [c[1:-1] for c in comps_in if c.startswith('[')] + ['13C6', 'D6', '13C-6', '13C', '13Ce333', '13Ce1.3', '', '12323', '13C-', 'T2C3', '6', 'C6x'],
                   lambda s: f'isotope\t{enc(s)}', lambda s: show_impl_comp(lambda: CU._parse_isotope_component(s)),
                   compare=lambda a, b: cmp_comp(a, b, ordered=True), nontrivial_fn=lambda c, im: isinstance(im, list) and len(im) >= 1)
    for nm in ('_parse_condensed_chem_formula', '_parse_isotope_component'):
        for s in chk.corr[nm]['samples']:
            s['impl'] = str(s['impl'])[:300]
    lap('components')

    # chem_mass
    mcases = [(d, mono) for d in comps[:: (2 if tier == 'quick' else 1)] for mono in (True, False)]
    mcases += [({'X': 1}, True), ({'C': 1, 'Xx': 2}, False), ({'': 1}, True), ({'e': 1, 'p': 1, 'n': 1}, False)]
    chk.correspond('chem_mass', DRV, mcases, lambda c: f'mass\t{comp_wire(c[0])}\t{int(c[1])}',
                   lambda c: show_float(lambda: pt.chem_mass(c[0], monoisotopic=c[1])), compare=cmp_float,
                   nontrivial_fn=lambda c, im: im.startswith('OK') and len(c[0]) >= 2)
    mscases = [(w, sep, mono) for (w, sep) in pcases[:: (4 if tier == 'quick' else 1)] for mono in (True, False)]
    chk.correspond('chem_mass_str', DRV, mscases, lambda c: f'mass_str\t{enc(c[0])}\t{int(c[2])}\t{enc(c[1])}',
                   lambda c: show_float(lambda: pt.chem_mass(c[0], monoisotopic=c[2], sep=c[1])), compare=cmp_float,
                   nontrivial_fn=lambda c, im: im.startswith('OK') and len(c[0]) >= 4)
    lap('mass')

    # ------------------------------------------------------------ glycans
    def gen_gcount():
        r = rng.random()
        if r < 0.6:
            return rng.randint(-5, 20)
        if r < 0.9:
            v = round(rng.uniform(-5, 20), rng.randint(1, 4))
            return abs(v) if v == 0 else v  # no negative zero (outside the model)
        return rng.choice([1, 1.0, 0, 0.0, -1, 0.5])

    def gen_glycan(maxk=5):
        g = {}
        for _ in range(rng.randint(0, maxk)):
            nm = rng.choice(mono_names) if rng.random() < 0.7 else rng.choice(mono_syns)
            g[nm] = gen_gcount()
        return g

    n_g = 3000 if tier == 'quick' else 40000
    glys = [gen_glycan() for _ in range(n_g)] + [{n: gen_gcount()} for n in mono_names + mono_syns] + [{}]
    gw = [(g, sep) for g in glys for sep in SEPS]
    chk.correspond('write_glycan_formula', DRV, gw, lambda c: f'gwrite\t{comp_wire(c[0])}\t{enc(c[1])}',
                   lambda c: show_text(lambda: pt.write_glycan_formula(c[0], c[1])), nontrivial_fn=lambda c, im: len(im) > 8)
    gp = []
    for g, sep in gw:
        w = pt.write_glycan_formula(g, sep)
        gp.append((w, sep))
        if rng.random() < 0.05:
            gp.append((malform(w), sep))
    # concatenations of written glycan strings and repeated names (repeated names accumulate since fix 4cd4abe)
    for _ in range(len(glys) // 4):
        gp.append((pt.write_glycan_formula(rng.choice(glys)) + pt.write_glycan_formula(rng.choice(glys)), ''))
    gp += [(s, '') for s in ['Hex1Hex2', 'Hex2Fuc1Hex3', 'HexHexHex', 'Hex1.5Hex-1.5', 'HexNAc2Hex3HexNAc1']]
    gp += [(s, '') for s in ['HexNAc2Hex3Neu1', 'HexNAc2.2Hex3.9Neu', 'HexNAc-2Hex3Neu-1', '', 'HexXX', 'Hex2.1.', 'Hex2Hex3', 'Neu5Ac', 'Neu5Ac2',
                             'Neu5', 'Hex+2', 'Hex+-2', 'Hex.5', 'Hex1e3', 'hex', 'HexNAc(S)2', 'en,a-Hex1', 'PS', 'P2S', 'SP', 'Sulf', 'Sulfate',
                             'AcAcetyl', 'AcetylAc', 'dHexd-Hex', 'HexHexNAc', 'HexN', 'HexNAc', 'HexNS', 'HexNAcHexN']]
    gp += [(s, ' ') for s in ['HexNAc 2 Hex 3 Neu5Gc 1', 'Foo 2', 'Hex', 'Hex Hex']]
    chk.correspond('parse_glycan_formula', DRV, gp, lambda c: f'gparse\t{enc(c[0])}\t{enc(c[1])}',
                   lambda c: show_impl_comp(lambda: guarded(pt.parse_glycan_formula, c[0], c[1])), compare=cmp_comp,
                   nontrivial_fn=lambda c, im: isinstance(im, list) and len(im) >= 2)
    for s in chk.corr['parse_glycan_formula']['samples']:
        s['impl'] = str(s['impl'])[:300]
    gsel = glys[:: (2 if tier == 'quick' else 1)] + [{'Foo': 1}, {'Hex': 1, 'Bar': 2}]
    chk.correspond('glycan_comp', DRV, gsel, lambda g: f'gcomp\t{comp_wire(g)}', lambda g: show_impl_comp(lambda: pt.glycan_comp(g)),
                   compare=cmp_comp, nontrivial_fn=lambda c, im: isinstance(im, list) and len(c) >= 2)
    for s in chk.corr['glycan_comp']['samples']:
        s['impl'] = str(s['impl'])[:300]
    gstr = [w for (w, sep) in gp if sep == ''][:: (3 if tier == 'quick' else 1)]
    chk.correspond('glycan_comp_str', DRV, gstr, lambda s: f'gcomp_str\t{enc(s)}', lambda s: show_impl_comp(lambda: pt.glycan_comp(s)),
                   compare=cmp_comp, nontrivial_fn=lambda c, im: isinstance(im, list) and len(im) >= 2)
    for s in chk.corr['glycan_comp_str']['samples']:
        s['impl'] = str(s['impl'])[:300]
    gm = [(g, mono) for g in gsel for mono in (True, False)]
    chk.correspond('glycan_mass', DRV, gm, lambda c: f'gmass\t{comp_wire(c[0])}\t{int(c[1])}',
                   lambda c: show_float(lambda: pt.glycan_mass(c[0], monoisotopic=c[1])), compare=cmp_float,
                   nontrivial_fn=lambda c, im: im.startswith('OK') and len(c[0]) >= 2)
    chk.correspond('glycan_mass_str', DRV, [(s, m) for s in gstr for m in (True, False)], lambda c: f'gmass_str\t{enc(c[0])}\t{int(c[1])}',
                   lambda c: show_float(lambda: pt.glycan_mass(c[0], monoisotopic=c[1])), compare=cmp_float,
                   nontrivial_fn=lambda c, im: im.startswith('OK') and len(c[0]) >= 6)
    lap('glycan')
    chk.rule = ('compositions: 0-7 keys drawn from all keys of the element table (every key at least once), isotope keys, D/T/2H/3H, '
                'e/p/n; counts: integers in [-200,500] or decimals with 1-4 places in the same range, zeros included; every '
                'composition x separators {"", " ", "|"} x hill_order; the parser is run on every writer output, on 5% mutated '
                'outputs and on hand-made inputs; glycans: 0-5 names/synonyms with counts in [-5,20] (integer or decimal). '
                'non-trivial = at least two tokens / keys; distinct = distinct protocol line')

    # ------------------------------------------------------------ oracle on the real code
    big = chk.broken() or tier == 'thorough'

    def drop_zeros(d):
        return {k: v for k, v in d.items() if v != 0}

    def wf_comp(d):
        return all(k != '' and positional(v) for k, v in d.items())

    def same_dict(a, b, tol=1e-9):
        return set(a) == set(b) and all(type(a[k]) is type(b[k]) and abs(a[k] - b[k]) <= tol * max(1, abs(a[k])) for k in a)

    def o_roundtrip(c):
        d, sep, hill = c
        if not wf_comp(d):
            return None
        dz = drop_zeros(d)
        if sep != '' and not dz:
            return None  # outside the stated domain: non-empty compositions for the separated forms
        w = pt.write_chem_formula(d, sep, hill)
        back = pt.parse_chem_formula(w, sep)
        if not same_dict(back, dz, 0):
            return f'parse(write({d}, sep={sep!r}, hill={hill}) = {w!r}) = {back}, expected {dz}'
        for mono in (True, False):
            ms = pt.chem_mass(w, monoisotopic=mono, sep=sep)
            mc = pt.chem_mass(d, monoisotopic=mono)
            if abs(ms - mc) > 1e-6 * max(1, abs(mc)):
                return f'chem_mass({w!r}, mono={mono}) = {ms} but the composition weighs {mc}'
        if hill:
            keys = list(back.keys())
            idx = [K.HILL_ORDER.get(k, 10000) for k in keys]
            if idx != sorted(idx):
                return f'hill_order output {w!r} is not in Hill order'
            # stability (theorem C15Ext.hill_stable): keys with the same Hill index keep the dict order of the composition
            for n in set(idx):
                got = [k for k, i in zip(keys, idx) if i == n]
                want = [k for k in dz if K.HILL_ORDER.get(k, 10000) == n]
                if got != want:
                    chk.count('hill_ties_checked')
                    return f'hill_order output {w!r}: keys of Hill index {n} come as {got}, the composition has them as {want}'
                if len(got) >= 2:
                    chk.count('hill_ties_checked')
        return None

    # quick tier: half of the cases, chosen so that both values of hill_order and every separator are evaluated
    # (wcases[::2] would keep hill_order=False only: the index is 6*composition + 2*separator + hill)
    osel = wcases if big else [c for i, c in enumerate(wcases) if (i // 6 + (i // 2) % 3 + i % 2) % 2 == 0]
    chk.oracle('parse_write_roundtrip', osel, o_roundtrip, nontrivial_fn=lambda c: len(drop_zeros(c[0])) >= 2,
               key_fn=lambda c: repr(c))

    def add_dicts(a, b):
        r = dict(a)
        for k, v in b.items():
            r[k] = r.get(k, 0) + v
        return r

    def o_additive(c):
        d1, d2 = c
        if not (wf_comp(d1) and wf_comp(d2)):
            return None
        w1 = pt.write_chem_formula(d1)
        w2 = pt.write_chem_formula(d2)
        p12 = pt.parse_chem_formula(w1 + w2)
        exp = add_dicts(pt.parse_chem_formula(w1), pt.parse_chem_formula(w2))
        if not same_dict(p12, exp, 1e-12):
            return f'parse({w1!r} + {w2!r}) = {p12}, expected the sum {exp}'
        # repeated elements accumulate
        pp = pt.parse_chem_formula(w1 + w1)
        exp2 = {k: v + v for k, v in pt.parse_chem_formula(w1).items()}
        if not same_dict(pp, exp2, 1e-12):
            return f'parse({w1!r} twice) = {pp}, expected {exp2}'
        # isotopes stay distinct from their element
        for k in list(p12):
            if k[0].isdigit():
                el = k.lstrip('0123456789')
                tot = (drop_zeros(d1).get(k, 0) + drop_zeros(d2).get(k, 0))
                if abs(p12[k] - tot) > 1e-9:
                    return f'isotope key {k!r} of {w1 + w2!r} has count {p12[k]}, expected {tot} (element {el} must not leak into it)'
        return None

    pairs = [(rng.choice(comps), rng.choice(comps)) for _ in range(2000 if not big else 40000)]
    pairs += [({'C': 1}, {'e': 1}), ({'C': 1}, {'e': -1}), ({'13C': 2}, {'C': 3}), ({'N': 1}, {'p': 2}), ({'P': 1}, {'n': 1}), ({'D': 1}, {'H': 1, '2H': 3})]
    chk.oracle('parse_additive', pairs, o_additive, nontrivial_fn=lambda c: len(c[0]) >= 1 and len(c[1]) >= 1, key_fn=repr)

    names_all = sorted(set(mono_names) | set(mono_syns))

    def unambiguous(g):
        """at every item no vocabulary name longer than the written one is a prefix of the remaining text, and the count text
        does not run into the next name"""
        items = [(k, '%s' % (v,)) for k, v in g.items()]
        text = ''.join(k + t for k, t in items)
        pos = 0
        for k, t in items:
            rest = text[pos:]
            for nm in names_all:
                if len(nm) > len(k) and rest.startswith(nm):
                    return False
            after = text[pos + len(k) + len(t):]
            if after and (after[0].isdigit() or after[0] in '+-.'):
                return False
            pos += len(k) + len(t)
        return all(positional(v) for v in g.values())

    def entry_of(k):
        return mdb.get_entry_by_name(k) if mdb.contains_name(k) else mdb.get_entry_by_synonym(k)

    def o_glycan(g):
        if not g:
            return None
        if unambiguous(g):
            w = pt.write_glycan_formula(g)
            back = pt.parse_glycan_formula(w)
            if not same_dict(back, g, 0):
                return f'parse_glycan_formula(write({g}) = {w!r}) = {back}'
        for sep in (' ', '|'):
            w = pt.write_glycan_formula(g, sep)
            back = pt.parse_glycan_formula(w, sep)
            if not same_dict(back, g, 0):
                return f'parse_glycan_formula(write({g}, {sep!r}) = {w!r}, {sep!r}) = {back}'
        # composition and mass are the count-weighted sums over the monosaccharides
        exp = {}
        for k, v in g.items():
            for el, n in pt.parse_chem_formula(entry_of(k).composition).items():
                exp[el] = exp.get(el, 0) + n * v
        got = pt.glycan_comp(g)
        if set(got) != set(exp) or any(abs(got[k] - exp[k]) > 1e-9 * max(1, abs(exp[k])) for k in exp):
            return f'glycan_comp({g}) = {got}, expected {exp}'
        for mono in (True, False):
            em = sum((entry_of(k).mono_mass if mono else entry_of(k).avg_mass) * v for k, v in g.items())
            gm_ = pt.glycan_mass(g, monoisotopic=mono)
            if abs(gm_ - em) > 1e-6 * max(1, abs(em)):
                return f'glycan_mass({g}, mono={mono}) = {gm_}, expected {em}'
        # identically for names and synonyms
        ren = {}
        for k, v in g.items():
            e = entry_of(k)
            alts = [e.name] + list(e.synonyms or [])
            k2 = rng.choice(alts)
            if k2 in ren:
                return None
            ren[k2] = v
        if pt.glycan_comp(ren) != got:
            return f'glycan_comp({ren}) = {pt.glycan_comp(ren)} differs from glycan_comp({g}) = {got}'
        if abs(pt.glycan_mass(ren) - pt.glycan_mass(g)) > 1e-9:
            return f'glycan_mass({ren}) differs from glycan_mass({g})'
        return None

    def unambiguous_items(items):
        text = ''.join(k + '%s' % (v,) for k, v in items)
        pos = 0
        for k, v in items:
            t = '%s' % (v,)
            if any(len(nm) > len(k) and text[pos:].startswith(nm) for nm in names_all):
                return False
            after = text[pos + len(k) + len(t):]
            if after and (after[0].isdigit() or after[0] in '+-.'):
                return False
            pos += len(k) + len(t)
        return all(positional(v) for _, v in items)

    def o_glycan_additive(c):
        g1, g2 = c
        items = list(g1.items()) + list(g2.items())
        if not items or not unambiguous_items(items):
            return None
        w1, w2 = pt.write_glycan_formula(g1), pt.write_glycan_formula(g2)
        exp = dict(g1)
        for k, v in g2.items():
            exp[k] = exp.get(k, 0) + v
        got = pt.parse_glycan_formula(w1 + w2)
        if set(got) != set(exp) or any(abs(got[k] - exp[k]) > 1e-9 for k in exp):
            return f'parse_glycan_formula({w1!r} + {w2!r}) = {got}, expected the sum {exp}'
        for mono in (True, False):
            m12 = pt.glycan_mass(w1 + w2, monoisotopic=mono)
            ms = pt.glycan_mass(g1, monoisotopic=mono) + pt.glycan_mass(g2, monoisotopic=mono)
            if abs(m12 - ms) > 1e-6 * max(1, abs(ms)):
                return f'glycan_mass({w1 + w2!r}, mono={mono}) = {m12}, the parts weigh {ms}'
        c12 = pt.glycan_comp(w1 + w2)
        cs = dict(pt.glycan_comp(g1)) if g1 else {}
        for k, v in (pt.glycan_comp(g2) if g2 else {}).items():
            cs[k] = cs.get(k, 0) + v
        if set(c12) != set(cs) or any(abs(c12[k] - cs[k]) > 1e-6 * max(1, abs(cs[k])) for k in cs):
            return f'glycan_comp({w1 + w2!r}) = {c12}, the parts give {cs}'
        return None

    gpairs = [(rng.choice(glys), rng.choice(glys)) for _ in range(1500 if not big else 30000)]
    gpairs += [({'Hex': 1}, {'Hex': 2}), ({'Hex': 2, 'Fuc': 1}, {'Hex': 3}), ({'HexNAc': 2}, {'HexNAc': 1.5, 'Hex': -1})]
    chk.oracle('glycan_additive', gpairs, o_glycan_additive, nontrivial_fn=lambda c: len(c[0]) >= 1 and len(c[1]) >= 1, key_fn=repr)

    chk.oracle('glycan_roundtrip_linear', glys if big else glys[::2], o_glycan, nontrivial_fn=lambda g: len(g) >= 2, key_fn=repr)
    # ------------------------------------------------------------ history / aliasing (see harness/statecheck_c15.py)
    from .. import statecheck_c15 as SC
    hist = SC.History()
    nstate = 400 if not big else 4000
    plain_common = ['C', 'H', 'N', 'O', 'S', 'P', 'Na', 'Cl', 'Se', 'Fe']
    fstrings = ['C6H12O6', 'H2O', 'C2H3NO', 'CH2', 'C6H12O6N2H2', 'C10[13C6]H12O6', 'C-1H2e-1']
    for _ in range(nstate):
        if rng.random() < 0.6:  # bracket-free formulas (a single component) as well as mixed ones
            d = {k: gen_count(zero_ok=False) for k in rng.sample(plain_common, rng.randint(1, 4))}
        else:
            d = {k: v for k, v in gen_comp(5).items() if k != ''}
        if all(positional(v) for v in d.values()):
            fstrings.append(pt.write_chem_formula(d, '', rng.random() < 0.5))
    fstrings = [f for f in dict.fromkeys(fstrings) if f]
    gstrings = []
    for g in glys[:nstate]:
        if g and all(positional(v) for v in g.values()):
            gstrings.append((pt.write_glycan_formula(g), {k: v for k, v in g.items()}))

    def fdict(f):
        try:
            return pt.parse_chem_formula(f)
        except Exception:  # noqa
            return {}

    iso_sets = [['13C'], ['15N'], ['D'], ['13C', '15N'], ['18O']]
    iso_cases = []
    mix_cases = []
    for f in fstrings:
        d = fdict(f)
        refs = [['parse_chem_formula', [f, '']], ['chem_mass', [f, True, '']], ['chem_mass', [f, False, '']]]
        others = [['apply_isotope_mods_to_composition', [f, rng.choice(iso_sets)]],
                  ['apply_isotope_mods_to_composition', [d, rng.choice(iso_sets)]],
                  ['write_chem_formula', [d, '', True]], ['write_chem_formula', [d, ' ', False]], ['chem_mass', [d, True, '']],
                  ['mod_comp', ['Formula:' + f]], ['mod_mass', ['Formula:' + f, True]], ['mod_mass', ['Formula:' + f + '|INFO:x', False]],
                  ['parse_chem_formula', [f + 'N2H2', '']], ['parse_chem_formula', [pt.write_chem_formula(d, '|'), '|']]]
        mix_cases.append((refs, others))
        iso_cases += [refs[0], others[0], others[1], others[4], others[5]]
    for w, g in gstrings:
        refs = [['parse_glycan_formula', [w, '']], ['glycan_comp', [w]], ['glycan_mass', [w, True]]]
        others = [['glycan_comp', [g]], ['glycan_mass', [g, False]], ['glycan_to_chem', [w]], ['write_glycan_formula', [g, '']],
                  ['mod_comp', ['Glycan:' + w]], ['mod_mass', ['Glycan:' + w, True]], ['parse_glycan_formula', [w + 'Hex2', '']],
                  ['estimate_comp', [1000.0]]]
        mix_cases.append((refs, others))
        iso_cases += [refs[0], refs[1], others[0], others[4]]
    chk.count('state_isolation_calls', len(iso_cases))
    chk.count('state_interleavings', len(mix_cases))

    def o_isolation(call):
        r = SC.isolation(call, hist)
        return None if r is None else json.dumps(r, default=str)

    def o_interleave(c):
        r = SC.interleave(rng, c[0], c[1], hist, steps=6)
        return None if r is None else json.dumps(r, default=str)

    chk.oracle('result_isolation', iso_cases, o_isolation, nontrivial_fn=lambda c: True, key_fn=lambda c: json.dumps(c, default=str))
    chk.oracle('interleaved_calls', mix_cases, o_interleave, nontrivial_fn=lambda c: True,
               key_fn=lambda c: json.dumps(c[0][0], default=str))
    # whole-run history: the earliest answers again, and a sample against a fresh interpreter
    try:
        late = hist.recheck_in_process(300 if not big else 2000) + hist.compare_with_fresh_process(rng, 300 if not big else 2000)
    except RuntimeError as e:
        raise core.InfraError(str(e))
    chk.oracle('whole_run_history', late, lambda it: None if it[1] is None else json.dumps(it[1], default=str),
               nontrivial_fn=lambda it: True, key_fn=lambda it: json.dumps(it[0], default=str))
    lap('oracle')
    rep = reach.stop()
    if rep is not None:
        chk.count('reach_modelled_lines', rep['lines'])
        chk.count('reach_modelled_lines_executed', rep['executed'])
        chk.notes.append('reach: lines of the modelled functions not executed by this run: ' +
                         (json.dumps(rep['uncovered']) if rep['uncovered'] else 'none'))
    if tier == 'thorough':
        chk.leanchecker(['PeptVerif.Props.C15', 'PeptVerif.Props.C15Glycan', 'PeptVerif.Lemmas.NumSpec', 'PeptVerif.Lemmas.NumText',
                         'PeptVerif.Lemmas.FormulaRT', 'PeptVerif.Lemmas.GlycanRT', 'PeptVerif.Model.Formula'])
        lap('leanchecker')
    if chk.generated_changed:
        TV.restore_after_scratch_run()
    return chk.finish(classify)


def run(chk):
    """a check never crashes on an odd tree: an exception escaping a stage (library state the harness did not expect) is
    reported as a failure of the run, with the traceback, not as an infrastructure error"""
    import traceback
    _c = chk.correspond

    def safe_correspond(name, exe, cases, line_fn, impl_fn, compare=None, **kw):
        def cmp(a, b):
            try:
                return compare(a, b)
            except Exception:  # noqa
                return a == b
        return _c(name, exe, cases, line_fn, impl_fn, compare=(cmp if compare else None), **kw)
    chk.correspond = safe_correspond
    try:
        return _run(chk)
    except core.InfraError:
        raise
    except Exception:  # noqa
        tb = traceback.format_exc()
        chk.failures.append({'oracle': 'check_stage_exception', 'case': None,
                             'detail': 'an exception escaped a stage of the check while it was evaluating the implementation '
                                       '(library state or return value the harness did not expect): ' + tb[-1800:]})
        return chk.finish(classify)


def classify(f):
    return None


def replay(chk, obj):
    print(json.dumps(obj, indent=1)[:3000])
    return 0
