"""C13 - static and variable modification builders produce exactly the intended forms."""
import copy
import itertools
import json
from collections import Counter

from .. import core
from .. import annot as W

PID = 'C13'
DRV = 'drv_c13'

REGISTRY = {
    'id': 'C13',
    'text': 'Lean theorems about the hand-written model of mod_builder.py: static_spec (per-index table over matched / pre-modified / '
            'mode, unmatched residues and all other fields untouched), static_skip_idempotent, variable_skip_exact (mode skip: the '
            'output is a permutation of the explicit subset enumeration specForms, duplicate-free when the offered groups are '
            'distinct, the input form is a member) and the weaker clauses for append/overwrite; for rules given as regexes of the '
            'RegexLite subset (literals, classes, look-around forms, multi-character matches, the empty pattern) the matcher '
            '(get_regex_match_range / get_regex_match_indices) is modelled too, the site-list hypotheses are theorems '
            '(pattern_sites_ok) and the statements hold end to end (static_class_rule, static_residue_rule, '
            'variable_skip_exact_patterns); the model is tied to /repo by '
            'differential correspondence (apply_static_mods, apply_variable_mods, _apply_variable_mods_rec; residue strings 1..10, '
            'pre-modified, 1..3 residue/regex targets, 1..3 groups, terminal rules, max_mods 0..4, three modes, both return types) '
            'and the implementation is compared with an independent Python subset enumeration and with the Lean specification',
    'note': 'trusted: Lean kernel, axioms propext/Classical.choice/Quot.sound, the correspondence harness; regexes outside the '
            'RegexLite subset stay outside the model (such rules enter as the site lists computed by get_regex_match_indices and are '
            'compared with an independent reading of every rule in the pool), for the subset the regex -> item list reader is trusted; '
            'Mod value conversion and serialization belong to C10/C01',
    'technique': 'Lean 4 proof about executable model + differential correspondence + independent enumeration oracle',
}

ALPHA = 'PPEEKSTA'
STR_VALS = ['phospho', 'acetyl', 'Oxidation', 'Formula:C2H3NO', 'Glycan:Hex', 'Obs:+17.05', 'amide', 'x', '7', '+3', '2.5']
NUM_VALS = [1, -1, 100, 3.14, 15.995, -18.0106]


# --------------------------------------------------------------------------- rule pool with an independent reading
def _ref(fn):
    return lambda s: [i for i in range(len(s)) if fn(s, i, len(s))]


RULES = {
    'P': _ref(lambda s, i, n: s[i] == 'P'),
    'E': _ref(lambda s, i, n: s[i] == 'E'),
    'K': _ref(lambda s, i, n: s[i] == 'K'),
    'S': _ref(lambda s, i, n: s[i] == 'S'),
    '[ST]': _ref(lambda s, i, n: s[i] in 'ST'),
    '[^PE]': _ref(lambda s, i, n: s[i] not in 'PE'),
    '.': _ref(lambda s, i, n: True),
    '(?<=P)E': _ref(lambda s, i, n: s[i] == 'E' and i > 0 and s[i - 1] == 'P'),
    '(?<!P)E': _ref(lambda s, i, n: s[i] == 'E' and not (i > 0 and s[i - 1] == 'P')),
    'E(?=P)': _ref(lambda s, i, n: s[i] == 'E' and i + 1 < n and s[i + 1] == 'P'),
    'K(?!P)': _ref(lambda s, i, n: s[i] == 'K' and not (i + 1 < n and s[i + 1] == 'P')),
    '(?<=[KS])[PT](?=E)': _ref(lambda s, i, n: s[i] in 'PT' and i > 0 and s[i - 1] in 'KS' and i + 1 < n and s[i + 1] == 'E'),
    'PE': _ref(lambda s, i, n: s[i:i + 2] == 'PE'),
    'PP': _ref(lambda s, i, n: s[i:i + 2] == 'PP'),
    'P[ST]': _ref(lambda s, i, n: s[i] == 'P' and i + 1 < n and s[i + 1] in 'ST'),
    'P+': _ref(lambda s, i, n: s[i] == 'P'),
    'E.K': _ref(lambda s, i, n: s[i] == 'E' and i + 2 < n and s[i + 2] == 'K'),
    '^P': _ref(lambda s, i, n: i == 0 and s[i] == 'P'),
    'E$': _ref(lambda s, i, n: i == n - 1 and s[i] == 'E'),
    'Q': _ref(lambda s, i, n: False),
}
# the regex '' (bare terminal value): zero-length matches at 0..n, shifted by -1
EMPTY_REF = lambda s: list(range(-1, len(s)))  # noqa
RULE_KEYS = list(RULES)
RESIDUE_RULES = ['P', 'E', 'K', 'S']


def ref_sites(seq, rx):
    return EMPTY_REF(seq) if rx == '' else RULES[rx](seq)


RULE_LEN = {'PE': 2, 'PP': 2, 'P[ST]': 2, 'E.K': 3}


def ref_ranges(seq, rx):
    """independent reading of get_regex_match_range (string pattern): (start, end) of every overlapped match"""
    if rx == '':
        return [(i, i) for i in range(len(seq) + 1)]
    out = []
    for i in RULES[rx](seq):
        if rx == 'P+':
            j = i
            while j < len(seq) and seq[j] == 'P':
                j += 1
            out.append((i, j))
        else:
            out.append((i, i + RULE_LEN.get(rx, 1)))
    return out


def impl_sites(seq, rx):
    from peptacular.util import get_regex_match_indices
    return list(get_regex_match_indices(seq, rx, offset=-1))


# --------------------------------------------------------------------------- wire
def to_mod(v):
    from peptacular.proforma.input_convert import convert_to_mod
    return convert_to_mod(copy.deepcopy(v))


def is_scalar(v):
    from peptacular.proforma.proforma_dataclasses import Mod
    return isinstance(v, (str, int, float, Mod))


def w_modsin(v):
    if is_scalar(v):
        return 'O' + W.show_mod(to_mod(v))
    return 'M' + W.show_mods([to_mod(x) for x in v], '&')


def w_varin(v):
    if is_scalar(v):
        return 'O' + W.show_mod(to_mod(v))
    if all(is_scalar(x) for x in v):
        return 'F' + W.show_mods([to_mod(x) for x in v], '&')
    return 'G' + '!'.join(w_modsin(x) for x in v)


def ilist(l):
    return ','.join(str(x) for x in l)


_PAT_CACHE = {}


def pat_wire(rx):
    """wire form of a regex of the RegexLite subset (`kind:chars/kind:chars…`), None when the regex is outside the subset"""
    if rx not in _PAT_CACHE:
        from .. import translate_proteases as tp
        k = {'behind': 'b', 'ahead': 'a', 'aheadNot': 'n', 'notAhead': 'x', 'consume': 'c'}
        try:
            _PAT_CACHE[rx] = '/'.join(f'{k[a]}:{"".join(c)}' for a, c in tp.parse_regex(rx))
        except (tp.Unmodelled, ValueError, IndexError):
            _PAT_CACHE[rx] = None
    return _PAT_CACHE[rx]


def w_target(seq, rx, patterns):
    pw = pat_wire(rx) if patterns else None
    return ilist(impl_sites(seq, rx)) if pw is None else 'P' + pw


def w_rules(seq, d, wv, patterns=False):
    if d is None:
        return 'N'
    return 'D' + ';'.join(f'{w_target(seq, k, patterns)}~{wv(v)}' for k, v in d.items())


def w_term(seq, t, wv, patterns=False):
    if t is None:
        return 'N'
    if isinstance(t, dict):
        return w_rules(seq, t, wv, patterns)
    return 'X' + wv(t)


SUBSET_LETTERS = 'PEKST'


def gen_subset_regex(rng):
    """a random regex of the RegexLite subset over the residue alphabet"""
    def cls():
        k = rng.choice([1, 1, 2, 3])
        cs = ''.join(rng.sample(SUBSET_LETTERS, k))
        return cs if k == 1 and rng.random() < 0.7 else '[' + cs + ']'

    def consume():
        c = cls()
        return '(' + c + ')' if rng.random() < 0.15 else c

    r = rng.random()
    if r < 0.05:
        return ''
    if r < 0.35:                                       # look-behinds, one residue, look-aheads
        pre = ''.join('(?<=' + cls() + ')' for _ in range(rng.choice([0, 0, 1, 1, 2])))
        post = ''.join(rng.choice(['(?=%s)' % cls(), '(?!%s)' % cls(), '(?=[^%s])' % rng.choice(SUBSET_LETTERS)])
                       for _ in range(rng.choice([0, 0, 1, 1, 2])))
        return pre + consume() + post
    if r < 0.55:                                       # zero-width only
        items = ['(?<=' + cls() + ')' for _ in range(rng.choice([0, 1]))]
        items += [rng.choice(['(?=%s)' % cls(), '(?!%s)' % cls(), '(?=[^%s])' % rng.choice(SUBSET_LETTERS)])
                  for _ in range(rng.choice([0, 1, 2]))]
        return ''.join(items)
    items = []                                         # anything, in any order
    for _ in range(rng.randint(1, 4)):
        q = rng.random()
        if q < 0.5:
            items.append(consume())
        elif q < 0.65:
            items.append('(?<=' + cls() + ')')
        elif q < 0.8:
            items.append('(?=' + cls() + ')')
        elif q < 0.9:
            items.append('(?!' + cls() + ')')
        else:
            items.append('(?=[^' + rng.choice(SUBSET_LETTERS) + '])')
    return ''.join(items)


def canon_list(reply):
    if reply in ('bad-op',):
        return reply
    return ' '.join(W.canon_dump(x) for x in reply.split(' ')) if reply else ''


# --------------------------------------------------------------------------- generators
def gen_value(rng):
    from peptacular.proforma.proforma_dataclasses import Mod
    r = rng.random()
    if r < 0.55:
        return rng.choice(STR_VALS)
    if r < 0.85:
        return rng.choice(NUM_VALS)
    return Mod(rng.choice(STR_VALS[:6] + NUM_VALS), rng.choice([1, 2, 3]))


def gen_group(rng):
    return [gen_value(rng) for _ in range(rng.choice([1, 1, 1, 2]))]


def gen_static_value(rng, odd=0.12):
    r = rng.random()
    if r < odd:
        return []
    if r < 0.4:
        return gen_value(rng)
    return gen_group(rng)


def gen_var_value(rng, odd=0.12):
    r = rng.random()
    if r < odd:
        return rng.choice([[], [[]], [[], gen_group(rng)], [gen_group(rng), []]])
    if r < 0.3:
        return gen_value(rng)
    if r < 0.5:
        return gen_group(rng)
    k = rng.choice([1, 2, 2, 3])
    groups = []
    for _ in range(k):
        g = gen_group(rng)
        if rng.random() < 0.15 and groups:
            g = copy.deepcopy(rng.choice(groups))      # the same group offered twice
        if rng.random() < 0.2 and isinstance(g, list) and len(g) == 1:
            g = g[0]                                   # a bare scalar inside the outer list
        groups.append(g)
    if all(is_scalar(g) for g in groups):
        groups[0] = [groups[0]]                        # keep it a list of groups, not one group
    return groups


def gen_rules(rng, gv, kmin=1, kmax=3, residue_p=0.5):
    k = rng.randint(kmin, kmax)
    keys = []
    while len(keys) < k:
        rx = rng.choice(RESIDUE_RULES) if rng.random() < residue_p else rng.choice(RULE_KEYS)
        if rx not in keys:
            keys.append(rx)
    return {rx: gv(rng) for rx in keys}


def gen_term(rng, gv):
    r = rng.random()
    if r < 0.3:
        return None
    if r < 0.5:
        return gv(rng, 0.2)                            # bare value (scalar / list / nested / empty)
    if r < 0.6:
        return {'': gv(rng)}
    if r < 0.65:
        return {}
    d = gen_rules(rng, gv, 1, 2, 0.6)
    if rng.random() < 0.3:
        d[''] = gv(rng)
    return d


def gen_annot(rng, rich_p=0.25):
    n = rng.choice([1, 2, 3, 4, 5, 6, 7, 8, 9, 10])
    kinds = {'nterm', 'cterm', 'internal'}
    if rng.random() < rich_p:
        kinds |= {'labile', 'static', 'isotope', 'unknown', 'intervals', 'charge', 'adducts'}
    a = W.gen_annotation(rng, n, n, residues=ALPHA, p=rng.choice([0.0, 0.3, 0.5, 0.8]), kinds=kinds,
                         value_pool=STR_VALS[:7] + NUM_VALS, max_mods=2, mult_p=0.1)
    return a


MODES = ['skip', 'append', 'overwrite']


def gen_static_case(rng):
    a = gen_annot(rng)
    internal = None if rng.random() < 0.1 else gen_rules(rng, gen_static_value)
    if rng.random() < 0.03:
        internal = {}
    return jcase({'a': W.dump(a), 'internal': internal, 'nterm': gen_term(rng, gen_static_value),
                  'cterm': gen_term(rng, gen_static_value), 'mode': rng.choice(MODES)})


def estimate_forms(c):
    """number of forms the case asks for (to keep single cases small)"""
    c = unjcase(c)
    a = W.undump(c['a'])
    s = a.sequence
    n = len(s)
    int0 = a._internal_mods or {}
    rules = [(k, norm_var_value(v)) for k, v in (c['internal'] or {}).items()]
    free, forced = [], 1
    for i in range(n):
        g = sum(len(groups) for k, groups in rules if i in ref_sites(s, k))
        if g == 0:
            continue
        if i in int0:
            if c['mode'] != 'skip':
                forced *= 1 + g
        else:
            free.append(g)
    # elementary symmetric sums e_0..e_max of the group counts
    e = [1] + [0] * c['max_mods']
    for g in free:
        for k in range(c['max_mods'], 0, -1):
            e[k] += e[k - 1] * g
    nv = 1 + sum(len(groups) for k, groups in norm_term(c['nterm'], norm_var_value, None))
    cv = 1 + sum(len(groups) for k, groups in norm_term(c['cterm'], norm_var_value, None))
    return sum(e) * forced * nv * cv


def gen_var_case(rng, mode=None, cap=1500):
    while True:
        a = gen_annot(rng)
        internal = None if rng.random() < 0.1 else gen_rules(rng, gen_var_value)
        nterm = gen_term(rng, gen_var_value) if rng.random() < 0.6 else None
        cterm = gen_term(rng, gen_var_value) if rng.random() < 0.6 else None
        c = jcase({'a': W.dump(a), 'internal': internal, 'nterm': nterm, 'cterm': cterm,
                   'mode': mode or rng.choice(MODES), 'max_mods': rng.choice([0, 1, 1, 2, 2, 3, 4])})
        if estimate_forms(c) <= cap:
            return c


def jcase(c):
    """JSON-able copy of a case (Mod objects -> ['Mod', val, mult])"""
    from peptacular.proforma.proforma_dataclasses import Mod

    def enc(x):
        if isinstance(x, Mod):
            return {'Mod': [x.val, x.mult]}
        if isinstance(x, list):
            return [enc(y) for y in x]
        if isinstance(x, dict):
            return {k: enc(v) for k, v in x.items()}
        return x
    return enc(c)


def unjcase(c):
    from peptacular.proforma.proforma_dataclasses import Mod

    def dec(x):
        if isinstance(x, dict) and list(x.keys()) == ['Mod']:
            return Mod(x['Mod'][0], x['Mod'][1])
        if isinstance(x, list):
            return [dec(y) for y in x]
        if isinstance(x, dict):
            return {k: dec(v) for k, v in x.items()}
        return x
    return dec(c)


# --------------------------------------------------------------------------- calling the implementation (always on copies)
def call_static(c, return_type='annotation', seq_as_str=False, a=None):
    import peptacular as pt
    c = unjcase(c)
    a = W.undump(c['a']) if a is None else a
    arg = a.serialize() if seq_as_str else a
    return pt.apply_static_mods(arg, copy.deepcopy(c['internal']), nterm_mods=copy.deepcopy(c['nterm']),
                                cterm_mods=copy.deepcopy(c['cterm']), mode=c['mode'], return_type=return_type)


def call_var(c, return_type='annotation', seq_as_str=False):
    import peptacular as pt
    c = unjcase(c)
    a = W.undump(c['a'])
    arg = a.serialize() if seq_as_str else a
    return pt.apply_variable_mods(arg, copy.deepcopy(c['internal']), c['max_mods'], nterm_mods=copy.deepcopy(c['nterm']),
                                  cterm_mods=copy.deepcopy(c['cterm']), mode=c['mode'], return_type=return_type)


def static_line(c):
    c = unjcase(c)
    a = W.undump(c['a'])
    s = a.sequence
    return '\t'.join(['static', c['a'], c['mode'], w_rules(s, c['internal'], w_modsin), w_term(s, c['nterm'], w_modsin),
                      w_term(s, c['cterm'], w_modsin), ilist(impl_sites(s, ''))])


def static_pat_line(c):
    """rules of the RegexLite subset travel as patterns (the model does the matching), the others as site lists"""
    c = unjcase(c)
    a = W.undump(c['a'])
    s = a.sequence
    return '\t'.join(['static_pat', c['a'], c['mode'], w_rules(s, c['internal'], w_modsin, True),
                      w_term(s, c['nterm'], w_modsin, True), w_term(s, c['cterm'], w_modsin, True)])


def var_pat_line(c):
    c = unjcase(c)
    a = W.undump(c['a'])
    s = a.sequence
    return '\t'.join(['variable_pat', c['a'], c['mode'], str(c['max_mods']), w_rules(s, c['internal'], w_varin, True),
                      w_term(s, c['nterm'], w_varin, True), w_term(s, c['cterm'], w_varin, True)])


def var_line(c, op='variable'):
    c = unjcase(c)
    a = W.undump(c['a'])
    s = a.sequence
    return '\t'.join([op, c['a'], c['mode'], str(c['max_mods']), w_rules(s, c['internal'], w_varin),
                      w_term(s, c['nterm'], w_varin), w_term(s, c['cterm'], w_varin), ilist(impl_sites(s, ''))])


# --------------------------------------------------------------------------- independent reference (no library helpers)
def mkey(m):
    """structural key of a Mod (type-tagged value, multiplier)"""
    return (type(m.val).__name__, m.val, m.mult)


def mods_key(l):
    return None if l is None else tuple(mkey(m) for m in l)


def norm_static_value(v):
    """STATIC_MOD_INPUT -> tuple of Mod keys"""
    if is_scalar(v):
        return (mkey(to_mod(v)),)
    return tuple(mkey(to_mod(x)) for x in v)


def norm_var_value(v):
    """VAR_MOD_INPUT -> list of groups (tuples of Mod keys), empty groups dropped"""
    if is_scalar(v):
        gs = [(mkey(to_mod(v)),)]
    elif all(is_scalar(x) for x in v):
        gs = [tuple(mkey(to_mod(x)) for x in v)]
    else:
        gs = [norm_static_value(x) for x in v]
    return [g for g in gs if g]


def norm_term(t, norm, empty):
    """terminal argument -> list of (regex, value) rules"""
    if t is None:
        return []
    if isinstance(t, dict):
        return [(k, norm(v)) for k, v in t.items()]
    if isinstance(t, list) and len(t) == 0:
        return []
    return [('', norm(t))]


def other_fields(dumped):
    f = dumped.split('|')
    return tuple(f[:5] + f[8:])


def fields_of(a):
    """(nterm key, cterm key, {index: mods key}) of an annotation"""
    internal = {k: mods_key(v) for k, v in (a._internal_mods or {}).items()}
    return mods_key(a._nterm_mods), mods_key(a._cterm_mods), internal


def form_key(a):
    nt, ct, internal = fields_of(a)
    return nt, ct, tuple(sorted(internal.items()))


def expected_static(c):
    """the table of the property: (nterm, cterm, internal) expected from apply_static_mods"""
    c = unjcase(c)
    a = W.undump(c['a'])
    s = a.sequence
    n = len(s)
    mode = c['mode']
    nt0, ct0, int0 = fields_of(a)

    def combine(old, offered):
        """old: existing mods or None; offered: list of mod tuples of the matching rules, in rule order"""
        offered = [g for g in offered if g]
        if not offered:
            return old
        if old is None:
            return tuple(x for g in offered for x in g)
        if mode == 'skip':
            return old
        if mode == 'append':
            return old + tuple(x for g in offered for x in g)
        return offered[-1]

    internal_rules = [(k, norm_static_value(v)) for k, v in (c['internal'] or {}).items()]
    res_int = {}
    for i in range(n):
        v = combine(int0.get(i), [g for k, g in internal_rules if i in ref_sites(s, k)])
        if v is not None:
            res_int[i] = v
    for k, v in int0.items():
        if not (0 <= k < n):
            res_int[k] = v
    nrules = norm_term(c['nterm'], norm_static_value, None)
    crules = norm_term(c['cterm'], norm_static_value, None)
    nt = combine(nt0, [g for k, g in nrules if 0 in ref_sites(s, k)])
    ct = combine(ct0, [g for k, g in crules if (n - 1) in ref_sites(s, k)])
    return nt, ct, res_int


def var_reference(c):
    """skip mode: (Counter of expected form keys, distinct?)"""
    c = unjcase(c)
    a = W.undump(c['a'])
    s = a.sequence
    n = len(s)
    nt0, ct0, int0 = fields_of(a)
    rules = [(k, norm_var_value(v)) for k, v in (c['internal'] or {}).items()]
    offered = {}
    for i in range(n):
        gs = [g for k, groups in rules if i in ref_sites(s, k) for g in groups]
        if gs and i not in int0:
            offered[i] = gs
    distinct = all(len(set(gs)) == len(gs) for gs in offered.values())
    nvars = [nt0]
    if nt0 is None:
        gs = [g for k, groups in norm_term(c['nterm'], norm_var_value, None) if 0 in ref_sites(s, k) for g in groups]
        distinct = distinct and len(set(gs)) == len(gs)
        nvars += gs
    cvars = [ct0]
    if ct0 is None:
        gs = [g for k, groups in norm_term(c['cterm'], norm_var_value, None) if (n - 1) in ref_sites(s, k) for g in groups]
        distinct = distinct and len(set(gs)) == len(gs)
        cvars += gs
    exp = Counter()
    sites = sorted(offered)
    for k in range(0, min(c['max_mods'], len(sites)) + 1):
        for T in itertools.combinations(sites, k):
            for choice in itertools.product(*[offered[i] for i in T]):
                internal = dict(int0)
                internal.update(zip(T, choice))
                ik = tuple(sorted(internal.items()))
                for nv in nvars:
                    for cv in cvars:
                        exp[(nv, cv, ik)] += 1
    return exp, distinct


def candidates_other_modes(c):
    """append/overwrite: per index the set of allowed values; terminal candidates; distinctness of the candidates"""
    c = unjcase(c)
    a = W.undump(c['a'])
    s = a.sequence
    n = len(s)
    mode = c['mode']
    nt0, ct0, int0 = fields_of(a)

    def cand(old, groups):
        out = [old]
        for g in groups:
            if old is None:
                out.append(g)
            elif mode == 'append':
                out.append(old + g)
            else:
                out.append(g)
        return out

    rules = [(k, norm_var_value(v)) for k, v in (c['internal'] or {}).items()]
    per = {}
    distinct = True
    for i in range(n):
        gs = [g for k, groups in rules if i in ref_sites(s, k) for g in groups]
        per[i] = cand(int0.get(i), gs)
        distinct = distinct and len(set(per[i])) == len(per[i])
    ngs = [g for k, groups in norm_term(c['nterm'], norm_var_value, None) if 0 in ref_sites(s, k) for g in groups]
    cgs = [g for k, groups in norm_term(c['cterm'], norm_var_value, None) if (n - 1) in ref_sites(s, k) for g in groups]
    ncand, ccand = cand(nt0, ngs), cand(ct0, cgs)

    def term_distinct(cands):
        # the implementation drops a terminal variant that is multiset-equal to the current state; the others must differ
        rest = [x for x in cands[1:] if cands[0] is None or Counter(x) != Counter(cands[0])]
        return len(set(rest)) == len(rest)
    distinct = distinct and term_distinct(ncand) and term_distinct(ccand)
    return per, ncand, ccand, distinct, int0


# --------------------------------------------------------------------------- oracles
def o_sites(c):
    s, rx = c
    got = impl_sites(s, rx)
    exp = ref_sites(s, rx)
    return None if got == exp else f'get_regex_match_indices({s!r}, {rx!r}, offset=-1) = {got}, independent reading {exp}'


def o_ranges(c):
    from peptacular.util import get_regex_match_range, get_regex_match_indices
    s_, rx = c
    got = list(get_regex_match_range(s_, rx))
    exp = ref_ranges(s_, rx)
    if got != exp:
        return f'get_regex_match_range({s_!r}, {rx!r}) = {got}, independent reading {exp}'
    got3 = list(get_regex_match_range(s_, rx, offset=3))
    if got3 != [(a_ + 3, b_ + 3) for a_, b_ in exp]:
        return f'get_regex_match_range({s_!r}, {rx!r}, offset=3) = {got3}'
    idx = list(get_regex_match_indices(s_, rx, offset=-1))
    if idx != [(a_ if a_ != b_ else a_ - 1) for a_, b_ in exp]:
        return f'get_regex_match_indices({s_!r}, {rx!r}, offset=-1) = {idx} is not start(+1)-1 of the ranges {exp}'
    return None


def roundtrips(a):
    import peptacular as pt
    try:
        return W.dump(pt.parse(a.serialize())) == W.dump(a)
    except Exception:  # noqa
        return False


def check_static_res(c, res):
    """the annotation `res` returned for the arguments of case `c` against the table of the property"""
    before = c['a']
    if other_fields(W.dump(res)) != other_fields(before):
        return f'fields other than terminal/internal mods changed: {W.dump(res)}'
    nt, ct, internal = fields_of(res)
    ent, ect, eint = expected_static(c)
    if internal != eint:
        return f'internal mods {internal} != table {eint}'
    if nt != ent:
        return f'N-terminal mods {nt} != table {ent}'
    if ct != ect:
        return f'C-terminal mods {ct} != table {ect}'
    return None


def o_static(c):
    a = W.undump(c['a'])
    before = W.dump(a)
    res = call_static(c, a=a)
    if W.dump(a) != before:
        return 'the annotation passed in was modified'
    r = check_static_res(c, res)
    if r is not None:
        return r
    if c['mode'] == 'skip':
        again = call_static(c, a=copy.deepcopy(res))
        if W.dump(again) != W.dump(res):
            return f'second application in skip mode changed the result: {W.dump(res)} -> {W.dump(again)}'
    s = call_static(c, 'str')
    if s != res.serialize():
        return f"return_type='str' gives {s!r}, the annotation serializes to {res.serialize()!r}"
    if roundtrips(a):
        s2 = call_static(c, 'str', seq_as_str=True)
        if s2 != s:
            return f'string input gives {s2!r}, annotation input {s!r}'
    return None


def check_var_res(c, res):
    """the list of annotations `res` returned for the arguments of case `c` against the subset enumeration (skip) /
    the weaker clauses (append, overwrite)"""
    a = W.undump(c['a'])
    before = c['a']
    of = other_fields(before)
    for r in res:
        if other_fields(W.dump(r)) != of:
            return f'a form changed residues or other fields: {W.dump(r)}'
    # the statement of Props/C13Ext.lean `variable_max_mods_bound`, on the implementation, in every mode: at most
    # max_mods modified residues (dict keys) more than the input
    if c['max_mods'] >= 0:
        n0 = len(fields_of(a)[2])
        for r in res:
            if len(fields_of(r)[2]) > n0 + c['max_mods']:
                return (f'{len(fields_of(r)[2])} modified residues in a returned form, the input has {n0}, '
                        f'max_mods={c["max_mods"]}: {W.dump(r)}')
    keys = [form_key(r) for r in res]
    got = Counter(keys)
    if form_key(a) not in got:
        return 'the input form is not among the results'
    if c['mode'] == 'skip':
        exp, distinct = var_reference(c)
        if set(got) != set(exp):
            extra = [k for k in got if k not in exp][:2]
            missing = [k for k in exp if k not in got][:2]
            return f'forms differ from the subset enumeration: unexpected {extra} missing {missing}'
        if distinct:
            dup = [k for k, v in got.items() if v > 1][:2]
            if dup:
                return f'form returned more than once: {dup}'
    else:
        per, ncand, ccand, distinct, int0 = candidates_other_modes(c)
        n = len(a.sequence)
        for r in res:
            nt, ct, internal = fields_of(r)
            if nt not in ncand:
                return f'N-terminus {nt} is neither the input state nor an offered variant {ncand}'
            if ct not in ccand:
                return f'C-terminus {ct} is neither the input state nor an offered variant {ccand}'
            for k in set(internal) | set(int0):
                if 0 <= k < n:
                    if internal.get(k) not in per[k]:
                        return f'index {k}: {internal.get(k)} not in the allowed states {per[k]}'
                elif internal.get(k) != int0.get(k):
                    return f'index {k} outside the sequence changed'
            new_sites = [k for k in internal if k not in int0]
            if len(new_sites) > c['max_mods']:
                return f'{len(new_sites)} previously unmodified residues were modified, max_mods={c["max_mods"]}'
        if distinct:
            dup = [k for k, v in got.items() if v > 1][:2]
            if dup:
                return f'form returned more than once: {dup}'
    return None


def o_var(c):
    a = W.undump(c['a'])
    res = call_var(c)
    r = check_var_res(c, res)
    if r is not None:
        return r
    strs = call_var(c, 'str')
    if strs != [r.serialize() for r in res]:
        return "return_type='str' is not the serialization of return_type='annotation'"
    if roundtrips(a):
        s2 = call_var(c, 'str', seq_as_str=True)
        if s2 != strs:
            return 'string input and annotation input give different results'
    return None



# --------------------------------------------------------------------------- call sequences (state leaking between calls)
def snap(obj):
    """type- and order-sensitive snapshot of a rule object"""
    return json.dumps(jcase(obj))


def gen_seq_case(rng):
    """two peptides, ONE set of rule objects, a list of calls in which one parameter changes from call to call"""
    static_ok = rng.random() < 0.6
    gv = gen_static_value if static_ok else gen_var_value
    while True:
        peps = [W.dump(gen_annot(rng, 0.1)) for _ in range(2)]
        base = {'internal': gen_rules(rng, gv, 1, 3), 'nterm': gen_term(rng, gv), 'cterm': gen_term(rng, gv)}
        if rng.random() < 0.5 and base['nterm'] is None:
            base['nterm'] = gv(rng)
        worst = max(estimate_forms(jcase({'a': p_, **base, 'mode': m_, 'max_mods': 3})) for p_ in peps for m_ in MODES)
        if worst <= 300:
            break
    cur = {'fn': rng.choice(['static', 'variable']) if static_ok else 'variable', 'mode': rng.choice(MODES),
           'max_mods': rng.choice([0, 1, 2]), 'return_type': rng.choice(['annotation', 'str']), 'use_n': True, 'use_c': True,
           'reversed': False, 'pep': 0, 'as_str': False, 'mutate': rng.random() < 0.7}
    steps = [dict(cur)]
    for _ in range(rng.randint(4, 9)):
        what = rng.choice(['mode', 'max_mods', 'return_type', 'use_n', 'use_c', 'reversed', 'pep', 'as_str', 'fn', 'same'])
        if what == 'mode':
            cur['mode'] = rng.choice([m_ for m_ in MODES if m_ != cur['mode']])
        elif what == 'max_mods':
            cur['max_mods'] = rng.choice([m_ for m_ in (0, 1, 2, 3) if m_ != cur['max_mods']])
        elif what == 'return_type':
            cur['return_type'] = 'str' if cur['return_type'] == 'annotation' else 'annotation'
        elif what == 'fn' and static_ok:
            cur['fn'] = 'static' if cur['fn'] == 'variable' else 'variable'
        elif what in ('use_n', 'use_c', 'reversed', 'as_str'):
            cur[what] = not cur[what]
        elif what == 'pep':
            cur['pep'] = 1 - cur['pep']
        cur['mutate'] = rng.random() < 0.7
        steps.append(dict(cur))
    return jcase({'peps': peps, **base, 'steps': steps})


def step_case(c, st):
    """the arguments of one call as an ordinary (JSON) case, for the reference"""
    def rev(d):
        return {k: d[k] for k in reversed(list(d))} if isinstance(d, dict) and st['reversed'] else d
    out = {'a': c['peps'][st['pep']], 'internal': rev(c['internal']), 'nterm': rev(c['nterm']) if st['use_n'] else None,
           'cterm': rev(c['cterm']) if st['use_c'] else None, 'mode': st['mode']}
    if st['fn'] == 'variable':
        out['max_mods'] = st['max_mods']
    return out


def vandalise(res):
    """edit what a call returned (a cached object handed out would now be wrong for the next caller)"""
    from peptacular.proforma.proforma_parser import ProFormaAnnotation
    items = res if isinstance(res, list) else [res]
    for x in items:
        if isinstance(x, ProFormaAnnotation):
            x._sequence = 'W' + x._sequence
            x._nterm_mods = (x._nterm_mods or []) + [to_mod('vandal')]
            if x._internal_mods:
                for v in x._internal_mods.values():
                    v.append(to_mod('vandal'))
                x._internal_mods[99] = [to_mod('vandal')]
            x._cterm_mods = None
    if isinstance(res, list):
        res.append('vandal')
        res.reverse()


def run_sequence(c, order):
    """one pass over the calls of `c` (order = indices of the steps); all calls share the peptide and rule OBJECTS"""
    import peptacular as pt
    c = unjcase(c)
    objs = {'internal': c['internal'], 'nterm': c['nterm'], 'cterm': c['cterm']}
    revs = {k: ({kk: v[kk] for kk in reversed(list(v))} if isinstance(v, dict) else v) for k, v in objs.items()}  # same value objects
    peps = [W.undump(d) for d in c['peps']]
    pep_strs = [p_.serialize() if roundtrips(p_) else None for p_ in peps]
    snaps = {k: snap(v) for k, v in objs.items()}
    first = {}

    def issue(i):
        st = c['steps'][i]
        src = revs if st['reversed'] else objs
        internal = src['internal']
        nterm = src['nterm'] if st['use_n'] else None
        cterm = src['cterm'] if st['use_c'] else None
        seq_arg = peps[st['pep']]
        if st['as_str'] and pep_strs[st['pep']] is not None:
            seq_arg = pep_strs[st['pep']]
        sc = jcase(step_case(c, st))
        if st['fn'] == 'static':
            res = pt.apply_static_mods(seq_arg, internal, nterm_mods=nterm, cterm_mods=cterm, mode=st['mode'],
                                       return_type=st['return_type'])
            ann = res if st['return_type'] == 'annotation' else pt.apply_static_mods(
                seq_arg, internal, nterm_mods=nterm, cterm_mods=cterm, mode=st['mode'], return_type='annotation')
            msg = check_static_res(sc, ann)
            if msg is None and st['return_type'] == 'str' and res != ann.serialize():
                msg = f"return_type='str' gives {res!r}, the annotation serializes to {ann.serialize()!r}"
            canon = res if st['return_type'] == 'str' else W.dump(res)
        else:
            res = pt.apply_variable_mods(seq_arg, internal, st['max_mods'], nterm_mods=nterm, cterm_mods=cterm,
                                         mode=st['mode'], return_type=st['return_type'])
            ann = res if st['return_type'] == 'annotation' else pt.apply_variable_mods(
                seq_arg, internal, st['max_mods'], nterm_mods=nterm, cterm_mods=cterm, mode=st['mode'],
                return_type='annotation')
            msg = check_var_res(sc, ann)
            if msg is None and st['return_type'] == 'str' and res != [x.serialize() for x in ann]:
                msg = "return_type='str' is not the serialization of return_type='annotation'"
            canon = list(res) if st['return_type'] == 'str' else [W.dump(x) for x in res]
        if msg is not None:
            return None, f'call #{i} {st}: {msg}'
        if st['mutate']:
            vandalise(res)
            if ann is not res:
                vandalise(ann)
        for k, v in objs.items():
            if snap(v) != snaps[k]:
                return None, f'call #{i} {st}: the caller\'s {k} rule object changed: {snaps[k]} -> {snap(v)}'
        for j, p_ in enumerate(peps):
            if W.dump(p_) != c['peps'][j]:
                return None, f'call #{i} {st}: the annotation passed in (peptide {j}) changed: {W.dump(p_)}'
        return canon, None

    for i in order:
        canon, msg = issue(i)
        if msg is not None:
            return msg
        first.setdefault(i, canon)
    for i in order[:2]:                                   # the earliest calls again, after everything else
        canon, msg = issue(i)
        if msg is not None:
            return 're-issued ' + msg
        if canon != first[i]:
            return f're-issued call #{i} {c["steps"][i]} answers differently: {str(canon)[:300]} vs first {str(first[i])[:300]}'
    return None


def o_sequence(c):
    n = len(c['steps'])
    r = run_sequence(c, list(range(n)))
    if r is not None:
        return 'forward: ' + r
    r = run_sequence(c, list(range(n - 1, -1, -1)))
    if r is not None:
        return 'backward: ' + r
    return None


def fresh_eval(c):
    """evaluate a call sequence in a NEW interpreter: leaked state from earlier trials must not decide the outcome"""
    import os
    import subprocess
    import sys
    env = dict(os.environ)
    env['PYTHONPATH'] = os.pathsep.join(p_ for p_ in [os.path.join(core.REPO, 'src') if os.environ.get('VERIF_REPO') else '',
                                                      core.VERIF, env.get('PYTHONPATH', '')] if p_)
    code = 'import json,sys\nfrom harness.props import c13\nprint(json.dumps(c13.o_sequence(json.load(sys.stdin))))'
    p_ = subprocess.run([sys.executable, '-W', 'ignore', '-c', code], input=json.dumps(c), capture_output=True, text=True,
                        cwd='/tmp', env=env, timeout=120)
    if p_.returncode != 0:
        return None
    return json.loads(p_.stdout.strip().split('\n')[-1])


def fresh_fails(c):
    return fresh_eval(c) is not None


def shrink_seq(c, fails):
    """drop calls, then rules, while the sequence still fails"""
    c = copy.deepcopy(c)
    c['steps'] = core.shrink_list(c['steps'], lambda st: len(st) >= 1 and fails({**c, 'steps': st}), 1)
    for key in ('nterm', 'cterm'):
        if c[key] is not None and fails({**c, key: None}):
            c[key] = None
    if isinstance(c['internal'], dict):
        for k in list(c['internal']):
            if len(c['internal']) > 1:
                d = {kk: vv for kk, vv in c['internal'].items() if kk != k}
                if fails({**c, 'internal': d}):
                    c['internal'] = d
    return c


def shrink_case(c, fails):
    """greedy structural shrinking: drop rules, terminal args, pre-existing mods, residues, max_mods"""
    c = copy.deepcopy(c)
    changed = True
    while changed:
        changed = False
        cands = []
        for key in ('nterm', 'cterm', 'internal'):
            if c[key] is not None:
                cands.append({**c, key: None})
                if isinstance(c[key], dict) and len(c[key]) > 1:
                    for k in c[key]:
                        cands.append({**c, key: {kk: vv for kk, vv in c[key].items() if kk != k}})
                if isinstance(c[key], dict):
                    for k, v in c[key].items():
                        if isinstance(v, list) and len(v) > 1:
                            for j in range(len(v)):
                                cands.append({**c, key: {**c[key], k: v[:j] + v[j + 1:]}})
        if c.get('max_mods', 0) > 0:
            cands.append({**c, 'max_mods': c['max_mods'] - 1})
        a = W.undump(c['a'])
        for fld in ('_labile_mods', '_static_mods', '_isotope_mods', '_unknown_mods', '_intervals', '_charge', '_charge_adducts',
                    '_nterm_mods', '_cterm_mods'):
            if getattr(a, fld) is not None:
                b = copy.deepcopy(a)
                setattr(b, fld, None)
                cands.append({**c, 'a': W.dump(b)})
        for k in list((a._internal_mods or {})):
            b = copy.deepcopy(a)
            b._internal_mods.pop(k)
            if not b._internal_mods:
                b._internal_mods = None
            cands.append({**c, 'a': W.dump(b)})
        if len(a._sequence) > 1 and a._intervals is None:
            for j in range(len(a._sequence)):
                b = copy.deepcopy(a)
                b._sequence = a._sequence[:j] + a._sequence[j + 1:]
                if b._internal_mods:
                    b._internal_mods = {(k if k < j else k - 1): v for k, v in b._internal_mods.items() if k != j} or None
                cands.append({**c, 'a': W.dump(b)})
        for cand in cands:
            try:
                if fails(cand):
                    c = copy.deepcopy(cand)
                    changed = True
                    break
            except Exception:  # noqa
                continue
    return c


def start_reach(funcs):
    """record which lines of the modelled functions the inputs of this run execute (sys.monitoring, Python 3.12)"""
    import sys
    mon = getattr(sys, 'monitoring', None)
    if mon is None:
        return None
    tool = mon.PROFILER_ID
    try:
        mon.use_tool_id(tool, 'c13reach')
    except ValueError:
        return None
    hit = set()
    codes = {f.__code__ for f in funcs}

    def on_line(code, line):
        if code in codes:
            hit.add((code.co_name, line))
        return mon.DISABLE

    mon.register_callback(tool, mon.events.LINE, on_line)
    for c in codes:
        mon.set_local_events(tool, c, mon.events.LINE)
    return {'hit': hit, 'codes': codes, 'tool': tool}


def stop_reach(st):
    import sys
    if st is None:
        return None
    mon = sys.monitoring
    for c in st['codes']:
        mon.set_local_events(st['tool'], c, 0)
    mon.register_callback(st['tool'], mon.events.LINE, None)
    mon.free_tool_id(st['tool'])
    missed = {}
    total = 0
    for c in st['codes']:
        lines = {ln for (_, _, ln) in c.co_lines() if ln is not None and ln != c.co_firstlineno}
        total += len(lines)
        miss = sorted(ln for ln in lines if (c.co_name, ln) not in st['hit'])
        if miss:
            missed[c.co_name] = miss
    return total, missed


def load_corpus():
    import glob
    import os
    out = []
    for p in sorted(glob.glob(os.path.join(core.VERIF, 'corpus', PID, '*.jsonl'))):
        for line in open(p):
            line = line.strip()
            if line:
                out.append(json.loads(line))
    return out


def run(chk):
    import peptacular as pt  # noqa
    tier = chk.tier
    rng = chk.rng
    chk.lean_build(['PeptVerif.Props.C13', 'PeptVerif.Props.C13Ext'], DRV)
    chk.trusted += [
        'the regex engine is outside the Lean model: every rule enters the model as the site list computed by the implementation '
        '(get_regex_match_indices(sequence, rule, offset=-1)); the site finder is compared with an independent reading of each of the '
        f'{len(RULES) + 1} rules of the pool (single residues, classes, look-behind/look-ahead forms, multi-character matches, anchors)',
        'for regexes of the RegexLite subset (literals, classes, sequences of them, (?<=[..]) (?=[..]) (?=[^..]) (?![..]), the empty '
        'pattern) the matcher is inside the model as well (matchRanges / matchIndices / modSites = get_regex_match_range / '
        'get_regex_match_indices with finditer(overlapped=True)), tied by correspondence on strings over the residue alphabet; the '
        'regex -> item-list reader (harness/translate_proteases.parse_regex) is trusted; any other regex keeps entering as a site list',
        'modelled: apply_static_mods, _apply_variable_mods_rec, _variable_mods_builder, apply_variable_mods, ProFormaAnnotation.'
        'add_internal_mod/add_nterm_mods/add_cterm_mods/has_internal_mods_at_index/count_modified_residues/__eq__, fix_list_of_mods, '
        'fix_list_of_list_of_mods, remove_empty_list_of_list_of_mods; not modelled: convert_to_mod/convert_type (C10), parse/serialize '
        "(C01; return_type='str' and string inputs are checked by the oracle as projections), the ValueError for an invalid mode, "
        'zero-length regex matches for residue rules (the code writes them at index start-1, possibly -1), argument mutation by '
        'fix_list_of_mods (C08; the harness passes deep copies)',
        'mod values are drawn from a pool without int/float pairs of equal value, so that Python == on Mod agrees with the structural '
        'equality of the model',
    ]
    quick = tier == 'quick'
    corpus = load_corpus()
    from peptacular.sequence import mod_builder as _mb
    from peptacular.proforma import input_convert as _ic
    from peptacular import util as _ut
    reach = start_reach([_mb.apply_static_mods, _mb.apply_variable_mods, _mb._apply_variable_mods_rec, _mb._variable_mods_builder,
                         _ic.fix_list_of_mods, _ic.fix_list_of_list_of_mods, _ic.remove_empty_list_of_list_of_mods,
                         _ut.get_regex_match_indices])

    # ------------------------------------------------------------------ cases
    n_static = 1500 if quick else 15000
    n_var = 1500 if quick else 12000
    static_cases = [c for c in corpus if 'max_mods' not in c and 'steps' not in c] + [gen_static_case(rng) for _ in range(n_static)]
    var_cases = [c for c in corpus if 'max_mods' in c and 'steps' not in c]
    for _ in range(n_var):
        r = rng.random()
        var_cases.append(gen_var_case(rng, 'skip' if r < 0.5 else None))
    # small exhaustive block: every string of length 1..3 (quick) / 1..4 over {P,E,K} with a fixed rich rule set
    L = 3 if quick else 4
    from peptacular.proforma.proforma_parser import ProFormaAnnotation
    for k in range(1, L + 1):
        for t in itertools.product('PEK', repeat=k):
            s = ''.join(t)
            for pre in range(3):
                a = ProFormaAnnotation(_sequence=s)
                if pre == 1:
                    a._internal_mods = {0: [to_mod('x')]}
                    a._nterm_mods = [to_mod('acetyl')]
                if pre == 2:
                    a._internal_mods = {k - 1: [to_mod(1)]}
                    a._cterm_mods = [to_mod('amide')]
                for mode in MODES:
                    for mx in ((1, 2) if quick else (0, 1, 2, 3)):
                        var_cases.append({'a': W.dump(a), 'internal': {'P': [['phospho'], [1]], '(?<=P)E': 'x', 'PE': ['y', 2]},
                                          'nterm': {'P': 'A', '': [['B']]}, 'cterm': 'C', 'mode': mode, 'max_mods': mx})
                    static_cases.append({'a': W.dump(a), 'internal': {'P': ['phospho', 1], '(?<=P)E': 'x', 'PE': ['y']},
                                         'nterm': {'P': 'A', '': ['B']}, 'cterm': 'C', 'mode': mode})

    for c in static_cases:
        chk.count('static:mode=' + c['mode'])
        chk.count('len=%d' % len(W.undump(c['a']).sequence))
    for c in var_cases:
        chk.count('variable:mode=' + c['mode'])
        chk.count('variable:max_mods=%d' % c['max_mods'])
        chk.count('variable:terms=%s%s' % ('n' if c['nterm'] is not None else '-', 'c' if c['cterm'] is not None else '-'))

    chk.rule = ('random annotations on residue strings of length 1..10 over {P,E,K,S,T,A} with pre-existing N-/C-terminal and residue '
                'mods (a quarter also with labile/static/isotope/unknown/interval/charge fields); rule dicts of 1..3 targets from a pool of '
                f'{len(RULES)} residue / class / look-around / multi-character regexes, values as scalar, list, list of 1..3 groups, empty '
                'lists; terminal arguments None, bare value, {} or dict with and without residue conditions; max_mods 0..4; three modes; '
                'plus every string of length <=%d over {P,E,K} x 3 pre-modification patterns x modes x max_mods with a fixed rich rule set; '
                'non-trivial = static result differs from the input / variable result has at least 3 forms; distinct = distinct '
                'protocol line') % L

    # ------------------------------------------------------------------ correspondence
    memo = {}

    def impl_static(c):
        if id(c) not in memo:
            memo[id(c)] = W.dump(call_static(c))
        return memo[id(c)]

    def impl_var(c):
        if id(c) not in memo:
            memo[id(c)] = ' '.join(W.dump(x) for x in call_var(c))
        return memo[id(c)]

    chk.correspond('apply_static_mods', DRV, static_cases, static_line, impl_static,
                   compare=lambda im, m: im == W.canon_dump(m),
                   nontrivial_fn=lambda c, im: im != c['a'])

    chk.correspond('apply_variable_mods', DRV, var_cases, var_line, impl_var,
                   compare=lambda im, m: im == canon_list(m),
                   nontrivial_fn=lambda c, im: im.count(' ') >= 2)

    # ------------------------------------------------------------------ the regex subset inside the model
    # (a) the matcher: get_regex_match_range / get_regex_match_indices against matchRanges / matchIndices
    from peptacular.util import get_regex_match_range, get_regex_match_indices
    in_subset = [rx for rx in RULE_KEYS + [''] if pat_wire(rx) is not None]
    chk.notes.append('rules of the pool inside the RegexLite subset (matched by the model): %s; outside (enter as site lists): %s'
                     % (in_subset, [rx for rx in RULE_KEYS if pat_wire(rx) is None]))
    rx_strings = [''.join(t) for k in range(0, 4 if quick else 6) for t in itertools.product('PEKST', repeat=k)]
    rx_cases = [(s_, rx) for s_ in rx_strings[::(2 if quick else 1)] for rx in in_subset]
    for _ in range(3000 if quick else 40000):
        rx = gen_subset_regex(rng)
        if pat_wire(rx) is None:
            continue
        rx_cases.append((''.join(rng.choice(ALPHA) for _ in range(rng.randint(0, 10))), rx))
    for s_, rx in rx_cases[:50]:
        chk.count('subset-regex-sample:' + rx)
    chk.correspond('get_regex_match_range', DRV, rx_cases, lambda c: f'ranges\t{pat_wire(c[1])}\t{c[0]}',
                   lambda c: ','.join(f'{a_}:{b_}' for a_, b_ in get_regex_match_range(c[0], c[1])),
                   nontrivial_fn=lambda c, im: bool(im))
    idx_cases = [(s_, rx, off) for (s_, rx) in rx_cases for off in (-1, 0)]
    chk.correspond('get_regex_match_indices', DRV, idx_cases, lambda c: f'indices\t{pat_wire(c[1])}\t{c[0]}\t{c[2]}',
                   lambda c: ilist(get_regex_match_indices(c[0], c[1], offset=c[2])),
                   nontrivial_fn=lambda c, im: bool(im))

    # (b) end to end: the same cases, rules of the subset given to the model as patterns
    def uses_pattern(c):
        c = unjcase(c)
        ds = [d for d in (c['internal'], c['nterm'], c['cterm']) if isinstance(d, dict)]
        return any(pat_wire(k) is not None for d in ds for k in d) or any(
            c[k] is not None and not isinstance(c[k], dict) for k in ('nterm', 'cterm'))

    chk.correspond('apply_static_mods(patterns)', DRV, static_cases, static_pat_line, impl_static,
                   compare=lambda im, m: im == W.canon_dump(m),
                   nontrivial_fn=lambda c, im: im != c['a'] and uses_pattern(c))
    chk.correspond('apply_variable_mods(patterns)', DRV, var_cases, var_pat_line, impl_var,
                   compare=lambda im, m: im == canon_list(m),
                   nontrivial_fn=lambda c, im: im.count(' ') >= 2 and uses_pattern(c))

    # _apply_variable_mods_rec called directly (also with max counts below the starting count and negative)
    from peptacular.sequence import mod_builder as mb
    rec_cases = []
    for _ in range(600 if quick else 6000):
        a = gen_annot(rng, 0.0)
        n = len(a.sequence)
        mm = {}
        for i in rng.sample(range(-1, n + 1), rng.randint(0, min(n + 2, 5))):
            mm[i] = [[to_mod(x) for x in gen_group(rng)] for _ in range(rng.randint(1, 3))]
        rec_cases.append((W.dump(a), rng.choice(MODES), rng.randint(-1, 6), mm))

    def rec_line(c):
        d, mode, mc, mm = c
        body = ';'.join(f'{k}~' + '!'.join(W.show_mods(g, '&') for g in gs) for k, gs in mm.items())
        return f'rec\t{d}\t{mode}\t{mc}\t{body}'

    def rec_impl(c):
        d, mode, mc, mm = c
        return ' '.join(W.dump(x) for x in mb._apply_variable_mods_rec(copy.deepcopy(mm), W.undump(d), 0, mc, mode))

    chk.correspond('_apply_variable_mods_rec', DRV, rec_cases, rec_line, rec_impl,
                   compare=lambda im, m: im == canon_list(m), nontrivial_fn=lambda c, im: im.count(' ') >= 2)

    # ------------------------------------------------------------------ oracles
    big = chk.broken()
    strings = [''.join(t) for k in range(1, 5 if quick else 7) for t in itertools.product('PEKST', repeat=k)]
    site_cases = [(s, rx) for s in strings[::(2 if quick else 1)] for rx in RULE_KEYS + ['']]
    site_cases += [(''.join(rng.choice(ALPHA) for _ in range(rng.randint(1, 12))), rng.choice(RULE_KEYS + ['']))
                   for _ in range(1000 if quick else 20000)]
    chk.oracle('regex_sites_vs_independent_reading', site_cases, o_sites, nontrivial_fn=lambda c: len(c[0]) >= 2)

    chk.oracle('regex_ranges_vs_independent_reading', site_cases[::(2 if quick else 1)], o_ranges,
               nontrivial_fn=lambda c: len(c[0]) >= 2)

    osel = static_cases if (big or not quick) else static_cases[::2]
    chk.oracle('static_table_and_idempotence', osel, o_static,
               nontrivial_fn=lambda c: True, key_fn=lambda c: json.dumps(jcase(c), sort_keys=True))
    vsel = var_cases if (big or not quick) else var_cases[::2]
    chk.oracle('variable_vs_subset_enumeration', vsel, o_var,
               nontrivial_fn=lambda c: True, key_fn=lambda c: json.dumps(jcase(c), sort_keys=True))

    # error paths and the compiled-pattern entry (not part of the model; exercised so that every line of the modelled
    # functions is reached and their behaviour is on record)
    def o_errors(c):
        import regex
        import peptacular as pt
        kind = c[0]
        try:
            if kind == 'static-mode':
                pt.apply_static_mods('P[1]EP', {'P': 'x'}, mode='bogus')
            elif kind == 'static-nterm-mode':
                pt.apply_static_mods('[1]-PEP', None, nterm_mods='x', mode='bogus')
            elif kind == 'static-cterm-mode':
                pt.apply_static_mods('PEP-[1]', None, cterm_mods='x', mode='bogus')
            elif kind == 'variable-mode':
                pt.apply_variable_mods('P[1]EP', {'P': 'x'}, 1, mode='bogus')
            elif kind == 'bad-mods':
                pt.apply_static_mods('PEP', {'P': {'a': 1}})
            elif kind == 'bad-var-mods':
                pt.apply_variable_mods('PEP', {'P': {'a': 1}}, 1)
            elif kind == 'compiled':
                s_, rx = c[1], c[2]
                from peptacular.util import get_regex_match_indices
                got = list(get_regex_match_indices(s_, regex.compile(rx), offset=-1))
                return None if got == ref_sites(s_, rx) else f'compiled pattern {rx!r} on {s_!r}: {got}'
        except ValueError:
            return None
        except Exception as e:  # noqa
            return f'{kind}: {type(e).__name__} instead of ValueError'
        return f'{kind}: no ValueError'

    err_cases = [('static-mode',), ('static-nterm-mode',), ('static-cterm-mode',), ('variable-mode',), ('bad-mods',),
                 ('bad-var-mods',)] + [('compiled', s_, rx) for s_, rx in site_cases[:200] if rx]
    chk.oracle('error_paths_and_compiled_patterns', err_cases, o_errors, nontrivial_fn=lambda c: True)

    # call sequences: one peptide pair and ONE set of rule objects through consecutive calls (state leaking between calls)
    seq_cases = [c for c in corpus if 'steps' in c] + [gen_seq_case(rng) for _ in range(150 if quick else 2500)]
    for c in seq_cases:
        chk.count('sequence:calls', 2 * len(c['steps']) + 4)
    chk.oracle('call_sequences_shared_rule_objects', seq_cases, o_sequence, nontrivial_fn=lambda c: True,
               key_fn=lambda c: json.dumps(c, sort_keys=True))

    # the implementation against the Lean specification (mode skip), as multisets when the offers are distinct
    skip_cases = [c for c in vsel if c['mode'] == 'skip']
    spec_out = chk.driver(DRV, [var_line(c, 'spec') for c in skip_cases])
    spec_map = {id(c): r for c, r in zip(skip_cases, spec_out)}

    def o_leanspec(c):
        got = Counter(W.dump(x) for x in call_var(c))
        r = spec_map[id(c)]
        exp = Counter(W.canon_dump(x) for x in r.split(' ')) if r else Counter()
        _, distinct = var_reference(c)
        if distinct:
            return None if got == exp else f'multiset of forms differs from specForms: {sorted((got - exp).items())[:2]} / {sorted((exp - got).items())[:2]}'
        return None if set(got) == set(exp) else 'set of forms differs from specForms'

    chk.oracle('variable_vs_lean_specForms', skip_cases, o_leanspec, nontrivial_fn=lambda c: True,
               key_fn=lambda c: json.dumps(jcase(c), sort_keys=True))

    _shrink_failures(chk)
    _strip_marks(chk)
    # one failure of every failing oracle first (core writes replay files for the first three)
    seen_or = {}
    for f in chk.failures:
        seen_or.setdefault(f['oracle'], []).append(f)
    ordered = []
    while any(seen_or.values()):
        for k in list(seen_or):
            if seen_or[k]:
                ordered.append(seen_or[k].pop(0))
    chk.failures[:] = ordered
    rr = stop_reach(reach)
    if rr is not None:
        total, missed = rr
        chk.notes.append('reach: %d of %d executable lines of the modelled functions were executed by this run; not executed: %s'
                         % (total - sum(len(v) for v in missed.values()), total, json.dumps(missed, sort_keys=True)))
        chk.count('reach:lines_total', total)
        chk.count('reach:lines_missed', sum(len(v) for v in missed.values()))

    if not quick:
        chk.leanchecker(['PeptVerif.Model.ModBuilder', 'PeptVerif.Model.ModBuilderRegex', 'PeptVerif.Spec.ModBuilder',
                         'PeptVerif.Lemmas.ModBuilder', 'PeptVerif.Lemmas.ModBuilderRegex', 'PeptVerif.Props.C13', 'PeptVerif.Props.C13Ext'])
    return chk.finish(classify)


_ORACLES = {'call_sequences_shared_rule_objects': o_sequence, 'static_table_and_idempotence': o_static, 'variable_vs_subset_enumeration': o_var,
            'regex_sites_vs_independent_reading': o_sites, 'regex_ranges_vs_independent_reading': o_ranges}


def _shrink_failures(chk):
    for f in chk.failures:
        fn = _ORACLES.get(f['oracle'])
        c = f.get('case')
        if fn is None or not isinstance(c, dict):
            continue
        try:
            if 'steps' in c:
                # shrink in fresh interpreters (at most twice per run: about 2 s per trial); otherwise keep the case as found
                if sum(1 for g in chk.failures if g.get('_seq_shrunk')) >= 2 or not fresh_fails(c):
                    f['how_to_rerun'] = './check C13 --replay <this file>'
                    continue
                f['_seq_shrunk'] = True
                small = shrink_seq(c, fresh_fails)
                f['case'] = jcase(small)
                f['detail'] = str(fresh_eval(small))[:2000]
                f['how_to_rerun'] = './check C13 --replay <this file>'
                continue
            else:
                small = shrink_case(c, lambda x: fn(x) is not None)
            f['case'] = jcase(small)
            f['detail'] = str(fn(small))[:2000]
            f['how_to_rerun'] = './check C13 --replay <this file>'
        except Exception:  # noqa
            pass


def _strip_marks(chk):
    for f in chk.failures:
        f.pop('_seq_shrunk', None)


def classify(f):
    return None


def replay(chk, obj):
    c = obj.get('case')
    fn = _ORACLES.get(obj.get('oracle'))
    if fn is None or not isinstance(c, (dict, list)):
        print(json.dumps(obj, indent=1))
        return 0
    r = fn(c)
    print('case:', json.dumps(jcase(c)))
    if isinstance(c, list) or 'steps' in c:
        pass
    elif 'max_mods' in c:
        print('apply_variable_mods ->', call_var(c, 'str'))
    else:
        print('apply_static_mods ->', call_static(c, 'str'))
    print('oracle:', r)
    return 1 if r is not None else 0
