"""C10 - a modification means the same thing however it is spelled."""
import math
import os
import json
import signal
import sys
import time
from fractions import Fraction

from .. import core
from .. import translate_vocab as TV
from .. import translate_moddb as TM

PID = 'C10'
DRV = 'drv_c10'

REGISTRY = {
    'id': 'C10',
    'text': 'Lean theorems over the vocabularies regenerated from the repo on every run (Unimod, PSI-MOD, XLMOD, monosaccharides, '
            'element table): prefix stripping returns the key for every key and every documented prefix in any letter case; '
            'table facts by kernel evaluation (unique ids/names, no numeric/reserved/decorated names, cross-vocabulary name '
            'collisions agree, tabulated mono mass = mass of tabulated composition); spelling invariance of the resolver model '
            'derived from them; generic-form lemmas (tags, alternatives, multiplier). The prefix predicates and strippers of '
            'mods/mod_db.py (is_unimod_str, is_psi_mod_str, is_xlmod_str, is_resid_str, is_gno_str, _strip_unimod_str, _strip_psi_str, '
            '_strip_xlmod_str, _strip_resid_str, _strip_gno_str) and the if-chains of _parse_mod_mass / _parse_mod_comp are translated '
            'mechanically from the current source (Python ast, tiny subset) into Lean on every run and proved EQUAL to the hand model '
            '(Props/C10Gen.lean), so the theorems hold of the translated source; a function outside the subset is reported as '
            'untranslated and stays tied by correspondence. The rest of the hand-written resolver model is tied to '
            '/repo by exhaustive correspondence (every entry x every spelling x {mono, avg, composition}) and the property itself '
            'is evaluated on the real mod_mass / mod_comp over the same enumeration',
    'note': 'trusted: Lean kernel, axioms propext/Classical.choice/Quot.sound, translate_vocab.py (table-to-text), '
            'translate_moddb.py (subset reader: lower/startswith/or/and/not/in/split(":"[,1])[1]/slicing/contains_id/contains_name/if-return), the '
            'correspondence harness, the OBO readers of the library (compared with an independent raw read of id/name/mass); '
            'ASCII only for prefix case folding; precision=None',
    'technique': 'Lean 4 proof about executable model + generated tables + exhaustive differential correspondence',
}

UNI_PREF = ['UNIMOD:', 'unimod:', 'UniMod:', 'U:', 'u:']
PSI_PREF = ['MOD:', 'mod:', 'Mod:', 'M:', 'm:', 'PSI-MOD:', 'psi-mod:', 'Psi-Mod:']
XL_PREF = ['XLMOD:', 'xlmod:', 'XlMod:', 'X:', 'x:']
GLY_PREF = ['Glycan:', 'glycan:', 'GLYCAN:']

TOL_CORR = 1e-7


def enc(s):
    return ''.join(c if (32 <= ord(c) < 127 and c not in '%;=') else '%%%x;' % ord(c) for c in s)


def dec(s):
    out = []
    i = 0
    while i < len(s):
        if s[i] == '%':
            j = s.index(';', i)
            out.append(chr(int(s[i + 1:j], 16)))
            i = j + 1
        else:
            out.append(s[i])
            i += 1
    return ''.join(out)


class Hang(Exception):
    pass


def _alarm(signum, frame):
    raise Hang()


def guarded(fn, *a, **k):
    """call the implementation; a call that does not return within 0.5 s is reported as HANG"""
    signal.signal(signal.SIGALRM, _alarm)
    signal.setitimer(signal.ITIMER_REAL, 0.5)
    try:
        return fn(*a, **k)
    finally:
        signal.setitimer(signal.ITIMER_REAL, 0)


def stray_bracket(s):
    """would `_split_chem_formula` loop forever on this text? (a `]` outside a bracketed component)"""
    i = 0
    n = len(s)
    while i < n:
        if s[i] == '[':
            j = s.find(']', i)
            if j < 0:
                return False
            i = j + 1
        elif s[i] == ']':
            return True
        else:
            i += 1
    return False


def canon_num(x):
    """python result -> ('SPECIAL') or float"""
    if isinstance(x, float) and (math.isnan(x) or math.isinf(x)):
        return 'SPECIAL'
    return float(x)


def show_impl_mass(fn):
    try:
        r = fn()
    except Hang:
        return 'ERR:HANG'
    except MemoryError:
        return 'ERR:HANG'
    except Exception as e:  # noqa
        return 'ERR:' + type(e).__name__
    if r is None:
        return 'NONE'
    c = canon_num(r)
    return c if c == 'SPECIAL' else 'OK ' + repr(c)


def show_comp_py(d):
    parts = []
    for k, v in d.items():
        if isinstance(v, bool) or not isinstance(v, (int, float)):
            return 'ERR:badvalue'
        if isinstance(v, float) and (math.isnan(v) or math.isinf(v)):
            return 'ERR:SPECIAL'
        parts.append((k, 'f' if isinstance(v, float) else 'i', float(v)))
    return parts


def show_impl_comp(fn):
    try:
        r = fn()
    except Hang:
        return 'ERR:HANG'
    except MemoryError:
        return 'ERR:HANG'
    except Exception as e:  # noqa
        return 'ERR:' + type(e).__name__
    if r is None:
        return 'NONE'
    return show_comp_py(r)


def parse_model_rat(t):
    a, b = t.split('/')
    return Fraction(int(a), int(b))


def to_float(fr):
    """exact rational -> double; beyond the range of a double = inf (the model is exact, Python overflows: such values are
    outside the model and reported as SPECIAL on both sides)"""
    try:
        return float(fr)
    except OverflowError:
        return math.inf if fr > 0 else -math.inf


def parse_model_comp(t):
    """'k=i:3/1;k2=f:5/2' -> [(k, 'i'|'f', float)]"""
    res = []
    if t == '':
        return res
    for kv in t.split(';'):
        k, v = kv.split('=')
        ty, r = v.split(':')
        res.append((dec(k), ty, to_float(parse_model_rat(r))))
    return res


def close(a, b, tol=TOL_CORR):
    return abs(a - b) <= tol + 1e-9 * max(abs(a), abs(b))


def impl_same(a, b, tol=1e-9):
    """two answers of the IMPLEMENTATION (core.correspond re-evaluates a call later in the run and compares them)"""
    if isinstance(a, list) and isinstance(b, list):
        if len(a) != len(b):
            return False
        for x, y in zip(a, b):
            if isinstance(x, tuple) and isinstance(y, tuple) and len(x) == 3 and len(y) == 3:
                if x[0] != y[0] or x[1] != y[1] or not close(x[2], y[2], tol):
                    return False
            elif x != y:
                return False
        return True
    if isinstance(a, str) and isinstance(b, str) and a.startswith('OK ') and b.startswith('OK '):
        try:
            return close(float(a[3:]), float(b[3:]), tol)
        except ValueError:
            return a == b
    return a == b


def is_model_reply(m):
    """model replies are strings; numeric ones carry exact rationals `num/den`"""
    return isinstance(m, str)


def cmp_mass(im, m):
    """impl canonical string vs model reply"""
    if not isinstance(im, str) or not isinstance(m, str) or (m.startswith('OK ') and '/' not in m):
        return impl_same(im, m)
    if im.startswith('OK '):
        if not m.startswith('OK '):
            return False
        return close(float(im[3:]), to_float(parse_model_rat(m[3:])))
    if im in ('SPECIAL', 'ERR:SPECIAL') and m.startswith('OK '):
        return math.isinf(to_float(parse_model_rat(m[3:])))
    return im == m


def cmp_comp(im, m, ordered=False):
    if not isinstance(m, str) or (isinstance(im, str) and not im.startswith('ERR') and im != 'NONE'):
        return impl_same(im, m)
    if im == 'ERR:SPECIAL' and m.startswith('OK'):
        return any(math.isinf(v) for _, _, v in parse_model_comp(m[3:]))
    if isinstance(im, list):
        if not m.startswith('OK'):
            return False
        mm = parse_model_comp(m[3:])
        if ordered:
            return len(im) == len(mm) and all(a[0] == b[0] and a[1] == b[1] and close(a[2], b[2], 1e-9) for a, b in zip(im, mm))
        da = {k: (t, v) for k, t, v in im}
        db = {k: (t, v) for k, t, v in mm}
        return set(da) == set(db) and len(da) == len(im) and len(db) == len(mm) and \
            all(da[k][0] == db[k][0] and close(da[k][1], db[k][1], 1e-9) for k in da)
    return im == m


def spellings(kind, e):
    """documented spellings of one entry: (spelling, is_bare)"""
    if kind == 'unimod':
        return [(e.name, True)] + [(p + k, False) for p in UNI_PREF for k in (e.name, e.id)]
    if kind == 'psi':
        return [(e.name, True)] + [(p + k, False) for p in PSI_PREF for k in (e.name, e.id)]
    if kind == 'xlmod':
        return [(p + k, False) for p in XL_PREF for k in (e.name, e.id)]
    if kind == 'mono':
        keys = [e.name, e.id] + list(e.synonyms or [])
        return [(p + k, False) for p in GLY_PREF for k in keys]
    raise KeyError(kind)


def bucket(fn):
    """('ok', value) or ('err', class name)"""
    try:
        r = guarded(fn)
    except Hang:
        return ('err', 'HANG')
    except Exception as e:  # noqa
        return ('err', type(e).__name__)
    return ('ok', r)


def spelling_failure(pt, kind, e, include_bare=True):
    """the C10 sentence for one entry on the real code: every documented spelling gives the same mono mass, avg mass
    (1e-5) and composition, or the same error class; None if it holds"""
    sps = [x for x in spellings(kind, e) if include_bare or not x[1]]
    for what in ('mono', 'avg', 'comp'):
        res = []
        for sp, bare in sps:
            if what == 'comp':
                res.append(bucket(lambda: pt.mod_comp(sp)))
            else:
                res.append(bucket(lambda: pt.mod_mass(sp, monoisotopic=(what == 'mono'))))
        ref = res[-1]  # a prefixed accession spelling
        for (sp, bare), r in zip(sps, res):
            if r[0] != ref[0]:
                return f'{what}: spelling {sp!r} gives {r} but {sps[-1][0]!r} gives {ref}'
            if r[0] == 'err':
                if r[1] != ref[1]:
                    return f'{what}: spelling {sp!r} raises {r[1]} but {sps[-1][0]!r} raises {ref[1]}'
            elif what == 'comp':
                if r[1] != ref[1]:
                    return f'comp: spelling {sp!r} gives {r[1]} but {sps[-1][0]!r} gives {ref[1]}'
            else:
                if r[1] is None or ref[1] is None or abs(r[1] - ref[1]) > 1e-5:
                    return f'{what} mass: spelling {sp!r} gives {r[1]!r} but {sps[-1][0]!r} gives {ref[1]!r}'
    # the resolved value is the entry's own
    pm = bucket(lambda: pt.mod_mass(sps[-1][0], monoisotopic=True))
    if e.mono_mass is not None and (pm[0] != 'ok' or abs(pm[1] - e.mono_mass) > 1e-5):
        return f'{sps[-1][0]!r} resolves to {pm}, the table says {e.mono_mass}'
    return None


def _run(chk):
    import peptacular as pt
    from peptacular.mods import mod_db_setup as S, mod_db as MD
    from peptacular import constants as K
    from peptacular.proforma.proforma_dataclasses import Mod  # where it is defined (not a re-export)
    tier = chk.tier
    rng = chk.rng
    _t = [time.time()]

    def lap(what):
        if os.environ.get('VERIF_TIMING'):
            print(f'[timing] {what}: {time.time() - _t[0]:.1f}s', file=sys.stderr)
        _t[0] = time.time()
    TV.translate_into(chk)  # never raises: a failed dump is a reported item, the previous tables stay
    tm_report = TM.translate_into(chk)  # mod_db.py -> Generated/ModDbPy.lean + Props/C10Gen.lean (never raises)
    if tm_report is not None:
        chk.notes.append('translate_moddb: translated ' + ', '.join(tm_report['translated']) +
                         ('; UNTRANSLATED (outside the subset, tied by correspondence only): ' +
                          '; '.join(f'{k}: {v}' for k, v in tm_report['untranslated'].items()) if tm_report['untranslated'] else '') +
                         ('; no hand counterpart: ' + ', '.join(tm_report['no_hand_counterpart']) if tm_report['no_hand_counterpart'] else ''))
        chk.count('moddb_functions_translated', len(tm_report['translated']))
        chk.count('moddb_functions_untranslated', len(tm_report['untranslated']))
    PROPS = ['PeptVerif.Props.C10', 'PeptVerif.Props.C10TabU', 'PeptVerif.Props.C10TabP', 'PeptVerif.Props.C10TabX',
             'PeptVerif.Props.C10Mass', 'PeptVerif.Props.C10Generic', 'PeptVerif.Props.C10Glycan'] + (
                 ['PeptVerif.Props.C10Resolve'] if os.path.exists(os.path.join(core.LEAN, 'PeptVerif', 'Props', 'C10Resolve.lean'))
                 else [])
    chk.lean_build(PROPS, DRV)
    # the equalities "definition translated from the source = hand model" are built separately: if the fixed proof script no
    # longer closes one of them (the source was edited), the verdict is left to the correspondence and the oracle (see below)
    n_before = len(chk.lean_problems)
    try:
        chk.lean_build(['PeptVerif.Props.C10Gen'])
    except core.InfraError:
        raise
    gen_problems = chk.lean_problems[n_before:]
    del chk.lean_problems[n_before:]
    if chk.lean_problems:
        # a table theorem no longer checks: evaluate the same boolean checks entry by entry to name the witnesses
        for what, kinds in (('unclean', ('unimod', 'psi', 'xlmod')), ('numeric', ('unimod', 'psi')),
                            ('dupkeys', ('unimod', 'psi', 'xlmod')), ('cross', ('unimod',)), ('monomass', ('unimod', 'mono'))):
            for kind in kinds:
                try:
                    r = chk.driver(DRV, [f'fact\t{what}\t{kind}'])[0]
                except core.InfraError:
                    r = ''
                if r and r != 'bad-op':
                    chk.notes.append(f'table check {what} fails for {kind} entries (id,name): ' +
                                     '; '.join(dec(x) for x in r.split(';')))
    chk.trusted += [
        'translate_moddb.py: the Python-subset reader that turns mod_db.py (is_*_str, _strip_*_str) and the dispatch chains of '
        '_parse_mod_mass/_parse_mod_comp into Lean definitions over the hand model\'s combinators; its output is compared with the '
        'Python functions on every run (generated_pred_vs_python, generated_strip_vs_python)',
        'translate_vocab.py: EntryDb objects (id, name, synonyms, mono, avg, composition) and the element tables as loaded by '
        'the library -> Lean literals (code-point lists, exact decimals of repr(float)); rewritten when /repo changes',
        'modelled: mod_db.py (is_*_str, _strip_*_str, _get_mass, _get_comp), mass_calc.mod_mass/_parse_mod_mass and helpers, '
        'chem_calc.mod_comp/_parse_mod_comp/_parse_glycan_comp, chem_util parse/write/chem_mass, glycan parse/comp/mass, '
        'util.convert_type; not modelled: the OBO readers (_read_obo, _get_*_entries: compared with an independent raw read of '
        'id/name/mass), precision rounding, non-ASCII case folding / digits / whitespace',
    ]
    lap('build')
    from ..reach_c10 import Reach
    from peptacular import mass_calc as MC, util as UT
    from peptacular.chem import chem_calc as CC
    reach = Reach([MD._get_mass, MD._get_comp, MD.is_unimod_str, MD._strip_unimod_str, MD.parse_unimod_mass, MD.parse_unimod_comp,
                   MD.is_psi_mod_str, MD._strip_psi_str, MD.parse_psi_mass, MD.parse_psi_comp, MD.is_xlmod_str, MD._strip_xlmod_str,
                   MD.parse_xlmod_mass, MD.parse_xlmod_comp, MD.is_resid_str, MD._strip_resid_str, MD.is_gno_str, MD._strip_gno_str,
                   MC.mod_mass, MC._parse_mod_mass, MC._parse_glycan_mass_from_proforma_str, MC._parse_chem_mass_from_proforma_str,
                   MC._parse_obs_mass_from_proforma_str, CC.mod_comp, CC._parse_mod_comp, CC._parse_glycan_comp, UT.convert_type])
    reach.start()
    DB = {'unimod': S.UNIMOD_DB, 'psi': S.PSI_MOD_DB, 'xlmod': S.XLMOD_DB, 'mono': S.MONOSACCHARIDES_DB}
    LEANMOD = {'unimod': 'Unimod', 'psi': 'PsiMod', 'xlmod': 'XlMod', 'mono': 'Mono'}
    entries = {k: list(db.id_map.values()) for k, db in DB.items()}
    for k, es in entries.items():
        chk.count('entries_' + k, len(es))

    # ------------------------------------------------------------ (0) tables: raw OBO vs loaded vs Lean literals
    tab_cases = []
    for kind, es in entries.items():
        raw = TV.raw_obo_safe(chk, LEANMOD[kind]) or []
        n = int(chk.driver(DRV, [f'count\t{kind}'])[0])
        if n != len(es) or len(raw) != len(es):
            chk.disagreements.append({'op': 'table_size', 'line': kind, 'impl': f'loaded {len(es)} raw {len(raw)}',
                                      'model': str(n)})
        for i, e in enumerate(es):
            tab_cases.append((kind, i, e, raw[i] if i < len(raw) else None))

    def tab_line(c):
        return f'entry\t{c[0]}\t{c[1]}'

    def frac_txt(x):
        if x is None:
            return 'None'
        f = Fraction(repr(x))
        return f'{f.numerator}/{f.denominator}'

    def tab_impl(c):
        kind, i, e, raw = c
        syn = ','.join(enc(x) for x in (e.synonyms or [])) if kind == 'mono' else ''
        return '\t'.join([enc(e.id), enc(e.name), syn, frac_txt(e.mono_mass), frac_txt(e.avg_mass),
                          'None' if e.composition is None else 'S' + enc(e.composition)])

    chk.correspond('tables_loaded_vs_lean', DRV, tab_cases, tab_line, tab_impl,
                   nontrivial_fn=lambda c, im: c[2].mono_mass is not None)

    # independent raw read of the OBO file: id, name, mass texts
    def raw_impl(c):
        kind, i, e, raw = c
        if raw is None:
            return 'missing'
        return repr((raw[0], raw[1], None if raw[2] is None else float(raw[2]), None if raw[3] is None else float(raw[3])))

    def raw_cmp(im, m):
        if '\t' not in m:
            return im == m
        f = m.split('\t')
        if len(f) != 6 or im == 'missing':
            return False
        rid, rname, rmono, ravg = eval(im)
        if dec(f[0]) != rid or dec(f[1]) != rname:
            return False
        for txt, rv in ((f[3], rmono), (f[4], ravg)):
            # a mass given in the file must be the tabulated one (as a double); a mass absent from the file may be
            # filled in by the library from the composition
            if rv is not None and (txt == 'None' or float(parse_model_rat(txt)) != rv):
                return False
        return True

    chk.correspond('tables_raw_obo_vs_lean', DRV, tab_cases, tab_line, raw_impl, compare=raw_cmp,
                   nontrivial_fn=lambda c, im: c[3] is not None and c[3][2] is not None)

    lap('tables')
    # ------------------------------------------------------------ (1) exhaustive: entry x spelling x {mono, avg, comp}
    pref_sets = {'unimod': UNI_PREF, 'psi': PSI_PREF, 'xlmod': XL_PREF, 'mono': GLY_PREF}
    sp_cases = []
    for kind, es in entries.items():
        for e in es:
            for sp, bare in spellings(kind, e):
                sp_cases.append((kind, e.id, sp))
    chk.count('spellings', len(sp_cases))

    def mass_line(mono):
        return lambda c: f'mass\t{enc(c[2])}\t{int(mono)}'

    def mass_impl(mono):
        return lambda c: show_impl_mass(lambda: pt.mod_mass(c[2], monoisotopic=mono))

    def comp_impl(c):
        return show_impl_comp(lambda: pt.mod_comp(c[2]))

    ok = lambda c, im: isinstance(im, list) or (isinstance(im, str) and im.startswith('OK '))
    chk.correspond('spelling_mass_mono', DRV, sp_cases, mass_line(True), mass_impl(True), compare=cmp_mass, nontrivial_fn=ok)
    chk.correspond('spelling_mass_avg', DRV, sp_cases, mass_line(False), mass_impl(False), compare=cmp_mass, nontrivial_fn=ok)
    chk.correspond('spelling_comp', DRV, sp_cases, lambda c: f'comp\t{enc(c[2])}', comp_impl, compare=cmp_comp, nontrivial_fn=ok)
    for s in chk.corr['spelling_comp']['samples']:
        s['impl'] = str(s['impl'])[:300]
    chk.exhaustive = True

    lap('spellings')
    # is_*_str / _strip_*_str / parse_*_mass on spellings and near-misses
    fam = {'unimod': (MD.is_unimod_str, MD._strip_unimod_str, MD.parse_unimod_mass, MD.parse_unimod_comp),
           'psi': (MD.is_psi_mod_str, MD._strip_psi_str, MD.parse_psi_mass, MD.parse_psi_comp),
           'xlmod': (MD.is_xlmod_str, MD._strip_xlmod_str, MD.parse_xlmod_mass, MD.parse_xlmod_comp),
           'resid': (MD.is_resid_str, MD._strip_resid_str, MD.parse_resid_mass, MD.parse_resid_comp),
           'gno': (MD.is_gno_str, MD._strip_gno_str, MD.parse_gno_mass, MD.parse_gno_comp)}
    allpref = UNI_PREF + PSI_PREF + XL_PREF + ['RESID:', 'resid:', 'R:', 'r:', 'GNO:', 'gno:', 'G:', 'g:', '', 'Q:', 'UNIMOD', ':']
    keys = []
    for kind in ('unimod', 'psi', 'xlmod'):
        es = entries[kind]
        sel = es if tier == 'thorough' else rng.sample(es, min(len(es), 150))
        keys += [e.name for e in sel] + [e.id for e in sel]
    keys += ['+1', '-3.14', '+1a', '', 'a:b', 'a:b:c', ':x', '13252454', '+', '-', '+inf', '-nan', '+1e3', 'Acetyl#g1']
    fam_cases = []
    for k in keys:
        for p in (allpref if tier == 'thorough' else rng.sample(allpref, 6)):
            fam_cases.append((rng.choice(list(fam)), p + k))
    for kind in fam:
        for k in rng.sample(keys, min(len(keys), 60)):
            fam_cases.append((kind, k))
    chk.correspond('is_str', DRV, fam_cases, lambda c: f'is\t{c[0]}\t{enc(c[1])}',
                   lambda c: str(bool(fam[c[0]][0](c[1]))), nontrivial_fn=lambda c, im: im == 'True')
    chk.correspond('strip_str', DRV, fam_cases, lambda c: f'strip\t{c[0]}\t{enc(c[1])}',
                   lambda c: enc(fam[c[0]][1](c[1])), nontrivial_fn=lambda c, im: im != enc(c[1]))
    for mono in (True, False):
        chk.correspond('parse_db_mass', DRV, fam_cases, lambda c, mono=mono: f'getmass\t{c[0]}\t{enc(c[1])}\t{int(mono)}',
                       lambda c, mono=mono: show_impl_mass(lambda: fam[c[0]][2](c[1], mono)), compare=cmp_mass, nontrivial_fn=ok)

    def getcomp_impl(c):
        try:
            return 'OK ' + enc(fam[c[0]][3](c[1]))
        except Exception as e:  # noqa
            return 'ERR:' + type(e).__name__
    chk.correspond('parse_db_comp', DRV, fam_cases, lambda c: f'getcomp\t{c[0]}\t{enc(c[1])}', getcomp_impl, nontrivial_fn=ok)

    # generated definitions (translated from the source) against the Python functions and against the hand model
    gen_names = {'unimod': ('is_unimod_str', '_strip_unimod_str'), 'psi': ('is_psi_mod_str', '_strip_psi_str'),
                 'xlmod': ('is_xlmod_str', '_strip_xlmod_str'), 'resid': ('is_resid_str', '_strip_resid_str'),
                 'gno': ('is_gno_str', '_strip_gno_str')}
    translated = set(tm_report['translated']) if tm_report else set()
    gcs = [c for c in fam_cases if c[0] in gen_names]
    gen_pred_cases = [c for c in gcs if gen_names[c[0]][0] in translated]
    gen_strip_cases = [c for c in gcs if gen_names[c[0]][1] in translated]
    chk.correspond('generated_pred_vs_python', DRV, gen_pred_cases, lambda c: f'gen\tpred\t{gen_names[c[0]][0]}\t{enc(c[1])}',
                   lambda c: str(bool(getattr(MD, gen_names[c[0]][0])(c[1]))), nontrivial_fn=lambda c, im: im == 'True')
    chk.correspond('generated_strip_vs_python', DRV, gen_strip_cases, lambda c: f'gen\tstrip\t{gen_names[c[0]][1]}\t{enc(c[1])}',
                   lambda c: enc(getattr(MD, gen_names[c[0]][1])(c[1])), nontrivial_fn=lambda c, im: im != enc(c[1]))
    gen_vs_hand_bad = []
    if gen_problems:
        # extensional comparison generated definition vs hand model (both in the driver) on everything enumerated here
        probe = [c[2] for c in sp_cases[::7]] + [c[1] for c in fam_cases]
        for kind, (pn, sn) in gen_names.items():
            for fname, op in ((pn, 'is'), (sn, 'strip')):
                if fname not in translated:
                    continue
                a = chk.driver(DRV, [f'gen\t{"pred" if op == "is" else "strip"}\t{fname}\t{enc(t)}' for t in probe])
                b = chk.driver(DRV, [f'{op}\t{kind}\t{enc(t)}' for t in probe])
                gen_vs_hand_bad += [(fname, t, x, y) for t, x, y in zip(probe, a, b) if x != y][:3]
        for bn in ('massBranch', 'compBranch'):
            a = chk.driver(DRV, [f'gen\tbranch\t{bn}\t{enc(t)}' for t in probe])
            b = chk.driver(DRV, [f'hand\tbranch\t{bn}\t{enc(t)}' for t in probe])
            if a and a[0] != 'untranslated':
                gen_vs_hand_bad += [(bn, t, x, y) for t, x, y in zip(probe, a, b) if x != y][:3]
        chk.count('generated_vs_hand_probes', len(probe))
    lap('families')
    # ------------------------------------------------------------ (2) random generic forms and decorations
    iso_keys = list(K.ISOTOPIC_ATOMIC_MASSES.keys())
    common = ['C', 'H', 'N', 'O', 'S', 'P', 'Se', 'Na', 'Cl', 'Fe', 'Ce', 'e', 'p', 'n', 'D', 'T', '13C', '15N', '2H', '18O', '34S']
    mono_names = list(S.MONOSACCHARIDES_DB.name_map.keys()) + list(S.MONOSACCHARIDES_DB.synonym_map.keys())

    def gen_count():
        r = rng.random()
        if r < 0.55:
            return rng.randint(1, 30)
        if r < 0.7:
            return rng.randint(-200, 500)
        if r < 0.9:
            return round(rng.uniform(-20, 50), rng.randint(1, 4))
        return rng.choice([0, 1, -1, 1.0, 0.5, -0.25])

    def num_txt(v):
        if isinstance(v, int):
            return str(v)
        t = repr(v)
        if 'e' in t or 'E' in t:
            t = format(v, 'f')
        return t

    def gen_formula():
        k = rng.randint(1, 5)
        parts = []
        for _ in range(k):
            el = rng.choice(common) if rng.random() < 0.8 else rng.choice(iso_keys)
            v = gen_count()
            t = '' if (v == 1 and isinstance(v, int) and rng.random() < 0.5) else num_txt(v)
            if el[0].isdigit() or el in ('D', 'T'):
                parts.append(f'[{el}{t}]')
            else:
                parts.append(f'{el}{t}')
        s = ''.join(parts)
        if rng.random() < 0.08:  # malformed stream
            pos = rng.randint(0, len(s))
            s = s[:pos] + rng.choice(['x', '[', ']', '.', '-', ':', ' ', '1', 'Xx', '[]', '[13]', 'é']) + s[pos:]
        return s

    def gen_glycan():
        k = rng.randint(1, 4)
        parts = []
        for _ in range(k):
            nm = rng.choice(mono_names)
            v = rng.choice([1, 2, 3, 5, 10, -1, -2, 20, 0, 1.5, 2.25, -0.5, rng.randint(-5, 20)])
            t = '' if (v == 1 and rng.random() < 0.5) else num_txt(v)
            parts.append(nm + t)
        s = ''.join(parts)
        if rng.random() < 0.08:
            pos = rng.randint(0, len(s))
            s = s[:pos] + rng.choice(['x', 'X', '.', '-', '+', ':', ' ', 'Hexx']) + s[pos:]
        return s

    def gen_number():
        r = rng.random()
        if r < 0.3:
            return str(rng.randint(-500, 500))
        if r < 0.5:
            return rng.choice('+-') + str(rng.randint(0, 500))
        if r < 0.85:
            return rng.choice(['', '+', '-']) + num_txt(round(rng.uniform(0, 500), rng.randint(1, 6)))
        return rng.choice(['1e3', '1E-2', '+1.5e2', '.5', '5.', '-.5', '1_000', '1__0', '_1', '+ 5', ' 5', '5 ', '0x10', '1e', 'e5',
                           'inf', '-inf', 'nan', 'Infinity', '+1a', '--1', '+', '-', '.', '', '007', '1.2.3'])

    def gen_entry_spelling():
        kind = rng.choice(['unimod', 'unimod', 'psi', 'psi', 'xlmod', 'mono'])
        e = rng.choice(entries[kind])
        return rng.choice(spellings(kind, e))[0]

    def gen_base():
        r = rng.random()
        if r < 0.30:
            return gen_entry_spelling()
        if r < 0.42:
            return gen_number()
        if r < 0.52:
            return rng.choice(UNI_PREF + PSI_PREF + XL_PREF + ['R:', 'RESID:', 'G:', 'GNO:']) + gen_number()
        if r < 0.67:
            return rng.choice(['Formula:', 'formula:', 'FORMULA:']) + gen_formula()
        if r < 0.80:
            return rng.choice(GLY_PREF) + gen_glycan()
        if r < 0.88:
            return rng.choice(['Obs:', 'obs:', 'OBS:']) + gen_number()
        if r < 0.94:
            return rng.choice(['INFO:', 'info:', 'Info:']) + rng.choice(['x', 'newly discovered', 'Acetyl', ''])
        return rng.choice(['', 'Acetyll', 'acetyl', 'foo', 'U:', 'M:', 'X:Foo', 'R:AA0317', 'G:G35503UV', 'Formula:', 'Glycan:',
                           'Obs:', 'Formula:C2:H3', 'Glycan:Hex:2', 'Obs:4:2', 'U:Acetyl:x', ':', 'Unimod', 'MOD', 'x:y:z',
                           'Formula:C]', 'Formula:[13C', 'Formula:[]', 'Glycan:Hex2Hex3', 'Glycan:Hex1Hex2', 'Glycan:HexNAc2Hex3HexNAc1.5Hex-1', 'Glycan:FucFucFuc', 'N/A', 'Phospho', 'Oxidation'])

    def gen_decorated():
        k = rng.choice([1, 1, 1, 2, 2, 3])
        alts = []
        for _ in range(k):
            b = gen_base()
            r = rng.random()
            if r < 0.15:
                b = b + rng.choice(['#g1', '#g1(0.5)', '#XL1', '#BRANCH', '#', '#a#b'])
            elif r < 0.2:
                b = rng.choice(['#g1', '#g2(0.9)', '#XL1'])
            alts.append(b)
        return '|'.join(alts)

    nrand = 4000 if tier == 'quick' else 60000
    rnd = [gen_decorated() for _ in range(nrand)]
    rnd_cases = [('rnd', None, s) for s in rnd]

    def g_mass_impl(mono):
        return lambda c: show_impl_mass(lambda: guarded(pt.mod_mass, c[2], monoisotopic=mono))

    def g_comp_impl(c):
        return show_impl_comp(lambda: guarded(pt.mod_comp, c[2]))

    chk.correspond('decorated_mass_mono', DRV, rnd_cases, mass_line(True), g_mass_impl(True), compare=cmp_mass, nontrivial_fn=ok)
    chk.correspond('decorated_mass_avg', DRV, rnd_cases, mass_line(False), g_mass_impl(False), compare=cmp_mass, nontrivial_fn=ok)
    chk.correspond('decorated_comp', DRV, rnd_cases, lambda c: f'comp\t{enc(c[2])}', g_comp_impl, compare=cmp_comp, nontrivial_fn=ok)
    for s in chk.corr['decorated_comp']['samples']:
        s['impl'] = str(s['impl'])[:300]
    mult_cases = [(s, rng.choice([0, 1, 2, 3, 5, -1, 10])) for s in rnd[:nrand // 4]]
    mult_cases += [(p + k, n) for p in ('Glycan:', 'glycan:') for k in mono_names for n in (2, 3)]
    mult_cases += [(rng.choice(sp_cases)[2], rng.choice([2, 3])) for _ in range(200)]
    chk.correspond('mult_mass', DRV, mult_cases, lambda c: f'massmult\t{enc(c[0])}\t{c[1]}\t1',
                   lambda c: show_impl_mass(lambda: guarded(pt.mod_mass, Mod(c[0], c[1]), monoisotopic=True)), compare=cmp_mass,
                   nontrivial_fn=ok)
    chk.correspond('mult_comp', DRV, mult_cases, lambda c: f'compmult\t{enc(c[0])}\t{c[1]}',
                   lambda c: show_impl_comp(lambda: guarded(pt.mod_comp, Mod(c[0], c[1]))), compare=cmp_comp, nontrivial_fn=ok)
    for s in chk.corr['mult_comp']['samples']:
        s['impl'] = str(s['impl'])[:300]
    chk.correspond('convert_type', DRV, [gen_number() for _ in range(nrand // 4)] + [e.name for e in entries['unimod'][:200]],
                   lambda c: f'convert\t{enc(c)}', lambda c: _show_convert(c), compare=_cmp_convert,
                   nontrivial_fn=lambda c, im: im != 'STR')

    lap('random')
    chk.rule = ('exhaustive: every loaded entry (Unimod, PSI-MOD, XLMOD, monosaccharides) x every documented spelling (bare name, '
                'each prefix in 3 letter cases x {name, accession}; Glycan: x {name, id, synonyms}) x {mono mass, avg mass, '
                'composition}; random: numbers, prefixed numbers, Formula:/Glycan:/Obs:/INFO: strings with isotopes, negative and '
                'decimal counts, 8% malformed, #tags, |alternatives, ^n multipliers. non-trivial = resolves to a value (not an '
                'error); distinct = distinct protocol line')

    # ------------------------------------------------------------ oracle: the property on the real code
    big = chk.broken() or tier == 'thorough'
    o_spell_cases = [(kind, e.id) for kind, es in entries.items() for e in es]
    byid = {kind: {e.id: e for e in es} for kind, es in entries.items()}

    def o_spelling(c):
        kind, eid = c
        return spelling_failure(pt, kind, byid[kind][eid])

    corpus = []
    corpus_generic = []
    cpath = os.path.join(core.VERIF, 'corpus', PID, 'witnesses.jsonl')
    if os.path.exists(cpath):
        for ln in open(cpath):
            if ln.strip():
                o = json.loads(ln)
                if o.get('oracle') == 'spelling_invariance' and o['case'][1] in byid.get(o['case'][0], {}):
                    corpus.append(tuple(o['case']))
                elif o.get('oracle') == 'generic_forms':
                    corpus_generic.append(tuple(o['case']))
    chk.count('corpus_replayed', len(corpus) + len(corpus_generic))
    chk.oracle('spelling_invariance', corpus + o_spell_cases, o_spelling,
               nontrivial_fn=lambda c: byid[c[0]][c[1]].mono_mass is not None, key_fn=lambda c: f'{c[0]}:{c[1]}')

    lap('oracle spelling')
    def ref_mass(comp, mono=True):
        m = 0.0
        for k, v in comp.items():
            if k in K.ISOTOPIC_ATOMIC_MASSES:
                if mono or k[0].isdigit() or k in ('D', 'T'):
                    m += K.ISOTOPIC_ATOMIC_MASSES[k] * v
                else:
                    m += K.AVERAGE_ATOMIC_MASSES[k] * v
            else:
                m += {'e': K.ELECTRON_MASS, 'p': K.PROTON_MASS, 'n': K.NEUTRON_MASS}[k] * v
        return m

    def o_table_mass(c):
        kind, eid = c
        e = byid[kind][eid]
        if e.mono_mass is None or e.composition is None:
            return None
        m = pt.chem_mass(pt.parse_chem_formula(e.composition), monoisotopic=True)
        if abs(m - e.mono_mass) > 1e-3:
            return f'{kind} {e.id} {e.name!r}: tabulated mono mass {e.mono_mass} but composition {e.composition} weighs {m}'
        return None

    chk.oracle('table_mono_vs_composition', [(k, e.id) for k in ('unimod', 'mono') for e in entries[k]], o_table_mass,
               nontrivial_fn=lambda c: True, key_fn=lambda c: f'{c[0]}:{c[1]}')

    lap('oracle table')
    # generic forms
    ngen = 3000 if not big else 30000

    def gen_comp_dict():
        d = {}
        for _ in range(rng.randint(1, 5)):
            el = rng.choice(common) if rng.random() < 0.8 else rng.choice(iso_keys)
            v = gen_count()
            if v != 0:
                d[el] = v
        return d

    def w_formula(d):
        return ''.join((f'[{k}{num_txt(v)}]' if (k[0].isdigit() or k in 'DT') else f'{k}{num_txt(v)}') for k, v in d.items())

    gcases = []
    for _ in range(ngen):
        r = rng.random()
        if r < 0.2:
            x = round(rng.uniform(-500, 500), rng.randint(0, 6))
            x = abs(x) if x == 0 else x  # no negative zero
            gcases.append(('number', rng.choice(UNI_PREF + PSI_PREF + XL_PREF + ['R:', 'G:', 'Obs:', 'obs:', '']), x))
        elif r < 0.45:
            gcases.append(('formula', rng.choice(['Formula:', 'formula:']), gen_comp_dict()))
        elif r < 0.65:
            g = []  # (name, count) items; a name may be repeated (repeated names accumulate)
            for _ in range(rng.randint(1, 4)):
                g.append([rng.choice(mono_names) if (not g or rng.random() < 0.75) else rng.choice(g)[0],
                          rng.choice([1, 2, 3, 7, -1, 20, 1.5, -0.5])])
            gcases.append(('glycan', rng.choice(GLY_PREF), g))
        elif r < 0.8:
            gcases.append(('alt', gen_entry_spelling(), rng.choice(['INFO:x', 'info:', 'Obs:+5.5', 'Formula:C2', 'foo', '+1'])))
        elif r < 0.9:
            gcases.append(('tag', gen_base(), rng.choice(['#g1', '#g1(0.5)', '#XL1', '#BRANCH'])))
        else:
            gcases.append(('mult', gen_base(), rng.choice([0, 1, 2, 3, 7, -1])))

    def same(a, b, tol=1e-5):
        if a[0] != b[0]:
            return False
        if a[0] == 'err':
            return a[1] == b[1]
        if isinstance(a[1], dict) or isinstance(b[1], dict):
            return a[1] == b[1]
        if a[1] is None or b[1] is None:
            return a[1] is b[1]
        if isinstance(a[1], float) and math.isnan(a[1]):
            return isinstance(b[1], float) and math.isnan(b[1])
        if a[1] == b[1]:
            return True
        return abs(a[1] - b[1]) <= tol * max(1.0, abs(a[1]) * 1e-3)

    def o_generic(c):
        kind = c[0]
        if kind == 'number':
            _, p, x = c
            txt = ('+' if x >= 0 else '') + num_txt(x)
            got = bucket(lambda: pt.mod_mass(p + txt))
            if got[0] != 'ok' or abs(got[1] - x) > 1e-9:
                return f'mod_mass({p + txt!r}) = {got}, expected the shift {x}'
            # numeric values (not strings) are shifts as well, lists add up, numbers have no composition
            for v in (x, int(x)):
                if pt.mod_mass(v) != v:
                    return f'mod_mass({v!r}) = {pt.mod_mass(v)!r}'
            if abs(pt.mod_mass([Mod(txt, 1), Mod(int(x), 2)]) - (x + 2 * int(x))) > 1e-9:
                return f'mod_mass of the list [{txt}, {int(x)}^2] is not the sum'
            if CC._parse_mod_comp(x) is not None or bucket(lambda: pt.mod_comp(x)) != ('err', 'InvalidCompositionError'):
                return f'mod_comp({x!r}) should raise InvalidCompositionError'
            return None
        if kind == 'formula':
            _, p, d = c
            s = p + w_formula(d)
            for mono in (True, False):
                got = bucket(lambda: pt.mod_mass(s, monoisotopic=mono))
                exp = ref_mass(d, mono)
                if got[0] != 'ok' or abs(got[1] - exp) > 1e-6 * max(1, abs(exp)):
                    return f'mod_mass({s!r}, mono={mono}) = {got}, the formula weighs {exp}'
            gotc = bucket(lambda: pt.mod_comp(s))
            if gotc[0] != 'ok' or gotc[1] != d:
                return f'mod_comp({s!r}) = {gotc}, expected {d}'
            return None
        if kind == 'glycan':
            _, p, g = c
            items = list(g.items()) if isinstance(g, dict) else [tuple(x) for x in g]
            s = p + ''.join(f'{k}{num_txt(v)}' for k, v in items)
            # only unambiguous spellings: at every item no longer vocabulary name is a prefix of the remaining text
            text = s.split(':', 1)[1]
            pos = 0
            for k, v in items:
                if any(len(nm) > len(k) and text[pos:].startswith(nm) for nm in mono_names):
                    return None
                pos += len(k) + len(num_txt(v))
            for mono in (True, False):
                exp = 0.0
                for k, v in items:
                    db = S.MONOSACCHARIDES_DB
                    e = db.get_entry_by_name(k) if db.contains_name(k) else db.get_entry_by_synonym(k)
                    exp += (e.mono_mass if mono else e.avg_mass) * v
                got = bucket(lambda: pt.mod_mass(s, monoisotopic=mono))
                if got[0] != 'ok' or abs(got[1] - exp) > 1e-6 * max(1, abs(exp)):
                    return f'mod_mass({s!r}, mono={mono}) = {got}, the glycan weighs {exp}'
            return None
        if kind == 'alt':
            _, a, b = c
            ra = bucket(lambda: pt.mod_mass(a))
            rb = bucket(lambda: pt.mod_mass(b))
            rab = bucket(lambda: pt.mod_mass(a + '|' + b))
            rba = bucket(lambda: pt.mod_mass(b + '|' + a))
            # first resolvable: if a resolves (or raises) the pair behaves as a; 'InvalidModificationMassError' = not resolvable
            unres = lambda r: r == ('err', 'InvalidModificationMassError')
            exp_ab = rb if unres(ra) else ra
            exp_ba = ra if unres(rb) else rb
            if not same(rab, exp_ab):
                return f'mod_mass({a + "|" + b!r}) = {rab}, first resolvable alternative gives {exp_ab}'
            if not same(rba, exp_ba):
                return f'mod_mass({b + "|" + a!r}) = {rba}, first resolvable alternative gives {exp_ba}'
            return None
        if kind == 'tag':
            _, b, t = c
            if '#' in b or '|' in b or b == '':
                return None
            r0 = bucket(lambda: pt.mod_mass(b))
            r1 = bucket(lambda: pt.mod_mass(b + t))
            if not same(r0, r1):
                return f'mod_mass({b + t!r}) = {r1} but mod_mass({b!r}) = {r0}'
            rt = bucket(lambda: pt.mod_mass(t))
            if rt != ('ok', 0.0):
                return f'mod_mass({t!r}) = {rt}, expected 0'
            return None
        if kind == 'mult':
            _, b, k = c
            r0 = bucket(lambda: pt.mod_mass(b))
            r1 = bucket(lambda: pt.mod_mass(Mod(b, k)))
            if r0[0] == 'ok' and r0[1] is not None and not (isinstance(r0[1], float) and (math.isnan(r0[1]) or math.isinf(r0[1]))):
                if r1[0] != 'ok' or abs(r1[1] - k * r0[1]) > 1e-6 * max(1, abs(k * r0[1])):
                    return f'mod_mass(Mod({b!r}, {k})) = {r1}, expected {k} x {r0[1]}'
            elif r0[0] == 'err' and r1 != r0:
                return f'mod_mass(Mod({b!r}, {k})) = {r1} but the bare value gives {r0}'
            c0 = bucket(lambda: pt.mod_comp(b))
            c1 = bucket(lambda: pt.mod_comp(Mod(b, k)))
            if c0[0] == 'ok':
                exp = {kk: v * k for kk, v in c0[1].items()}
                if c1[0] != 'ok' or set(c1[1]) != set(exp) or any(abs(c1[1][kk] - exp[kk]) > 1e-9 for kk in exp):
                    return f'mod_comp(Mod({b!r}, {k})) = {c1}, expected {exp}'
            return None
        return None

    # deferred validation (C09 clause on the resolver): an unresolvable value raises a ValueError-family error, it never
    # counts as zero silently and never escapes as KeyError / TypeError / IndexError / AttributeError
    def o_value_errors(t):
        for what, fn in (('mod_mass', lambda: pt.mod_mass(t)), ('mod_mass avg', lambda: pt.mod_mass(t, monoisotopic=False)),
                         ('mod_comp', lambda: pt.mod_comp(t))):
            try:
                r = guarded(fn)
            except Hang:
                return f'{what}({t!r}) does not return'
            except ValueError:
                continue
            except Exception as e:  # noqa
                return f'{what}({t!r}) raises {type(e).__name__}: {e} (not in the ValueError family)'
            if r is None:
                return f'{what}({t!r}) returned None'
        return None

    junk = ['', 'foo', 'Acetyll', 'U:', 'U:Foo', 'M:Foo', 'X:Foo', 'R:Foo', 'G:Foo', 'Formula:', 'Formula:Xx2', 'Formula:[13C', 'Formula:C]',
            'Glycan:Foo', 'Glycan:Hex2.1.', 'Obs:', 'Obs:abc', 'INFO:x', 'info:', 'info:x|INFO:y', 'foo|bar', '|', '||', 'U:+1a', 'M:-',
            'x:y:z', ':', 'Unimod', 'N/A', '#', 'foo#g1', 'INFO:x#g1', 'Formula:C2|foo', 'foo|Formula:C2', 'U:Foo|Acetyl']
    chk.oracle('unresolvable_raises_value_error', junk + rnd[:: (2 if not big else 1)], o_value_errors,
               nontrivial_fn=lambda t: True, key_fn=repr)

    # history / aliasing (harness/statecheck_c15.py): a resolver answer must not depend on what a caller did with an earlier
    # answer, nor on the calls made before
    from .. import statecheck_c15 as SC
    hist = SC.History()
    nstate = 300 if not big else 3000
    sstrings = [rng.choice(sp_cases)[2] for _ in range(nstate)] + ['Acetyl', 'U:1', 'MOD:00046', 'X:01000', 'Glycan:Hex2HexNAc',
                                                                   'Formula:C6H12O6', 'Formula:[13C2]H4', 'Glycan:Hex1Hex2']
    sstrings += ['Glycan:' + k for k in mono_names]
    sstrings += [s for s in rnd[:nstate] if '|' not in s]
    iso_cases = []
    mix_cases = []
    for t in dict.fromkeys(sstrings):
        refs = [['mod_comp', [t]], ['mod_mass', [t, True]], ['mod_mass', [t, False]]]
        others = [['mod_comp', [t + '#g1']], ['mod_mass', [t + '|INFO:x', True]], ['mod_comp', [t + '|Obs:+1']]]
        if t.lower().startswith('formula:') and ':' not in t[8:]:
            f = t[8:]
            others += [['parse_chem_formula', [f, '']], ['apply_isotope_mods_to_composition', [f, ['13C']]], ['chem_mass', [f, True, '']]]
        others += [['mod_comp_mult', [t, 2]], ['mod_mass_mult', [t, 3, True]]]
        if all(c not in t for c in '[]{}()<>') and t:
            others += [['comp', ['PEPT[' + t + ']^2IDE']], ['mass', ['PEPT[' + t + ']IDE']]]
        if t.lower().startswith('glycan:') and ':' not in t[7:]:
            others += [['glycan_comp', [t[7:]]], ['glycan_mass', [t[7:], True]], ['parse_glycan_formula', [t[7:], '']]]
        iso_cases.append(refs[0])
        mix_cases.append((refs, others))

    def o_isolation(call):
        r = SC.isolation(call, hist)
        return None if r is None else json.dumps(r, default=str)

    def o_interleave(c):
        r = SC.interleave(rng, c[0], c[1], hist, steps=4)
        return None if r is None else json.dumps(r, default=str)

    chk.oracle('result_isolation', iso_cases, o_isolation, nontrivial_fn=lambda c: True, key_fn=lambda c: json.dumps(c, default=str))
    chk.oracle('interleaved_calls', mix_cases, o_interleave, nontrivial_fn=lambda c: True,
               key_fn=lambda c: json.dumps(c[0][0], default=str))
    try:
        late = hist.recheck_in_process(300 if not big else 2000) + hist.compare_with_fresh_process(rng, 300 if not big else 2000)
    except RuntimeError as e:
        raise core.InfraError(str(e))
    chk.oracle('whole_run_history', late, lambda it: None if it[1] is None else json.dumps(it[1], default=str),
               nontrivial_fn=lambda it: True, key_fn=lambda it: json.dumps(it[0], default=str))
    lap('oracle state')

    chk.oracle('generic_forms', corpus_generic + gcases, o_generic, nontrivial_fn=lambda c: True, key_fn=repr)
    lap('oracle generic')
    rep = reach.stop()
    if rep is not None:
        chk.count('reach_modelled_lines', rep['lines'])
        chk.count('reach_modelled_lines_executed', rep['executed'])
        chk.notes.append('reach: lines of the modelled functions not executed by this run: ' +
                         (json.dumps(rep['uncovered']) if rep['uncovered'] else 'none'))
    if tier == 'thorough':
        chk.leanchecker(PROPS + ['PeptVerif.Props.C10Gen', 'PeptVerif.Generated.ModDbPy', 'PeptVerif.Lemmas.ModDbBranch', 'PeptVerif.Model.ModDbBranch', 'PeptVerif.Lemmas.ModDbLemmas', 'PeptVerif.Lemmas.ModDbSpelling', 'PeptVerif.Lemmas.KSortC10',
                                 'PeptVerif.Lemmas.ModDbGeneric', 'PeptVerif.Model.ModDb', 'PeptVerif.Model.Formula',
                                 'PeptVerif.Model.ModDbFacts'])
        lap('leanchecker')
    if gen_problems:
        confirmed = not gen_vs_hand_bad and not chk.disagreements and not [f for f in chk.failures if not classify(f)]
        if confirmed:
            chk.notes.append('Props/C10Gen: the fixed proof script no longer proves ' + '; '.join(p[:160] for p in gen_problems[:4]) +
                             ' — the source was edited inside the subset; the generated and the hand definitions agree on every '
                             'probe, all correspondences and oracles pass: treated as a refactoring (not a violation); the '
                             'equality theorems are undischarged in this run')
        else:
            chk.lean_problems += gen_problems
            for fname, t, x, y in gen_vs_hand_bad[:5]:
                chk.disagreements.append({'op': 'generated_vs_hand_model', 'line': f'{fname}\t{enc(t)}', 'impl': f'translated source: {x}',
                                          'model': f'hand model: {y}'})
    if chk.generated_changed:
        TV.restore_after_scratch_run()
    return chk.finish(classify)


def _show_convert(s):
    from peptacular.util import convert_type
    r = convert_type(s)
    if isinstance(r, str):
        return 'STR'
    if isinstance(r, float) and (math.isnan(r) or math.isinf(r)):
        return 'SPECIAL'
    return ('f:' if isinstance(r, float) else 'i:') + repr(float(r))


def _cmp_convert(im, m):
    if isinstance(m, str) and '/' not in m:
        return im == m or (im[:2] == m[:2] and im[:2] in ('i:', 'f:') and close(float(im[2:]), float(m[2:]), 1e-12))
    if im in ('STR', 'SPECIAL'):
        return im == m
    if m[:2] != im[:2]:
        return False
    return close(float(im[2:]), float(parse_model_rat(m[2:])), 1e-12)


def run(chk):
    """a check never crashes on an odd tree: an exception escaping a stage (library state the harness did not expect) is
    reported as a failure of the run, with the traceback, not as an infrastructure error"""
    import traceback
    _c = chk.correspond

    def safe_correspond(name, exe, cases, line_fn, impl_fn, compare=None, **kw):
        def cmp(a, b):
            try:
                return compare(a, b)
            except Exception:  # noqa
                return a == b
        return _c(name, exe, cases, line_fn, impl_fn, compare=(cmp if compare else None), **kw)
    chk.correspond = safe_correspond
    try:
        return _run(chk)
    except core.InfraError:
        raise
    except Exception:  # noqa
        tb = traceback.format_exc()
        chk.failures.append({'oracle': 'check_stage_exception', 'case': None,
                             'detail': 'an exception escaped a stage of the check while it was evaluating the implementation '
                                       '(library state or return value the harness did not expect): ' + tb[-1800:]})
        return chk.finish(classify)


def classify(f):
    """KF-C10-bare-name-collision-avg: only a failure of the *bare name* spelling of a Unimod entry whose name is also a
    PSI-MOD name, on the *average* mass, that disappears when the bare spelling is left out"""
    if f.get('oracle') != 'spelling_invariance':
        return None
    import peptacular as pt
    from peptacular.mods import mod_db_setup as S
    kind, eid = f['case']
    if kind != 'unimod' or not f['detail'].startswith('avg mass: spelling'):
        return None
    e = S.UNIMOD_DB.get_entry_by_id(eid)
    if e is None or not S.PSI_MOD_DB.contains_name(e.name):
        return None
    if not f['detail'].startswith(f'avg mass: spelling {e.name!r} gives'):
        return None
    if spelling_failure(pt, kind, e, include_bare=False) is not None:
        return None
    # the bare name must still agree in mono mass and composition with the entry's own (those clauses are not excused)
    p = S.PSI_MOD_DB.get_entry_by_name(e.name)
    if p.mono_mass is None or abs(p.mono_mass - e.mono_mass) > 1e-5:
        return None
    if pt.mod_comp(e.name) != pt.mod_comp('U:' + e.id):
        return None
    return 'KF-C10-bare-name-collision-avg'


def replay(chk, obj):
    """re-run the stored failing case on the real code"""
    import json
    import peptacular as pt
    print(json.dumps(obj, indent=1)[:3000])
    case = obj.get('case')
    if obj.get('oracle') == 'spelling_invariance' and case:
        from peptacular.mods import mod_db_setup as S
        DB = {'unimod': S.UNIMOD_DB, 'psi': S.PSI_MOD_DB, 'xlmod': S.XLMOD_DB, 'mono': S.MONOSACCHARIDES_DB}
        e = DB[case[0]].get_entry_by_id(case[1])
        for sp, _ in spellings(case[0], e):
            print(repr(sp), bucket(lambda: pt.mod_mass(sp)), bucket(lambda: pt.mod_comp(sp)))
    return 0
