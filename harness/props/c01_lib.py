"""Shared by C01 and C09: implementation wrappers, reply canonicalisation, the grammar-directed generator
(string + expected structure built together), token alphabets, mutation."""
import glob
import json
import os
import re
import signal

from .. import annot
from ..annot import esc, unesc

DRV01 = 'drv_c01'
DRV09 = 'drv_c09'


def _mods():
    import peptacular as pt
    from peptacular.proforma import proforma_parser as pp
    from peptacular.proforma.proforma_dataclasses import Mod, Interval
    from peptacular.errors import ProFormaFormatError
    return pt, pp, Mod, Interval, ProFormaFormatError


# ----------------------------------------------------------------------------- implementation side

class Hang(Exception):
    pass


def _alarm(signum, frame):
    raise Hang('call exceeded the time limit')


def with_alarm(fn, seconds=5.0):
    """run fn() with a wall-clock limit (hang detection)"""
    old = signal.signal(signal.SIGALRM, _alarm)
    signal.setitimer(signal.ITIMER_REAL, seconds)
    try:
        return fn()
    finally:
        signal.setitimer(signal.ITIMER_REAL, 0)
        signal.signal(signal.SIGALRM, old)


def err_name(e):
    _, _, _, _, PFE = _mods()
    if isinstance(e, Hang):
        return 'HANG'
    if isinstance(e, PFE):
        return 'ProFormaFormatError'
    if isinstance(e, ValueError):
        return 'ValueError'
    return type(e).__name__


def is_value_family(name):
    return name in ('ProFormaFormatError', 'ValueError')


def dump_conn(c):
    return 'N' if c is None else ('1' if c is True else ('0' if c is False else 'X' + esc(repr(c))))


def dump_multi(m):
    parts = []
    n = len(m.annotations)
    for i, a in enumerate(m.annotations):
        parts.append(annot.dump(a))
        if i != n - 1:
            parts.append(dump_conn(m.connections[i]) if i < len(m.connections) else '!')
    return '~'.join(parts)


def dump_any(x):
    _, pp, _, _, _ = _mods()
    if isinstance(x, pp.ProFormaAnnotation):
        return 'A' + annot.dump(x)
    if isinstance(x, pp.MultiProFormaAnnotation):
        return 'M' + dump_multi(x)
    return 'X' + esc(repr(x))


def undump_any(s):
    _, pp, _, _, _ = _mods()
    if s[0] == 'A':
        return annot.undump(s[1:])
    parts = s[1:].split('~') if len(s) > 1 else []
    anns = [annot.undump(p) for p in parts[0::2]]
    conns = [None if c == 'N' else c == '1' for c in parts[1::2]]
    return pp.MultiProFormaAnnotation(anns, conns)


def impl_parse(s):
    pt = _mods()[0]
    try:
        return dump_any(pt.parse(s))
    except Exception as e:  # noqa
        return 'ERR:' + err_name(e)


def impl_serialize(obj, plus):
    pt = _mods()[0]
    try:
        return 'S' + esc(pt.serialize(obj, plus))
    except Exception as e:  # noqa
        return 'ERR:' + err_name(e)


def impl_convert(s):
    from peptacular.util import convert_type
    return annot.show_val(convert_type(s))


# ----------------------------------------------------------------------------- reply canonicalisation

_OPAQUE = re.compile(r'f%7E([^\^;&|,~]*)')


def _num_norm(m):
    try:
        return 'f' + esc(repr(float(unesc(m.group(1)))))
    except ValueError:
        return m.group(0)


def norm_reply(r):
    """sort dict entries of every annotation dump; opaque floats (`~text`) -> repr of the float they denote"""
    if not r or r[0] not in 'AM':
        return r
    if r[0] == 'A':
        body = annot.canon_dump(r[1:])
    else:
        parts = r[1:].split('~')
        body = '~'.join(annot.canon_dump(p) if i % 2 == 0 else p for i, p in enumerate(parts))
    return r[0] + _OPAQUE.sub(_num_norm, body)


def has_opaque(r):
    return 'f%7E' in r


def same_reply(impl, model):
    return impl == model or impl == norm_reply(model)


# ----------------------------------------------------------------------------- vocabulary

_VOCAB = None


def _balanced(t, o, c):
    d = 1
    for ch in t:
        if ch == o:
            d += 1
        elif ch == c:
            d -= 1
            if d == 0:
                return False
    return d == 1


def _is_number(t):
    try:
        float(t)
        return True
    except ValueError:
        return False


def vocab():
    """modification spellings drawn from the loaded vocabularies: names and accessions with and without prefix"""
    global _VOCAB
    if _VOCAB is not None:
        return _VOCAB
    from peptacular.mods import mod_db_setup as m
    out = {'unimod': [], 'psi': [], 'xlmod': []}
    for key, db, long, short in (('unimod', m.UNIMOD_DB, 'UNIMOD', 'U'), ('psi', m.PSI_MOD_DB, 'MOD', 'M'),
                                 ('xlmod', m.XLMOD_DB, 'XLMOD', 'X')):
        names = sorted(db.name_map.keys())
        ids = sorted(db.id_map.keys())
        for n in names:
            n = str(n)
            if not n or _is_number(n) or not n.isascii() or not n.isprintable():
                continue
            out[key].append(n)
            out[key].append(short + ':' + n)
        for i in ids:
            out[key].append(f'{long}:{i}')
            out[key].append(f'{short}:{i}')
    out['other'] = ['RESID:AA0581', 'R:AA0037', 'GNO:G59626AS', 'G:G62765YT', 'U:+1', 'M:-3.1415', 'R:+3.1415', 'G:-1']
    _VOCAB = out
    return out


FORMULAS = ['Formula:C2H3NO', 'Formula:[13C2]H4', 'Formula:C-1H2', 'Formula:H2O', 'Formula:[13C2]C-2H3N',
            'Formula:C12H22O11', 'Formula:[13C6]H12O6[12C-4]', 'Formula:C2H-5O', 'Formula:[13C2][12C-2]H2N']
GLYCANS = ['Glycan:Hex', 'Glycan:HexNAc2Hex3', 'Glycan:Hex2Fuc', 'Glycan:HexNAc2Hex3Neu1', 'Glycan:6BAAE1B1']
OBS_INFO = ['Obs:+17.05', 'Obs:-18.01', 'INFO:note', 'INFO:Cool', 'INFO:any text, with: punctuation']
TAGS = ['#g1', '#XL1', '#BRANCH', 'Phospho#g1', 'Oxidation#s1(0.75)', 'Phospho#g1(0.01)', '+79.966#g2', '#g1(0.99)']
INTS = [1, -1, 100, 42, -17, 7, 1000000, 0]
FLOATS = [15.995, -18.0106, 0.5, 42.0106, 79.97, 1.5, -17.03, 3.1415, -3.1415, 57.02146, 1.0, -1.0, 100.0, 0.984,
          0.001, 123456.789, 2.0]
ISOTOPES = ['13C', '15N', '18O', 'D', 'T', '17O', '34S', '2H', '12C', '14N']
TARGETS = ['C', 'M', 'S,T', 'N-Term', 'C-Term', 'K', 'A,N-Term', 'N-Term:Q', 'C-Term:K', 'S,T,Y']
ADDUCTS = ['+H+', '+Na+', '+2Na+', '+K+', '-H+', '+Ca+2', '+Cl-', '+e-', '+Li+', '+Mg+2', '2I-', '+2Na+,+H+', '+2Na+,-H+']
RES26 = 'ABCDEFGHIJKLMNOPQRSTUVWXYZ'
RES20 = 'ACDEFGHIKLMNPQRSTVWY'


HARD_FLOATS = [0.1 + 0.2, 1234.56789012, 15.99491461957, 1 / 3, 200 / 3, 0.1, 2.675, 4.35, 1.0000000000000002,
               0.30000000000000004, 999999.9999999999, 123456789012345.6, 0.0001234567890123, 0.00012345, 57.021463735,
               79.96633052075, 42.010564684, 0.984015583, 15.994914619, 1.00727646688, 27.99491461957, 1e-4, 9999999999.5,
               123456.7890123, 0.9999999999, 1.999999999999, 100000.00001, 3.141592653589793, 2.718281828459045, 299792458.123]


def hard_floats(rng, n, max_sig=17, min_sig=1):
    """floats over the whole repr range: 1..max_sig significant digits, magnitudes 1e-4 .. 1e15, both signs,
    trailing 9s / 0s, plus a fixed list of classics; every value has at most max_sig significant digits in its repr"""
    out = []
    pool = [x for x in HARD_FLOATS + [-x for x in HARD_FLOATS]]
    while len(out) < n:
        k = rng.random()
        if k < 0.3:
            x = rng.choice(pool)
        else:
            e = rng.randint(-4, 14)
            x = rng.uniform(1, 10) * 10 ** e
            if k < 0.5:      # trailing 9s / 0s
                x = float(('%.' + str(rng.randint(1, 6)) + 'g') % x) + rng.choice([1, -1]) * 10 ** (e - rng.randint(9, 14))
            sig = rng.randint(min_sig, max_sig)
            x = float(('%.' + str(sig) + 'g') % x)
            if rng.random() < 0.4:
                x = -x
        digits = repr(abs(x)).replace('.', '').lstrip('0')
        if 'e' in digits:
            digits = digits.split('e')[0]
        if x != 0 and len(digits.rstrip('0')) <= max_sig and len(digits.rstrip('0')) >= min(min_sig, 1):
            out.append(x)
    return out


def float_annotations(rng, n, max_sig=17):
    """annotations with a float modification at EVERY numeric position (labile, unknown, N-term, C-term, residues, interval)"""
    _, pp, _, Interval, _ = _mods()
    out = []
    for _ in range(n):
        fl = hard_floats(rng, 9, max_sig)
        m = [mk_mod(x, rng.choice([1, 1, 2, 3])) for x in fl]
        out.append(pp.ProFormaAnnotation(
            _sequence='PEPTIDEK', _labile_mods=[m[0]], _unknown_mods=[m[1]], _nterm_mods=[m[2]], _cterm_mods=[m[3]],
            _internal_mods={0: [m[4]], 3: [m[5], m[6]], 7: [m[7]]}, _intervals=[Interval(1, 3, False, [m[8]])],
            _charge=rng.choice([None, 2, -1])))
    return out


def mk_mod(val, mult):
    """a Mod with exactly these field values (bypasses convert_type: the expectation is independent of it)"""
    Mod = _mods()[2]
    m = Mod.__new__(Mod)
    m.val = val
    m.mult = mult
    return m


class Gen:
    """Builds ProForma strings from the grammar together with the structure they denote.

    style: False / True  -> canonical spelling for include_plus False / True (serialize(parse(s), style) == s expected)
           'mixed'       -> any accepted spelling of numbers (sign, trailing zeros) and any order of the leading sections
    """

    def __init__(self, rng, chk=None):
        self.rng = rng
        self.chk = chk
        self.v = vocab()

    def cnt(self, k):
        if self.chk is not None:
            self.chk.count(k)

    # -- one modification value: (text, expected python value)
    def value(self, style, brackets='[]', allow_numbers=True):
        r = self.rng
        o, c = brackets
        for _ in range(50):
            kind = r.choice(['unimod', 'unimod', 'psi', 'xlmod', 'other', 'formula', 'glycan', 'obsinfo', 'tag', 'alt',
                             'int', 'int', 'float', 'float', 'float'] if allow_numbers else
                            ['unimod', 'psi', 'xlmod', 'other', 'formula', 'glycan', 'obsinfo', 'tag', 'alt'])
            if kind in ('unimod', 'psi', 'xlmod', 'other'):
                t = r.choice(self.v[kind])
                val = t
            elif kind == 'formula':
                t = val = r.choice(FORMULAS)
            elif kind == 'glycan':
                t = val = r.choice(GLYCANS)
            elif kind == 'obsinfo':
                t = val = r.choice(OBS_INFO)
            elif kind == 'tag':
                t = val = r.choice(TAGS)
            elif kind == 'alt':
                a = r.choice(self.v['unimod'])
                b = r.choice(['INFO:ok', '+15.995', 'Obs:+15.99', r.choice(self.v['psi'])])
                t = val = a + '|' + b
            elif kind == 'int':
                val = r.choice(INTS) if r.random() < 0.7 else r.randint(-10 ** 6, 10 ** 6)
                t = self.spell_number(val, style)
            else:
                k2 = r.random()
                if k2 < 0.4:
                    val = r.choice(FLOATS)
                elif k2 < 0.6:
                    val = round(r.uniform(-2000, 2000), r.randint(1, 6))
                else:       # the whole repr range the model covers exactly: up to 15 significant digits, 1e-4 .. 1e15
                    val = hard_floats(r, 1, max_sig=15)[0]
                t = self.spell_number(val, style)
            if _balanced(t, o, c) and (kind in ('int', 'float') or not _is_number(t)):
                self.cnt('value:' + kind)
                return t, val
        return 'Oxidation', 'Oxidation'

    def spell_number(self, val, style):
        r = self.rng
        base = repr(val)
        if style is True:
            return '+' + base if val > 0 else base
        if style is False:
            return base
        # mixed: optional plus, trailing zeros on floats
        t = base
        if isinstance(val, float) and 'e' not in t and r.random() < 0.3:
            t = t + '0' * r.randint(1, 3)
        if val > 0 and r.random() < 0.5:
            t = '+' + t
        return t

    def mod(self, style, brackets='[]', mult_ok=True):
        t, val = self.value(style, brackets)
        mult = 1
        txt = brackets[0] + t + brackets[1]
        if mult_ok and self.rng.random() < 0.2:
            mult = self.rng.choice([2, 2, 3, 5, 10, 12])
            txt += '^%d' % mult
            self.cnt('multiplier')
        return txt, mk_mod(val, mult)

    def mods(self, style, brackets='[]', mult_ok=True, kmax=3):
        k = self.rng.choice([1, 1, 1, 2, 2, 3][:max(1, kmax * 2)])
        pairs = [self.mod(style, brackets, mult_ok) for _ in range(k)]
        return ''.join(p[0] for p in pairs), [p[1] for p in pairs]

    def chain(self, style, p=0.35, max_len=12):
        """(text, ProFormaAnnotation expected)"""
        r = self.rng
        pp = _mods()[1]
        Interval = _mods()[3]
        n = r.randint(1, max_len)
        seq = ''.join(r.choice(RES26 if r.random() < 0.3 else RES20) for _ in range(n))
        exp = pp.ProFormaAnnotation(_sequence=seq)
        sections = []   # (order key, text)
        if r.random() < p:
            t, ms = self.mods(style, '{}')
            exp._labile_mods = ms
            sections.append((0, t))
            self.cnt('labile')
        stat, iso = [], []
        glob_txt = []
        if r.random() < p:
            for _ in range(r.randint(1, 2)):
                t, val = self.value(style, '[]')
                mt = '[' + t + ']'
                if r.random() < 0.15:
                    mt += '^2'      # multiplier inside the rule text: part of the str value
                rule = mt + '@' + r.choice(TARGETS)
                if not _balanced(rule, '<', '>'):
                    rule = '[Oxidation]@M'
                stat.append((rule, mk_mod(rule, 1)))
            self.cnt('static')
        if r.random() < p:
            for lab in r.sample(ISOTOPES, r.randint(1, 2)):
                iso.append((lab, mk_mod(lab, 1)))
            self.cnt('isotope')
        if style == 'mixed':
            both = [('s', x) for x in stat] + [('i', x) for x in iso]
            r.shuffle(both)
            gl = ''.join('<' + x[1][0] + '>' for x in both)
            stat = [x[1] for x in both if x[0] == 's']
            iso = [x[1] for x in both if x[0] == 'i']
        else:
            gl = ''.join('<' + x[0] + '>' for x in stat) + ''.join('<' + x[0] + '>' for x in iso)
        if stat:
            exp._static_mods = [x[1] for x in stat]
        if iso:
            exp._isotope_mods = [x[1] for x in iso]
        if gl:
            sections.append((1, gl))
        if r.random() < p:
            t, ms = self.mods(style)
            exp._unknown_mods = ms
            sections.append((2, t + '?'))
            self.cnt('unknown')
        if r.random() < p:
            t, ms = self.mods(style)
            exp._nterm_mods = ms
            sections.append((3, t + '-'))
            self.cnt('nterm')
        if style == 'mixed':
            r.shuffle(sections)
        start = ''.join(t for _, t in sections)
        # intervals
        ivs = []
        if n >= 1 and r.random() < p:
            pos = 0
            while pos < n and len(ivs) < 3:
                s = r.randint(pos, n - 1)
                e = r.randint(s + 1, n)
                ivs.append([s, e, r.random() < 0.3, None, ''])
                if r.random() < 0.7:
                    t, ms = self.mods(style)
                    ivs[-1][3] = ms
                    ivs[-1][4] = t
                pos = e
                if r.random() < 0.4:
                    break
            self.cnt('intervals')
            if ivs and ivs[0][0] == 0:
                self.cnt('interval-opening-at-0')
            if ivs and ivs[-1][1] == n:
                self.cnt('interval-closing-at-n')
        internal = {}
        mid = []
        for i in range(n + 1):
            for iv in ivs:
                if iv[1] == i:
                    mid.append(')' + iv[4])
            if i == n:
                break
            for iv in ivs:
                if iv[0] == i:
                    mid.append('(?' if iv[2] else '(')
            mid.append(seq[i])
            if r.random() < p * 0.6:
                t, ms = self.mods(style)
                internal[i] = ms
                mid.append(t)
        if internal:
            exp._internal_mods = internal
            self.cnt('internal')
        if ivs:
            exp._intervals = [Interval(iv[0], iv[1], iv[2], iv[3]) for iv in ivs]
        end = ''
        if r.random() < p:
            t, ms = self.mods(style)
            exp._cterm_mods = ms
            end += '-' + t
            self.cnt('cterm')
        if r.random() < p:
            ch = r.choice([1, 2, 3, -1, -2, 4, 10, -12])
            exp._charge = ch
            if style == 'mixed' and ch > 0 and r.random() < 0.3:
                end += '/+%d' % ch
            else:
                end += '/%d' % ch
            self.cnt('charge')
            if r.random() < 0.5:
                ad = []
                for _ in range(r.choice([1, 1, 2])):
                    ad.append(r.choice(ADDUCTS))
                exp._charge_adducts = [mk_mod(a, 1) for a in ad]
                end += ''.join('[' + a + ']' for a in ad)
                self.cnt('adducts')
        return start + ''.join(mid) + end, exp

    def proforma(self, style, chains=None, crosslink_p=0.25):
        """(text, expected object, n_chains, has_crosslink)"""
        r = self.rng
        pp = _mods()[1]
        k = chains if chains is not None else r.choice([1, 1, 1, 2, 2, 3])
        parts = [self.chain(style) for _ in range(k)]
        if k == 1:
            return parts[0][0], parts[0][1], 1, False
        conns = [r.random() < crosslink_p for _ in range(k - 1)]
        txt = parts[0][0]
        for (t, _), cn in zip(parts[1:], conns):
            txt += ('//' if cn else '+') + t
        self.cnt('chains:%d' % k)
        return txt, pp.MultiProFormaAnnotation([p[1] for p in parts], conns), k, any(conns)


# ----------------------------------------------------------------------------- token alphabet (C09)

TOKENS = ['P', 'E', '[', ']', '(', ')', '{', '}', '<', '>', '?', '-', '+', '/', '^', '@', '#', '|', ':', ',', '.', '1', '0',
          'Oxidation', '\\', ' ']
TOKENS_WIDE = TOKENS + ['C', 'N-Term', '3', '9', 'e', '_', 'inf', 'nan', 'Formula:', 'x', '\t', 'U:', '13C', '2', 'K', '//']


def tokenize(s):
    """split a string into tokens of the wide alphabet (longest match), single characters otherwise"""
    toks = sorted(set(TOKENS_WIDE), key=len, reverse=True)
    out = []
    i = 0
    while i < len(s):
        for t in toks:
            if len(t) > 1 and s.startswith(t, i):
                out.append(t)
                i += len(t)
                break
        else:
            out.append(s[i])
            i += 1
    return out


def mutate(rng, s, alphabet=None):
    """one single-token mutation: delete / insert / swap / duplicate / replace"""
    alphabet = alphabet or TOKENS_WIDE
    toks = tokenize(s)
    if not toks:
        return rng.choice(alphabet)
    op = rng.choice(['delete', 'insert', 'swap', 'duplicate', 'replace'])
    i = rng.randrange(len(toks))
    if op == 'delete':
        del toks[i]
    elif op == 'insert':
        toks.insert(i, rng.choice(alphabet))
    elif op == 'swap' and len(toks) > 1:
        j = min(i + 1, len(toks) - 1)
        toks[i], toks[j] = toks[j], toks[i]
    elif op == 'duplicate':
        toks.insert(i, toks[i])
    else:
        toks[i] = rng.choice(alphabet)
    return ''.join(toks)


# ----------------------------------------------------------------------------- test-file strings and corpus

def test_strings():
    """string literals of the repo's own tests that the parser accepts (the hand-written examples)"""
    from ..core import REPO
    pt = _mods()[0]
    out = []
    seen = set()
    for path in sorted(glob.glob(os.path.join(REPO, 'tests', 'test_proforma.py'))):
        src = open(path).read()
        for m in re.finditer(r"""(?<![A-Za-z0-9_])[rbu]?(?:'([^'\\\n]*)'|"([^"\\\n]*)")""", src):
            s = m.group(1) if m.group(1) is not None else m.group(2)
            if not s or s in seen or len(s) > 200:
                continue
            seen.add(s)
            if not any(ch in s for ch in '[]{}<>()/'):
                continue
            try:
                pt.parse(s)
            except Exception:  # noqa
                continue
            out.append(s)
    return out


def load_corpus(pid):
    from ..core import VERIF
    out = []
    for path in sorted(glob.glob(os.path.join(VERIF, 'corpus', pid, '*.jsonl'))):
        for line in open(path):
            line = line.strip()
            if line:
                out.append(json.loads(line))
    return out


# ----------------------------------------------------------------------------- reach of the modelled functions

class Reach:
    """records which lines of the modelled Python functions are executed (sys.monitoring, Python 3.12)"""

    TOOL = 4

    def __init__(self, serializer=True):
        import sys
        pt, pp, Mod, Interval, PFE = _mods()
        from peptacular import util
        P = pp._ProFormaParser
        funcs = [P.parse, P._parse_sequence_start, P._parse_sequence_middle, P._parse_sequence_end, P._parse_char,
                 P._parse_modifications, P._parse_modification, P._parse_integer, P._add_internal_mod, P._add_interval,
                 P._get_result, pp.parse, pp._is_unmodified, util.convert_type]
        if serializer:
            funcs += [pp._serialize_annotation_start, pp._serialize_annotation_middle, pp._serialize_annotation_end,
                      pp.MultiProFormaAnnotation.serialize, Mod.serialize]
        self.codes = {}
        for f in funcs:
            f = getattr(f, '__wrapped__', f)
            co = f.__code__
            lines = {ln for (_, _, ln) in co.co_lines() if ln is not None and ln != co.co_firstlineno}
            self.codes[co] = (f.__qualname__, lines)
        self.hit = {co: set() for co in self.codes}
        self.mon = getattr(sys, 'monitoring', None)
        self.active = False

    def __enter__(self):
        m = self.mon
        if m is None:
            return self
        try:
            m.use_tool_id(self.TOOL, 'verif-reach')
        except ValueError:
            return self
        self.active = True
        m.restart_events()

        def on_line(code, line):
            h = self.hit.get(code)
            if h is not None:
                h.add(line)
            return m.DISABLE        # each location reports once: no overhead afterwards

        m.register_callback(self.TOOL, m.events.LINE, on_line)
        for co in self.codes:
            m.set_local_events(self.TOOL, co, m.events.LINE)
        return self

    def __exit__(self, *a):
        if self.active:
            m = self.mon
            for co in self.codes:
                m.set_local_events(self.TOOL, co, 0)
            m.register_callback(self.TOOL, m.events.LINE, None)
            m.free_tool_id(self.TOOL)
            self.active = False

    def report(self):
        if self.mon is None:
            return {'available': False}
        tot = hit = 0
        missing = {}
        for co, (name, lines) in self.codes.items():
            tot += len(lines)
            got = self.hit[co] & lines
            hit += len(got)
            miss = sorted(lines - got)
            if miss:
                missing[name] = miss
        return {'available': True, 'lines_of_modelled_functions': tot, 'lines_executed': hit, 'not_executed': missing}


# ----------------------------------------------------------------------------- surface-syntax trees (mirror of Spec/ProForma.lean)

class TreeGen:
    """random surface-syntax trees: the Python twin of `SText` with its own `render` and `denote`
    (independent of the library and of the Lean definitions; the three are compared on every run)"""

    def __init__(self, rng, chk=None):
        self.rng = rng
        self.g = Gen(rng, chk)

    def smod(self, brackets='[]', mult_ok=True, one_ok=True):
        t, val = self.g.value('mixed', brackets)
        mult = None
        if mult_ok and self.rng.random() < 0.25:
            mult = self.rng.choice([1, 2, 2, 3, 10, 12] if one_ok else [2, 3, 10])
        return {'txt': t, 'mult': mult, 'val': val}

    def smods(self, brackets='[]', kmin=1, kmax=3, mult_ok=True):
        return [self.smod(brackets, mult_ok) for _ in range(self.rng.randint(kmin, kmax))]

    def gmod(self):
        r = self.rng
        if r.random() < 0.5:
            lab = r.choice(ISOTOPES)
            return {'txt': lab, 'mult': r.choice([None, None, 1]), 'val': lab}
        for _ in range(20):
            t, _ = self.g.value('mixed', '[]')
            rule = '[' + t + ']' + ('^2' if r.random() < 0.1 else '') + '@' + r.choice(TARGETS)
            if _balanced(rule, '<', '>'):
                return {'txt': rule, 'mult': None, 'val': rule}
        return {'txt': '[Oxidation]@M', 'mult': None, 'val': '[Oxidation]@M'}

    def chain(self, max_len=8):
        r = self.rng
        start = []
        for _ in range(r.choice([0, 0, 1, 2, 3, 4])):
            k = r.choice('LGUT')
            if k == 'G' and start and start[-1][0] == 'G':
                k = 'L'
            if k == 'L':
                start.append(('L', self.smod('{}')))
            elif k == 'G':
                start.append(('G', [self.gmod() for _ in range(r.randint(1, 3))]))
            else:
                start.append((k, self.smods()))
        segs = []
        n = r.randint(1, max_len)
        i = 0
        while i < n:
            if r.random() < 0.25:
                m = r.randint(1, min(3, n - i))
                inner = [(r.choice(RES26), self.smods(kmin=0, kmax=2) if r.random() < 0.3 else []) for _ in range(m)]
                segs.append(('I', r.random() < 0.4, inner, self.smods(kmin=0, kmax=2) if r.random() < 0.6 else []))
                i += m
            else:
                segs.append(('R', (r.choice(RES26), self.smods(kmin=0, kmax=2) if r.random() < 0.3 else [])))
                i += 1
        cterm = self.smods() if r.random() < 0.3 else []
        charge = None
        if r.random() < 0.4:
            ad = []
            if r.random() < 0.5:
                ad = [{'txt': a, 'mult': r.choice([None, None, 1]), 'val': a} for a in r.sample(ADDUCTS, r.randint(1, 2))]
            charge = (r.choice([1, 2, 3, -1, -2, 10, 0]), r.random() < 0.3, ad)
        return {'start': start, 'segs': segs, 'cterm': cterm, 'charge': charge}

    def tree(self):
        r = self.rng
        k = r.choice([1, 1, 1, 2, 2, 3])
        return [(None, self.chain())] + [(r.random() < 0.3, self.chain()) for _ in range(k - 1)]


def _r_mod(m, o='[', c=']'):
    return o + m['txt'] + c + ('' if m['mult'] is None else '^%d' % m['mult'])


def _r_mods(ms, o='[', c=']'):
    return ''.join(_r_mod(m, o, c) for m in ms)


def tree_render(tree):
    out = []
    for j, ch in tree:
        if j is not None:
            out.append('//' if j else '+')
        for it in ch['start']:
            if it[0] == 'L':
                out.append(_r_mod(it[1], '{', '}'))
            elif it[0] == 'G':
                out.append(_r_mods(it[1], '<', '>'))
            elif it[0] == 'U':
                out.append(_r_mods(it[1]) + '?')
            else:
                out.append(_r_mods(it[1]) + '-')
        for sg in ch['segs']:
            if sg[0] == 'R':
                out.append(sg[1][0] + _r_mods(sg[1][1]))
            else:
                out.append('(' + ('?' if sg[1] else '') + ''.join(c + _r_mods(ms) for c, ms in sg[2]) + ')' + _r_mods(sg[3]))
        if ch['cterm']:
            out.append('-' + _r_mods(ch['cterm']))
        if ch['charge'] is not None:
            z, plus, ad = ch['charge']
            out.append('/' + ('+' if plus and z >= 0 else '') + str(z) + _r_mods(ad))
    return ''.join(out)


def _d_mod(m):
    return mk_mod(m['val'], 1 if m['mult'] is None else m['mult'])


def chain_denote(ch):
    _, pp, _, Interval, _ = _mods()
    a = pp.ProFormaAnnotation(_sequence='')
    lab, st, iso, unk, nt = [], [], [], [], []
    for it in ch['start']:
        if it[0] == 'L':
            lab.append(_d_mod(it[1]))
        elif it[0] == 'G':
            for m in it[1]:
                (st if '@' in m['txt'] else iso).append(_d_mod(m))
        elif it[0] == 'U':
            unk += [_d_mod(m) for m in it[1]]
        else:
            nt += [_d_mod(m) for m in it[1]]
    seq = []
    internal = {}
    ivs = []
    for sg in ch['segs']:
        residues = [sg[1]] if sg[0] == 'R' else sg[2]
        first = len(seq)
        for c, ms in residues:
            if ms:
                internal[len(seq)] = [_d_mod(m) for m in ms]
            seq.append(c)
        if sg[0] == 'I':
            ivs.append(Interval(first, len(seq), sg[1], [_d_mod(m) for m in sg[3]] or None))
    a._sequence = ''.join(seq)
    a._labile_mods = lab or None
    a._static_mods = st or None
    a._isotope_mods = iso or None
    a._unknown_mods = unk or None
    a._nterm_mods = nt or None
    a._internal_mods = internal or None
    a._intervals = ivs or None
    a._cterm_mods = [_d_mod(m) for m in ch['cterm']] or None
    if ch['charge'] is not None:
        a._charge = ch['charge'][0]
        a._charge_adducts = [_d_mod(m) for m in ch['charge'][2]] or None
    return a


def tree_denote(tree):
    _, pp, _, _, _ = _mods()
    anns = [chain_denote(ch) for _, ch in tree]
    if len(anns) == 1:
        return anns[0]
    return pp.MultiProFormaAnnotation(anns, [j for j, _ in tree[1:]])


def _w_mod(m):
    return esc(m['txt']) + '^' + ('N' if m['mult'] is None else str(m['mult']))


def _w_mods(ms):
    return ';'.join(_w_mod(m) for m in ms)


def wire_tree(tree):
    parts = []
    for j, ch in tree:
        if j is not None:
            parts.append('1' if j else '0')
        st = '&'.join((it[0] + ':' + (_w_mod(it[1]) if it[0] == 'L' else _w_mods(it[1]))) for it in ch['start'])
        sg = '&'.join(('R:' + esc(s[1][0]) + '=' + _w_mods(s[1][1])) if s[0] == 'R' else
                      ('I:' + ('1' if s[1] else '0') + ':' + ','.join(esc(c) + '=' + _w_mods(ms) for c, ms in s[2]) + ':' + _w_mods(s[3]))
                      for s in ch['segs'])
        q = 'N' if ch['charge'] is None else '%d:%d:%s' % (ch['charge'][0], int(ch['charge'][1]), _w_mods(ch['charge'][2]))
        parts.append('|'.join([st, sg, _w_mods(ch['cterm']), q]))
    return '~'.join(parts)


# ----------------------------------------------------------------------------- fresh interpreter

def run_fresh(code, timeout=600, stdin=''):
    """run python code in a fresh interpreter against the same repo; returns (returncode, stdout)"""
    import subprocess, sys
    from ..core import REPO
    env = dict(os.environ)
    env['PYTHONPATH'] = os.path.join(REPO, 'src') + os.pathsep + env.get('PYTHONPATH', '')
    env['PYTHONWARNINGS'] = 'ignore'
    p = subprocess.run([sys.executable, '-W', 'ignore', '-c', code], capture_output=True, text=True, env=env, cwd='/tmp',
                       timeout=timeout, input=stdin)
    return p.returncode, p.stdout + p.stderr[-2000:]


def fresh_verdicts(items):
    """items: [(text, params)], evaluated in ONE fresh interpreter before any valid call has been made there:
    True iff mass(text, **params) raises (the value is unresolvable in a clean state)"""
    code = ('import json, sys, peptacular as pt\n'
            'items = json.loads(sys.stdin.read())\n'
            'out = []\n'
            'for text, prm in items:\n'
            '    try:\n'
            '        pt.mass(text, **prm); out.append(False)\n'
            '    except Exception:\n'
            '        out.append(True)\n'
            'print("VERDICTS" + json.dumps(out))\n')
    rc, out = run_fresh(code, stdin=json.dumps(items))
    for line in out.split('\n'):
        if line.startswith('VERDICTS'):
            return json.loads(line[len('VERDICTS'):])
    raise RuntimeError('fresh interpreter failed: ' + out[-500:])


# ----------------------------------------------------------------------------- state leaking between parse calls

def mutate_in_place(obj):
    """edit a parse result in place at every container level (lists of mods, the dict and its lists, Interval objects,
    Mod objects, scalar fields, the chain list of a multi annotation)"""
    _, pp, Mod, Interval, _ = _mods()
    if isinstance(obj, pp.MultiProFormaAnnotation):
        for a in obj.annotations:
            mutate_in_place(a)
        obj.connections.append(True)
        if obj.connections:
            obj.connections[0] = not obj.connections[0]
        obj.annotations.append(pp.ProFormaAnnotation(_sequence='LEAK'))
        return
    a = obj
    extra = mk_mod('Oxidation', 1)
    for f in ('_labile_mods', '_unknown_mods', '_nterm_mods', '_cterm_mods', '_static_mods', '_isotope_mods',
              '_charge_adducts'):
        l = getattr(a, f)
        if l is not None:
            if l:
                l[0].mult += 1            # a Mod object shared with a cache would leak this
                l[0].val = 'LEAK'
            l.append(extra)
            l.insert(0, mk_mod('First', 2))
    if a._internal_mods is not None:
        for k in list(a._internal_mods):
            l = a._internal_mods[k]
            if l:
                l[0].mult += 1
            l.append(extra)
        a._internal_mods[10 ** 6] = [extra]
        first = next(iter(a._internal_mods))
        del a._internal_mods[first]
    if a._intervals is not None:
        for iv in a._intervals:
            iv.start += 1
            iv.end += 1
            iv.ambiguous = not iv.ambiguous
            if iv.mods is not None:
                iv.mods.append(extra)
            else:
                iv.mods = [extra]
        a._intervals.append(Interval(0, 1, True, [extra]))
    a._sequence = a._sequence + 'LEAK'
    a._charge = 99


def string_editors(pt, s):
    """string-level functions that edit / analyse the annotation they parse from `s` (results ignored, errors ignored)"""
    calls = [
        lambda: pt.add_mods(s, {0: 'Oxidation', 1: 'Phospho', 2: 'Oxidation', 'nterm': 'Acetyl', 'cterm': 'Amidated'}),
        lambda: pt.add_mods(s, {2: 'Oxidation'}),
        lambda: pt.add_mods(s, {0: ['Methyl', 'Phospho']}, True),
        lambda: pt.condense_static_mods(s),
        lambda: pt.condense_to_mass_mods(s),
        lambda: pt.pop_mods(s),
        lambda: pt.strip_mods(s),
        lambda: pt.get_mods(s),
        lambda: pt.reverse(s),
        lambda: pt.shift(s, 2),
        lambda: pt.shuffle(s, 3),
        lambda: pt.sort(s),
        lambda: pt.split(s),
        lambda: pt.span_to_sequence(s, (0, 2, 0)),
        lambda: pt.mass(s),
        lambda: pt.comp(s),
        lambda: list(pt.fragment(s, ['b', 'y'], [1]))[:3],
        lambda: pt.digest(s, 'trypsin'),
        lambda: pt.apply_static_mods(s, {'P': ['Oxidation']}),
        lambda: list(pt.apply_variable_mods(s, {'P': ['Oxidation']}, 2))[:5],
        lambda: pt.is_modified(s),
        lambda: pt.count_residues(s),
    ]
    n = 0
    for c in calls:
        try:
            c()
            n += 1
        except Exception:  # noqa
            pass
    return n


FRESH_LEAK = """
import sys, json
sys.path.insert(0, %r)
import peptacular as pt
from harness.props import c01_lib as L
s = %r
d0 = L.dump_any(pt.parse(s))
L.mutate_in_place(pt.parse(s))
d1 = L.dump_any(pt.parse(s))
L.string_editors(pt, s)
d2 = L.dump_any(pt.parse(s))
print('LEAK' + json.dumps({'first': d0, 'after_mutation': d1, 'after_editors': d2}))
"""


def confirm_leak_fresh(s):
    """replay parse -> mutate -> parse -> editors -> parse for one string in a fresh interpreter"""
    from ..core import VERIF
    rc, out = run_fresh(FRESH_LEAK % (VERIF, s), timeout=120)
    for line in out.split('\n'):
        if line.startswith('LEAK'):
            d = json.loads(line[4:])
            return d['first'] != d['after_mutation'] or d['first'] != d['after_editors'], d
    return None, out[-300:]
