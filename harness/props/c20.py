"""C20 - modification dictionaries and annotation copies reconstruct the same peptide; equality laws."""
import copy as _copy

from .. import core
from .. import annot
from .c19_reach import Reach

PID = 'C20'
DRV = 'drv_c20'

REGISTRY = {
    'id': 'C20',
    'text': 'Mechanical tie: harness/translate_eqcore.py reads the CURRENT proforma_dataclasses.py / proforma_parser.py with ast and emits '
            'Generated/EqCorePy.lean (GenEq: Mod.__eq__, Interval.__eq__, are_mods_equal, are_intervals_equal, '
            'ProFormaAnnotation.__eq__ with its ordered field list and key-union loop, has_mods with the has_* predicates, mod_dict with '
            'its field list and filter, strip with the fields it clears); Props/C20Gen proves each equal to the hand model '
            '(GenEq.f = Pept.f) and transfers the theorems below to the definitions read off the source; a function outside the tiny '
            'subset is reported as untranslated and stays tied by correspondence only. '
            'Lean theorems about the model of ProFormaAnnotation.__eq__ / are_mods_equal / are_intervals_equal (reflexive, symmetric, '
            'transitive; equal iff the canonical forms - per position the multiset of (decimal value key, multiplier) - are equal; the '
            'decimal key decides numeric equality m*10^e = m\'*10^e\' so int 1 == float 1.0; insensitive to permuting the mods of one '
            'position; one sensitivity theorem per perturbation: value, multiplier, position, interval bound/flag/mods, interval '
            'count, charge, drop, duplicate, residue) and of mod_dict / add_mod_dict / strip / dict / create_annotation '
            '(add_get_inverse, create_dict, strip_spec) including the text level on the C01 serializer/parser models: strip + '
            'add_mod_dict(mod_dict) serializes to the original string for every annotation, and the str-level wrappers '
            'add_mods(strip_mods(s), get_mods(s)) / add_mods(*pop_mods(s)) return the string of the canonical annotation s denotes; '
            'the model is tied to /repo by correspondence on generated annotations and '
            'every single-field perturbation; the oracle evaluates the property clauses on the implementation, including '
            'independence of copies (mutate the copy, re-dump the source)',
    'note': 'trusted: Lean kernel, axioms propext/Classical.choice/Quot.sound, the correspondence harness, the subset reader translate_eqcore.py (its output is small, committed and diffable); float values are read through '
            'their repr as exact decimals (exact int/float comparison for |x| < 1e16); nan is outside the domain; util.convert_type on raw '
            'str inputs and object identity/aliasing are outside the pure model (aliasing is checked dynamically)',
    'technique': 'Lean 4 proof about executable model + differential correspondence',
}

LIST_FIELDS = ['_isotope_mods', '_static_mods', '_labile_mods', '_unknown_mods', '_nterm_mods', '_cterm_mods', '_charge_adducts']
DICT_KEY = {'_isotope_mods': 'isotope', '_static_mods': 'static', '_labile_mods': 'labile', '_unknown_mods': 'unknown',
            '_nterm_mods': 'nterm', '_cterm_mods': 'cterm', '_charge_adducts': 'charge_adducts'}
# values with int/float twins: Python compares Mod.val with ==, so 1 == 1.0 and 100 == 100.0
TWINS = [1, 1.0, -1, -1.0, 100, 100.0, 0, 0.0, -0.0, 2, 2.0, 15.995, 15.9950, 1e-05, 0.00001, 1e+16, 10 ** 16, 123456789012]


def _pt():
    import peptacular as pt
    from peptacular.proforma import proforma_parser as pp
    from peptacular.proforma import proforma_dataclasses as dc
    return pt, pp, dc


def value_pool():
    return annot.NAMED + annot.FORMULAS + annot.GLYCANS + annot.OTHER + annot.NUMS + TWINS + TWINS


def gen(rng, max_len=8, p=None, small=False):
    pool = (['Oxidation', 'Phospho', 1, 1.0, 2, 2.0, 'a'] if small else value_pool())
    a = annot.gen_annotation(rng, 1, max_len, p=p if p is not None else rng.choice([0.3, 0.6, 0.9]), value_pool=pool,
                             max_mods=rng.choice([1, 2, 3, 4]), mult_p=0.3)
    if rng.random() < 0.35:
        # the same number once as int and once as float, with different multipliers, at one position
        from peptacular.proforma.proforma_dataclasses import Mod
        ls = [l for f, l in mod_lists(a) if f not in ('_static_mods', '_isotope_mods', '_charge_adducts')]
        if ls:
            l = rng.choice(ls)
            k = rng.choice([1, 2, 100, -1, 0])
            pair = [Mod(k, rng.choice([1, 2])), Mod(float(k), 3)]
            rng.shuffle(pair)
            l.extend(pair)
    r = rng.random()
    if r < 0.12:
        a._charge = 0                      # an explicit charge of 0 is set, not absent (written /0)
    if rng.random() < 0.1:
        # set-but-empty containers (reachable by emptying a list by hand or add_*_mods([])): [] is not None
        which = rng.choice(['field', 'internal', 'interval', 'intervals'])
        if which == 'field':
            f = rng.choice(['_labile_mods', '_static_mods', '_isotope_mods', '_cterm_mods', '_charge_adducts', '_unknown_mods',
                            '_nterm_mods'])
            if getattr(a, f) is None:
                setattr(a, f, [])
        elif which == 'internal':
            k = rng.randrange(len(a))
            if a._internal_mods is None:
                a._internal_mods = {}
            if k not in a._internal_mods:
                a._internal_mods[k] = []
        elif which == 'interval' and a._intervals:
            iv = rng.choice(a._intervals)
            if iv.mods is None:
                iv.mods = []
        elif a._intervals is None:
            a._intervals = []
            a._has_empty = True
    return a


def has_empty(a):
    """a container that is set but empty ([] / {} rather than None): such an annotation has no faithful text"""
    return any(getattr(a, f) == [] for f in LIST_FIELDS) or a._intervals == [] or a._internal_mods == {} or \
        any(iv.mods == [] for iv in (a._intervals or [])) or any(v == [] for v in (a._internal_mods or {}).values())


def mod_lists(a):
    """every list of Mod objects of an annotation with a label"""
    out = []
    for f in LIST_FIELDS:
        l = getattr(a, f)
        if l is not None:
            out.append((f, l))
    if a._internal_mods:
        for k, l in a._internal_mods.items():
            out.append(('internal%d' % k, l))
    if a._intervals:
        for i, iv in enumerate(a._intervals):
            if iv.mods is not None:
                out.append(('interval%d' % i, iv.mods))
    return out


def py_differs(v, pool, rng):
    for _ in range(50):
        w = rng.choice(pool)
        if w != v:
            return w
    return 'Other'


def perturb(a, kind, rng):
    """a copy of `a` changed in exactly one field; None when the perturbation does not apply"""
    _, pp, dc = _pt()
    b = a.copy()
    ls = mod_lists(b)
    if kind == 'value':
        if not ls:
            return None
        _, l = rng.choice(ls)
        if not l:
            return None
        m = rng.choice(l)
        m.val = py_differs(m.val, value_pool(), rng)
    elif kind == 'multiplier':
        if not ls:
            return None
        _, l = rng.choice(ls)
        if not l:
            return None
        rng.choice(l).mult += rng.choice([1, 2])
    elif kind == 'position':
        if not b._internal_mods:
            return None
        n = len(b)
        k = rng.choice(list(b._internal_mods))
        free = [i for i in range(n) if i != k]
        if not free:
            return None
        k2 = rng.choice(free)
        l = b._internal_mods[k]
        if not l:
            return None
        if rng.random() < 0.5 or len(l) == 1:
            moved = b._internal_mods.pop(k)
        else:
            moved = [l.pop(rng.randrange(len(l)))]
        b._internal_mods.setdefault(k2, []).extend(moved)
    elif kind == 'interval_bound':
        if not b._intervals:
            return None
        iv = rng.choice(b._intervals)
        which = rng.choice(['start', 'end', 'ambiguous'])
        if which == 'start':
            iv.start += rng.choice([-1, 1])
        elif which == 'end':
            iv.end += rng.choice([-1, 1])
        else:
            iv.ambiguous = not iv.ambiguous
    elif kind == 'charge':
        b._charge = rng.choice([c for c in [None, 1, 2, 3, -1, -2, 4, 5] if c != b._charge])
    elif kind == 'drop':
        if not ls:
            return None
        f, l = rng.choice(ls)
        if not l:
            return None
        l.pop(rng.randrange(len(l)))
        if not l and rng.random() < 0.7:
            # the position lost its only modification: it is then simply unmodified (no empty list left behind)
            if f.startswith('internal'):
                b._internal_mods.pop(int(f[8:]))
                if not b._internal_mods and rng.random() < 0.5:
                    b._internal_mods = None
            elif f.startswith('interval'):
                b._intervals[int(f[8:])].mods = None
            else:
                setattr(b, f, None)
    elif kind == 'drop_residue_mods':
        # all modifications of ONE residue go while other residues stay modified
        if not b._internal_mods or len(b._internal_mods) < 2:
            return None
        b._internal_mods.pop(rng.choice(list(b._internal_mods)))
    elif kind == 'add':
        # a modification on a previously unmodified residue / terminus / global list / interval (inverse of a drop)
        m = dc.Mod(rng.choice(value_pool()), rng.choice([1, 1, 2]))
        n = len(b)
        opts = [i for i in range(n) if not (b._internal_mods and i in b._internal_mods)]
        targets = [('residue', i) for i in opts]
        targets += [('field', f) for f in ('_labile_mods', '_unknown_mods', '_nterm_mods', '_cterm_mods') if getattr(b, f) is None]
        targets += [('ivmods', i) for i, iv in enumerate(b._intervals or []) if iv.mods is None]
        if n >= 2:
            targets.append(('interval', None))
        if not targets:
            return None
        t, x = rng.choice(targets)
        if t == 'residue':
            if b._internal_mods is None:
                b._internal_mods = {}
            if rng.random() < 0.5:
                b._internal_mods[x] = [m]                    # appended at the end of the dict
            else:
                b._internal_mods = {x: [m], **b._internal_mods}   # or put first
        elif t == 'field':
            setattr(b, x, [m])
        elif t == 'ivmods':
            b._intervals[x].mods = [m]
        else:
            s0 = rng.randint(0, n - 2)
            iv = dc.Interval(s0, rng.randint(s0 + 1, n), rng.random() < 0.3, [m] if rng.random() < 0.6 else None)
            b._intervals = (b._intervals or []) + [iv]
    elif kind == 'duplicate':
        if not ls:
            return None
        _, l = rng.choice(ls)
        if not l:
            return None
        m = rng.choice(l)
        l.insert(rng.randrange(len(l) + 1), dc.Mod(m.val, m.mult))
    elif kind == 'residue':
        i = rng.randrange(len(b))
        b._sequence = b._sequence[:i] + rng.choice([c for c in annot.RESIDUES20 if c != b._sequence[i]]) + b._sequence[i + 1:]
    elif kind == 'drop_field':
        cands = [f for f in LIST_FIELDS if getattr(b, f) is not None] + (['_internal_mods'] if b._internal_mods else []) + \
            (['_intervals'] if b._intervals else [])
        if not cands:
            return None
        setattr(b, rng.choice(cands), None)
    elif kind == 'drop_interval':
        if not b._intervals:
            return None
        b._intervals.pop(rng.randrange(len(b._intervals)))
    elif kind == 'duplicate_interval':
        if not b._intervals:
            return None
        b._intervals.insert(rng.randrange(len(b._intervals) + 1), _copy.deepcopy(rng.choice(b._intervals)))
    elif kind == 'interval_mods_none':
        ivs = [iv for iv in (b._intervals or []) if iv.mods is not None]
        if not ivs:
            return None
        rng.choice(ivs).mods = None
    else:
        raise KeyError(kind)
    return b


PERTURBATIONS = ['value', 'multiplier', 'position', 'interval_bound', 'charge', 'drop', 'duplicate', 'residue', 'drop_field',
                 'interval_mods_none', 'drop_interval', 'duplicate_interval', 'drop_residue_mods', 'add']


def permute(a, rng, reverse=False):
    """same annotation, mods of every position / interval list / internal dict in a different order"""
    b = a.copy()
    for _, l in mod_lists(b):
        if reverse:
            l.reverse()
        else:
            rng.shuffle(l)
    if b._intervals:
        rng.shuffle(b._intervals)
    if b._internal_mods:
        items = list(b._internal_mods.items())
        rng.shuffle(items)
        b._internal_mods = dict(items)
    return b


# ------------------------------------------------------------------ wire for dictionaries / create arguments
def show_dval(k, v):
    if v is None:
        return 'N'
    if k == 'charge':
        return 'C%d' % v
    if k == 'intervals':
        return annot.show_intervals(v)
    if k == 'internal':
        return annot.show_internal(v)
    return annot.show_opt_mods(v)


def show_dict(d, sort=True):
    ents = [f'{k}:{show_dval(k, v)}' for k, v in d.items()]
    return '~'.join(sorted(ents) if sort else ents)


def canon_dict(s):
    """sort the entries of a dictionary printed by the driver, and the inner internal dict of pop_mods"""
    if not s:
        return s
    ents = []
    for e in s.split('~'):
        k, v = e.split(':')
        if k == 'internal' and len(v) > 1:
            xs = v[1:].split(';')
            xs.sort(key=lambda x: int(x.split('=')[0]))
            v = 'D' + ';'.join(xs)
        ents.append(k + ':' + v)
    return '~'.join(sorted(ents))


def show_item(x):
    from peptacular.proforma.proforma_dataclasses import Mod
    from peptacular.util import convert_type
    if isinstance(x, Mod):
        return 'm' + annot.show_mod(x)
    return 'r' + annot.show_val(convert_type(x))


def show_input(x, sep=';'):
    if x is None:
        return 'N'
    if isinstance(x, list):
        return 'L' + sep.join(show_item(i) for i in x)
    return 'S' + show_item(x)


def show_iv_item(x):
    from peptacular.proforma.proforma_dataclasses import Interval
    if isinstance(x, Interval):
        return 'i' + annot.show_interval(x)
    return 't%d,%d,%d,%s' % (x[0], x[1], int(bool(x[2])), show_input(x[3], '&'))


def show_iv_input(x):
    if x is None:
        return 'N'
    if isinstance(x, list):
        return 'V' + ';'.join(show_iv_item(i) for i in x)
    return 'S' + show_iv_item(x)


def show_args(kw):
    internal = kw.get('internal_mods')
    return '|'.join([
        annot.esc(kw['sequence']), show_input(kw.get('isotope_mods')), show_input(kw.get('static_mods')),
        show_input(kw.get('labile_mods')), show_input(kw.get('unknown_mods')), show_input(kw.get('nterm_mods')),
        show_input(kw.get('cterm_mods')),
        'N' if internal is None else 'D' + ';'.join('%d=%s' % (k, show_input(v, '&')) for k, v in internal.items()),
        show_iv_input(kw.get('intervals')), 'None' if kw.get('charge') is None else str(kw['charge']),
        show_input(kw.get('charge_adducts'))])


RAW = ['phospho', 'Acetyl', 3.0, 1, -2, 0, 0.0, 1.234, 'Formula:C2', '', 'x y', 15.995, 100]


def gen_input(rng, allow_empty_str=True):
    from peptacular.proforma.proforma_dataclasses import Mod

    def item():
        v = rng.choice(RAW if allow_empty_str else [r for r in RAW if r != ''])
        if rng.random() < 0.4:
            return Mod(v, rng.choice([1, 1, 2, 3]))
        return v
    r = rng.random()
    if r < 0.35:
        return item()
    return [item() for _ in range(rng.randint(0, 3))]


def gen_args(rng):
    from peptacular.proforma.proforma_dataclasses import Interval, Mod
    n = rng.randint(1, 7)
    kw = {'sequence': ''.join(rng.choice(annot.RESIDUES20) for _ in range(n))}
    for f in ('isotope_mods', 'static_mods', 'labile_mods', 'unknown_mods', 'nterm_mods', 'cterm_mods', 'charge_adducts'):
        if rng.random() < 0.4:
            kw[f] = gen_input(rng)
    if rng.random() < 0.6:
        kw['internal_mods'] = {k: gen_input(rng) for k in rng.sample(range(n), rng.randint(0, min(3, n)))}
    if rng.random() < 0.6:
        def iv():
            s = rng.randint(0, n - 1)
            e = rng.randint(s, n)
            if rng.random() < 0.3:
                return Interval(s, e, rng.random() < 0.5, rng.choice([None, [], [Mod('a', 2)], [Mod(1, 1), Mod(1.0, 1)]]))
            return (s, e, rng.random() < 0.5, rng.choice([None, gen_input(rng), gen_input(rng)]))
        kw['intervals'] = iv() if rng.random() < 0.3 else [iv() for _ in range(rng.randint(0, 3))]
    if rng.random() < 0.5:
        kw['charge'] = rng.choice([1, 2, -1, 0, 3])
    return kw


def mutate_everything(c):
    """write through every mutable part of an annotation (used to show that a copy is independent of its source)"""
    from peptacular.proforma.proforma_dataclasses import Mod, Interval
    for _, l in mod_lists(c):
        for m in l:
            m.val = 'MUTATED'
            m.mult += 7
        l.append(Mod('extra', 1))
    for f in LIST_FIELDS:
        if getattr(c, f) is None:
            setattr(c, f, [Mod('new', 1)])
    if c._internal_mods is not None:
        c._internal_mods[99] = [Mod('new', 1)]
    else:
        c._internal_mods = {0: [Mod('new', 1)]}
    if c._intervals is not None:
        for iv in c._intervals:
            iv.start += 1
            iv.end += 2
            iv.ambiguous = not iv.ambiguous
            if iv.mods is None:
                iv.mods = [Mod('new', 1)]
        c._intervals.append(Interval(0, 1, False, None))
    else:
        c._intervals = [Interval(0, 1, False, None)]
    c._charge = (c._charge or 0) + 5
    c._sequence = c._sequence + 'X'


def mutate_container(d):
    """write through every list / Mod / Interval reachable from a dict value"""
    from peptacular.proforma.proforma_dataclasses import Mod, Interval
    for k, v in list(d.items()):
        if isinstance(v, list):
            for x in v:
                if isinstance(x, Mod):
                    x.val = 'MUTATED'
                    x.mult += 3
                elif isinstance(x, Interval):
                    x.start += 1
                    if x.mods:
                        x.mods[0].val = 'MUTATED'
                        x.mods.append(Mod('extra', 1))
            v.append(Mod('extra', 1) if k != 'intervals' else Interval(0, 0, False, None))
        elif isinstance(v, dict):
            for kk, l in v.items():
                for x in l:
                    x.val = 'MUTATED'
                l.append(Mod('extra', 1))
            v[77] = []


def load_corpus():
    import json
    import os
    out = []
    d = os.path.join(core.VERIF, 'corpus', PID)
    if os.path.isdir(d):
        for fn in sorted(os.listdir(d)):
            if fn.endswith('.jsonl'):
                for ln in open(os.path.join(d, fn)):
                    if ln.strip():
                        out.append(json.loads(ln))
    return out


def replay(chk, obj):
    """re-evaluate a replay file written by this check on the current implementation"""
    import json
    pt, pp, dc = _pt()
    print(json.dumps(obj, indent=1)[:3000])
    case = obj.get('case')
    if obj.get('oracle') == 'corpus' and isinstance(case, dict):
        a, b = pp.parse(case['a']), pp.parse(case['b'])
        print('now: a == b ->', a == b, ' expected', case['expect'])
        return 0 if (a == b) == case['expect'] else 1
    if isinstance(case, str) and case.count('|') == 10:
        a = annot.undump(case)
        print('annotation:', a.serialize())
        for t in range(20):
            p = permute(a, chk.rng, reverse=(t == 0))
            if not (a == p):
                print('still failing: order of modifications matters:', annot.dump(p, False))
                return 1
        print('no failure reproduced with 20 reorderings (perturbation oracles are randomised: rerun ./check C20)')
    return 0


def _parses_single(pp, t):
    try:
        return isinstance(pp.parse(t), pp.ProFormaAnnotation)
    except Exception:  # noqa
        return False


FRESH_SCRIPT = r'''
import json, sys
sys.path.insert(0, %r)
import peptacular as pt
from peptacular.sequence import sequence_funcs as sfm
from harness import annot
from harness.props.c20 import show_dict
out = []
for st in json.load(sys.stdin):
    out.append([pt.strip_mods(st), show_dict(pt.get_mods(st)), pt.add_mods(pt.strip_mods(st), pt.get_mods(st)),
                annot.dump(sfm.sequence_to_annotation(st))])
print(json.dumps(out))
'''


def _fresh_answers(sample):
    """the same queries in a fresh interpreter (same peptacular: PYTHONPATH is inherited)"""
    import json
    import subprocess
    import sys
    try:
        p = subprocess.run([sys.executable, '-W', 'ignore', '-c', FRESH_SCRIPT % core.VERIF], input=json.dumps(sample),
                           capture_output=True, text=True, timeout=300, cwd=core.VERIF)
        if p.returncode != 0:
            return None
        return json.loads(p.stdout.strip().split('\n')[-1])
    except Exception:  # noqa
        return None


def run(chk):
    pt, pp, dc = _pt()
    tier = chk.tier
    rng = chk.rng
    # proforma_dataclasses.py / proforma_parser.py -> Generated/EqCorePy.lean + Props/C20Gen.lean (equality theorems with the hand
    # model, transfer of the C20 theorems), regenerated when the source changes
    from .. import translate_eqcore
    gen_done, gen_unt = translate_eqcore.translate(chk)
    chk.lean_build(['PeptVerif.Props.C20', 'PeptVerif.Props.C20Gen', 'PeptVerif.Props.C20Ext'], DRV)
    chk.trusted += [
        'harness/translate_eqcore.py: the reading of the Python subset (comparison chains, None tables, Counter/set comparison, '
        'key-union loop, any([...]) of `is not None` predicates, filtered dict comprehension, in-place clearing) into the '
        'combinators of the hand model; its output Generated/EqCorePy.lean is small and committed',
        'modelled: Mod.__eq__, are_mods_equal, Interval.__eq__, are_intervals_equal, ProFormaAnnotation.__eq__, mod_dict, add_mod_dict '
        '(add_*_mods with the append flag), pop_mods, strip, dict, copy, create_annotation with fix_list_of_mods / fix_dict_of_mods / '
        'fix_interval(s)_input, get_mods/add_mods/pop_mods/strip_mods at annotation level',
        'outside the model: hashing inside collections.Counter (the model counts modulo __eq__), util.convert_type on raw str inputs '
        '(values are sent already typed), object identity (independence of copies is checked dynamically), nan values',
    ]
    chk.rule = ('generated annotations (all modification kinds, up to 4 mods per position, multipliers, int/float twin values) x '
                '{copy, order permutation, each single-field perturbation, unrelated annotation}; non-trivial = at least one '
                'modification present; distinct = distinct protocol line')
    A = pp.ProFormaAnnotation
    from peptacular.proforma import input_convert as ic
    from peptacular.sequence import sequence_funcs as sf
    TYPED = 'raised for an input of a wrong Python type; the inputs of the model are typed'
    reach = Reach([A.__eq__, A.copy, A.dict, A.mod_dict, A.add_mod_dict, A.pop_mods, A.strip, A.add_labile_mods,
                   A.add_unknown_mods, A.add_nterm_mods, A.add_cterm_mods, A.add_internal_mods, A.add_intervals,
                   A.add_charge_adducts, A.add_isotope_mods, A.add_static_mods, A.get_internal_mods_by_index,
                   pp.create_annotation, dc.Mod.__eq__, dc.Mod.__hash__, dc.Interval.__eq__, dc.Interval.__hash__,
                   dc.are_mods_equal, dc.are_intervals_equal, ic.convert_to_mod, ic.fix_list_of_mods, ic.fix_dict_of_mods,
                   ic.fix_interval_input, ic.fix_intervals_input, sf.get_mods, sf.add_mods, sf.pop_mods, sf.strip_mods,
                   sf.sequence_to_annotation],
                  outside={'convert_to_mod': {'raise ValueError(f"Invalid mod input: {mod}")': TYPED},
                           'fix_list_of_mods': {'raise ValueError(f"Invalid mod input: {mods}")': TYPED},
                           'fix_intervals_input': {'raise ValueError(f"Invalid interval input: {intervals}")': TYPED},
                           'ProFormaAnnotation.add_internal_mods': {
                               'if not append:': 'add_internal_mods(None) is not reachable through add_mod_dict (called only '
                                                 'with a non-empty dict)',
                               'self.internal_mods = None': 'same', 'return': 'same'}})
    reach.__enter__()

    # ------------------------------------------------------------------ corpus (past failures first)
    def o_corpus(c):
        a, b = pp.parse(c['a']), pp.parse(c['b'])
        if (a == b) != c['expect'] or (b == a) != c['expect']:
            return f"parse({c['a']!r}) == parse({c['b']!r}) is {a == b}, expected {c['expect']}"
        return None
    corpus = load_corpus()
    chk.oracle('corpus', [c for c in corpus if c.get('kind') == 'eq_strings'], o_corpus, key_fn=lambda c: c['a'] + ' ' + c['b'])
    chk.correspond('corpus_eq', DRV, [c for c in corpus if c.get('kind') == 'eq_strings'],
                   lambda c: 'eq\t%s\t%s' % (annot.dump(pp.parse(c['a']), False), annot.dump(pp.parse(c['b']), False)),
                   lambda c: str(pp.parse(c['a']) == pp.parse(c['b'])))

    N = 250 if tier == 'quick' else 6000
    anns = [gen(rng, small=(i % 4 == 0)) for i in range(N)]
    for a in anns:
        chk.count('mods=%d' % min(5, sum(len(l) for _, l in mod_lists(a))))

    # ------------------------------------------------------------------ correspondence: equality
    pairs = []   # (label, dump a, dump b)
    for a in anns:
        da = annot.dump(a, sort_internal=False)
        pairs.append(('copy', da, annot.dump(a.copy(), sort_internal=False)))
        pairs.append(('permute', da, annot.dump(permute(a, rng), sort_internal=False)))
        for kind in PERTURBATIONS:
            b = perturb(a, kind, rng)
            if b is None:
                continue
            chk.count('perturb_' + kind)
            pairs.append((kind, da, annot.dump(b, sort_internal=False)))
        pairs.append(('unrelated', da, annot.dump(rng.choice(anns), sort_internal=False)))
    pairs += [(lab + '_swapped', db, da) for lab, da, db in pairs]   # every pair in both directions

    def eq_impl(c):
        _, da, db = c
        a, b = annot.undump(da), annot.undump(db)
        r = a == b
        if (a != b) == r:
            return 'inconsistent != operator'
        return str(r)

    def o_pair(c):
        lab, da, db = c
        a, b = annot.undump(da), annot.undump(db)
        ab, ba, nab, nba = (a == b), (b == a), (a != b), (b != a)
        if ab != ba:
            return f'equality is not symmetric ({lab}): a == b is {ab}, b == a is {ba}'
        if nab == ab or nba == ba:
            return f'!= disagrees with == ({lab})'
        base = lab.replace('_swapped', '')
        if base in ('copy', 'permute') and not ab:
            return f'{base}: not equal'
        if base in PERTURBATIONS and ab:
            return f'equality blind to {base}'
        return None

    chk.correspond('eq', DRV, pairs, lambda c: f'eq\t{c[1]}\t{c[2]}', eq_impl,
                   nontrivial_fn=lambda c, im: c[1].count('N') < 9)
    chk.oracle('eq_pairs_symmetric', pairs, o_pair, nontrivial_fn=lambda c: c[1] != c[2], key_fn=lambda c: c[1] + ' ' + c[2])

    # the converse of the round trip (Props/C20Ext.lean: mod_dict_determines / _eq / _text / mod_dict_sensitive, add_empty_dict,
    # pop_mods_add_back)
    # on the implementation: same residues and the same dictionary (compared structurally, in order) => `==`, the same text and
    # the same fields; not `==` on the same residues => the dictionaries differ; add_mod_dict({}) changes nothing
    def o_dict_determines(c):
        lab, da, db = c
        a, b = annot.undump(da), annot.undump(db)
        ma, mb = a.mod_dict(), b.mod_dict()
        same = show_dict(ma, sort=False) == show_dict(mb, sort=False)
        if a._sequence == b._sequence:
            if same and not (a == b and b == a):
                return f'same residues and same mod_dict {show_dict(ma, sort=False)} but the annotations are not == ({lab})'
            if not same and ma == mb and not (a == b):
                return f'mod_dict() results compare equal but the annotations do not ({lab})'
            if same and not has_empty(a) and not has_empty(b):
                if a.serialize() != b.serialize():
                    return f'same residues and same mod_dict but {a.serialize()!r} vs {b.serialize()!r} ({lab})'
                if da != db:
                    return f'same residues and same mod_dict but fields differ: {da} vs {db} ({lab})'
        for app in (False, True):
            e = a.copy()
            e.add_mod_dict({}, append=app)
            if annot.dump(e, sort_internal=False) != da:
                return f'add_mod_dict({{}}, append={app}) changed {da} into {annot.dump(e, sort_internal=False)}'
        # pop_mods_add_back: the method-level pop_mods() dictionary put back restores everything except the residue mods
        for app in (False, True):
            p = a.copy()
            d = p.pop_mods()
            p.add_mod_dict(d, append=app)
            exp = a.copy()
            exp._internal_mods = None
            if annot.dump(p, sort_internal=False) != annot.dump(exp, sort_internal=False):
                return (f'pop_mods() then add_mod_dict(append={app}) gives {annot.dump(p, sort_internal=False)}, expected '
                        f'{annot.dump(exp, sort_internal=False)} (source without residue mods)')
        if annot.dump(a, sort_internal=False) != da or annot.dump(b, sort_internal=False) != db:
            return 'mod_dict / == / serialize changed their argument'
        return None

    half = pairs[:len(pairs) // 2]
    chk.oracle('dict_determines', half if (chk.broken() or tier != 'quick') else half[::2], o_dict_determines,
               nontrivial_fn=lambda c: c[1].count('N') < 9, key_fn=lambda c: c[1] + ' ' + c[2])

    # multiset equality of mod lists over a small pool (many coincidences), None vs list
    small = [1, 1.0, 2, 2.0, 'a', 'b', 0, 0.0, -0.0, 1e+16, 10 ** 16, 100, 100.0, 'Oxidation']

    def rmods():
        if rng.random() < 0.1:
            return None
        return [dc.Mod(rng.choice(small), rng.choice([1, 1, 2])) for _ in range(rng.randint(0, 4))]
    ml = []
    for _ in range(600 if tier == 'quick' else 20000):
        x = rmods()
        y = rmods()
        if x is not None and rng.random() < 0.4:
            y = [dc.Mod(m.val, m.mult) for m in x]
            rng.shuffle(y)
            if y and rng.random() < 0.3:
                m = rng.choice(y)
                if isinstance(m.val, (int, float)) and float(m.val) == int(m.val) and abs(m.val) < 1e15:
                    m.val = float(m.val) if isinstance(m.val, int) else int(m.val)
        ml.append((annot.show_opt_mods(x), annot.show_opt_mods(y)))
    chk.correspond('are_mods_equal', DRV, ml, lambda c: f'modseq\t{c[0]}\t{c[1]}',
                   lambda c: str(dc.are_mods_equal(annot.parse_opt_mods(c[0]), annot.parse_opt_mods(c[1]))),
                   nontrivial_fn=lambda c, im: c[0] != 'N' and c[1] != 'N')

    # Mod.__eq__ and Interval.__eq__ directly
    mp = []
    for _ in range(800 if tier == 'quick' else 20000):
        x = dc.Mod(rng.choice(small), rng.choice([1, 1, 2, 3]))
        y = dc.Mod(x.val if rng.random() < 0.5 else rng.choice(small), x.mult if rng.random() < 0.6 else rng.choice([1, 2, 3]))
        mp.append((annot.show_mod(x), annot.show_mod(y)))
    chk.correspond('mod_eq', DRV, mp, lambda c: f'modeq\t{c[0]}\t{c[1]}',
                   lambda c: str(annot.parse_mod(c[0]) == annot.parse_mod(c[1])), nontrivial_fn=lambda c, im: im == 'True')
    ivp = []
    for _ in range(800 if tier == 'quick' else 20000):
        x = dc.Interval(rng.randint(0, 3), rng.randint(2, 5), rng.random() < 0.5, rmods())
        y = _copy.deepcopy(x)
        r = rng.random()
        if r < 0.15:
            y.start += 1
        elif r < 0.3:
            y.end -= 1
        elif r < 0.4:
            y.ambiguous = not y.ambiguous
        elif r < 0.6:
            y.mods = rmods()
        elif y.mods:
            rng.shuffle(y.mods)
        ivp.append((annot.show_interval(x), annot.show_interval(y)))

    def iv_impl(c):
        a = annot.undump('A|N|N|N|N|N|N|N|V' + c[0] + ';' + c[1] + '|None|N')._intervals
        return str(a[0] == a[1])
    chk.correspond('interval_eq', DRV, ivp, lambda c: f'iveq\t{c[0]}\t{c[1]}', iv_impl, nontrivial_fn=lambda c, im: im == 'True')

    def o_mod(c):
        x, y = annot.parse_mod(c[0]), annot.parse_mod(c[1])
        want = (x.val == y.val) and (x.mult == y.mult)
        if (x == y) != want or (y == x) != want or (x != y) == want or (y != x) == want:
            return f'Mod {x!r} == {y!r} is {x == y} / {y == x} (!=: {x != y} / {y != x}), values/multipliers say {want}'
        if want and hash(x) != hash(y):
            return f'equal Mods {x!r}, {y!r} with different hashes'
        if (x == y.val) != (x.val == y.val and x.mult == 1):
            return f'Mod {x!r} == raw value {y.val!r} is {x == y.val}'
        return None
    chk.oracle('mod_eq_hash', mp, o_mod, nontrivial_fn=lambda c: c[0] != c[1], key_fn=lambda c: c[0] + ' ' + c[1])

    def o_iv(c):
        a = annot.undump('A|N|N|N|N|N|N|N|V' + c[0] + ';' + c[1] + '|None|N')._intervals
        x, y = a
        if (x == y) != (y == x):
            return f'Interval equality not symmetric: {x!r}, {y!r}'
        if (x != y) == (x == y) or (y != x) == (y == x):
            return f'Interval != disagrees with ==: {x!r}, {y!r}'
        want = (x.start, x.end, x.ambiguous) == (y.start, y.end, y.ambiguous) and dc.are_mods_equal(x.mods, y.mods) and \
            dc.are_mods_equal(y.mods, x.mods)
        if (x == y) != want:
            return f'Interval {x!r} == {y!r} is {x == y}, fields say {want}'
        if x == y and hash(x) != hash(y):
            return f'equal Intervals {x!r}, {y!r} with different hashes (Counter-based comparison will miss them)'
        return None
    chk.oracle('interval_eq_hash', ivp, o_iv, nontrivial_fn=lambda c: c[0] != c[1], key_fn=lambda c: c[0] + ' ' + c[1])

    vals = value_pool() + small + [float('inf'), float('-inf'), 1e-7, 1.5e-07, 1e22, 123456.789, -0.5, '1', 'inf']
    vp = [(annot.show_val(x), annot.show_val(y)) for x in vals for y in vals] if tier != 'quick' else \
        [(annot.show_val(rng.choice(vals)), annot.show_val(rng.choice(vals))) for _ in range(1500)]
    chk.correspond('val_eq', DRV, vp, lambda c: f'valeq\t{c[0]}\t{c[1]}',
                   lambda c: str(annot.parse_val(c[0]) == annot.parse_val(c[1])),
                   nontrivial_fn=lambda c, im: im == 'True')

    # ------------------------------------------------------------------ correspondence: dictionaries, strip, create
    dumps = [annot.dump(a, sort_internal=False) for a in anns]   # dict insertion order kept
    chk.correspond('mod_dict', DRV, dumps, lambda d: f'moddict\t{d}', lambda d: show_dict(annot.undump(d).mod_dict()),
                   compare=lambda im, m: im == canon_dict(m), nontrivial_fn=lambda d, im: bool(im))
    chk.correspond('pt_pop_mods', DRV, dumps, lambda d: f'ptpopmods\t{d}',
                   lambda d: (lambda r: annot.esc(r[0]) + '!' + show_dict(r[1]))(pt.pop_mods(annot.undump(d))),
                   compare=lambda im, m: im == m.split('!')[0] + '!' + canon_dict(m.split('!')[1]),
                   nontrivial_fn=lambda d, im: not im.endswith('!'))

    def popmods_impl(d):
        a = annot.undump(d)
        r = a.pop_mods()
        return show_dict(r) + '!' + annot.dump(a)
    chk.correspond('pop_mods', DRV, dumps, lambda d: f'popmods\t{d}', popmods_impl,
                   compare=lambda im, m: im == canon_dict(m.split('!')[0]) + '!' + m.split('!')[1],
                   nontrivial_fn=lambda d, im: not im.startswith('!'))

    def strip_impl(d):
        a = annot.undump(d)
        s = a.strip()
        a.strip(inplace=True)
        if annot.dump(a) != annot.dump(s):
            return 'inplace differs'
        return annot.dump(s)
    chk.correspond('strip', DRV, dumps, lambda d: f'strip\t{d}', strip_impl, nontrivial_fn=lambda d, im: d != im)
    chk.correspond('copy', DRV, dumps, lambda d: f'copy\t{d}', lambda d: annot.dump(annot.undump(d).copy()),
                   compare=lambda im, m: im == annot.canon_dump(m), nontrivial_fn=lambda d, im: d.count('N') < 9)
    chk.correspond('create_from_dict', DRV, dumps, lambda d: f'createdict\t{d}',
                   lambda d: annot.dump(pp.create_annotation(**annot.undump(d).dict())),
                   compare=lambda im, m: im == annot.canon_dump(m), nontrivial_fn=lambda d, im: d.count('N') < 9)

    def addget_impl(d):
        a = annot.undump(d)
        b = a.strip()
        b.add_mod_dict(a.mod_dict())
        return annot.dump(b)
    chk.correspond('add_get', DRV, dumps, lambda d: f'addget\t{d}', addget_impl,
                   compare=lambda im, m: im == annot.canon_dump(m), nontrivial_fn=lambda d, im: d.count('N') < 9)

    # add_mod_dict of (part of) another annotation's dictionary onto an annotation, both append modes, None values
    adds = []
    for _ in range(N * 2):
        a = rng.choice(anns)
        src = rng.choice(anns)
        d = src.mod_dict()
        for k in list(d):
            if rng.random() < 0.35:
                d.pop(k)
            elif rng.random() < 0.08 and not isinstance(k, int):
                d[k] = None
        if rng.random() < 0.2:
            d = {k: v for k, v in d.items() if not isinstance(k, int)}
        adds.append((annot.dump(a), show_dict(d, sort=False), rng.random() < 0.5, rng.random() < 0.3))

    # directed: every named key with None (replace clears the field, append leaves it), on annotations that have it set
    for key in ('isotope', 'static', 'labile', 'unknown', 'nterm', 'cterm', 'intervals', 'charge', 'charge_adducts'):
        for app in (False, True):
            for a in anns[:6]:
                adds.append((annot.dump(a, sort_internal=False), f'{key}:N', app, False))

    def parse_dict(s):
        d = {}
        if not s:
            return d
        for e in s.split('~'):
            k, v = e.split(':')
            if v == 'N':
                val = None
            elif k == 'charge':
                val = int(v[1:])
            elif k == 'intervals':
                val = annot.undump('A|N|N|N|N|N|N|N|' + v + '|None|N')._intervals
            else:
                val = annot.parse_opt_mods(v)
            d[int(k) if k.lstrip('-').isdigit() else k] = val
        return d

    def add_impl(c):
        da, dd, app, single = c
        a = annot.undump(da)
        d = parse_dict(dd)
        if single:
            # a one-element list may be given as the bare Mod (ACCEPTED_MOD_INPUT)
            for k, v in d.items():
                if k not in ('charge', 'intervals') and isinstance(v, list) and len(v) == 1:
                    d[k] = v[0]
        a.add_mod_dict(d, append=app)
        return annot.dump(a)
    chk.correspond('add_mod_dict', DRV, adds, lambda c: f'addmoddict\t{c[0]}\t{c[1]}\t{int(c[2])}', add_impl,
                   compare=lambda im, m: im == annot.canon_dump(m), nontrivial_fn=lambda c, im: bool(c[1]))

    # create_annotation with raw inputs (single values, lists, Mod objects, interval tuples)
    args = [gen_args(rng) for _ in range(400 if tier == 'quick' else 10000)]
    chk.correspond('create_annotation', DRV, args, lambda kw: 'create\t' + show_args(kw),
                   lambda kw: annot.dump(pp.create_annotation(**_copy.deepcopy(kw))),
                   compare=lambda im, m: im == annot.canon_dump(m), nontrivial_fn=lambda kw, im: len(kw) > 2)

    # ------------------------------------------------------------------ text-exact: the str-level wrappers of sequence_funcs
    texts = [a.serialize(include_plus=(i % 2 == 1)) for i, a in enumerate(anns) if not has_empty(a)]
    # falsy-but-set values at string level: charge 0, numeric mod values 0 / 0.0 / -0.0 everywhere, interval from residue 0
    FALSY = ['PEP[Phospho]TIDE/0', 'PEPTIDE/0', 'PEP[0]TIDE', 'P[0.0]EP', 'P[-0.0]^2EP/0', '(PE)[0]P', '(?PE)P/0', '[0]-PEP-[0.0]',
             '{0}PEP', '{0.0}^2[0]?PEP/0', '[0]?[0.0]-P[0]EP[0]-[0]/0', '<13C>PEP/0[+H+]', 'P[0][0.0][-0.0]EP', '(P)[0.0]EP/-0']
    texts = FALSY + texts
    texts += ['PEPTIDE', '[Acetyl]-PEPTIDE[1.234]-[Amide]', '<13C><[+1.234]@P>PEP', '{Glycan:Hex}PEP', '[Phospho]^3?PEPTIDE',
              'PEP(TI)[Phospho]DE', 'PEPTIDE/+2[+2Na+,-H+]', 'PEP+TIDE', 'PEP//TIDE', 'PE[', '', 'PEP[+1.0][+1]^2TIDE',
              '(?DQ)NGTWEM[Oxidation]ESNENFEGYM[Oxidation]K', 'PEP[Formula:[13C]H12]TIDE', 'pep', 'PEP/0']

    def s_wrap(fn):
        def g(c):
            try:
                return 'S' + annot.esc(fn(c))
            except Exception as e:  # noqa
                return 'ERR:' + type(e).__name__
        return g
    sga = [(st, plus, app) for st in texts for plus in (False, True) for app in (True, False)]
    chk.correspond('text_strip_get_add', DRV, sga, lambda c: f's_stripgetadd\t{int(c[1])}\t{int(c[2])}\t{annot.esc(c[0])}',
                   s_wrap(lambda c: pt.add_mods(pt.strip_mods(c[0]), pt.get_mods(c[0]), append=c[2], include_plus=c[1])),
                   nontrivial_fn=lambda c, im: '%5B' in im or '%7B' in im or '%3C' in im)
    chk.correspond('text_pop_add', DRV, [(st, plus) for st in texts for plus in (False, True)],
                   lambda c: f's_popadd\t{int(c[1])}\t{annot.esc(c[0])}',
                   s_wrap(lambda c: pt.add_mods(*pt.pop_mods(c[0]), include_plus=c[1])),
                   nontrivial_fn=lambda c, im: '%5B' in im or '%7B' in im or '%3C' in im)
    chk.correspond('text_strip_mods', DRV, texts, lambda st: f's_strip\t{annot.esc(st)}', s_wrap(lambda st: pt.strip_mods(st)),
                   nontrivial_fn=lambda st, im: im != 'S' + annot.esc(st))

    def getmods_impl(st):
        try:
            return 'D' + show_dict(pt.get_mods(st))
        except Exception as e:  # noqa
            return 'ERR:' + type(e).__name__
    chk.correspond('text_get_mods', DRV, texts, lambda st: f's_getmods\t{annot.esc(st)}', getmods_impl,
                   compare=lambda im, m: im == (('D' + canon_dict(m[1:])) if m.startswith('D') else m),
                   nontrivial_fn=lambda st, im: len(im) > 1)

    # ------------------------------------------------------------------ oracle: the property on the implementation
    def o_equality(d):
        a = annot.undump(d)
        d0 = annot.dump(a, sort_internal=False)
        if not (a == a):
            return 'not reflexive'
        c = a.copy()
        if not (a == c and c == a):
            return 'copy not equal to its source'
        for t in range(4):
            p = permute(a, rng, reverse=(t == 0))
            if not (a == p and p == a):
                return f'order of modifications matters: {annot.dump(a, False)} vs {annot.dump(p, False)}'
        for kind in PERTURBATIONS:
            for _ in range(2):
                b = perturb(a, kind, rng)
                if b is None:
                    continue
                ab, ba = (a == b), (b == a)
                if (a != b) == ab or (b != a) == ba:
                    return f'!= disagrees with == under {kind}'
                if ab != ba:
                    return f'not symmetric under {kind}: {annot.dump(a, False)} vs {annot.dump(b, False)}'
                if ab:
                    return f'equality blind to {kind}: {annot.dump(a, False)} vs {annot.dump(b, False)}'
                pb = permute(b, rng)
                if a == pb:
                    return f'equality blind to {kind} after reordering: {annot.dump(a, False)} vs {annot.dump(pb, False)}'
        if annot.dump(a, sort_internal=False) != d0:
            return 'comparison changed its argument'
        if a == a.serialize() or not (a != a.serialize()) or a == None:  # noqa: E711
            return 'an annotation compares equal to a non-annotation'
        return None

    udumps = [annot.dump(a, sort_internal=False) for a in anns]
    osel = udumps if (chk.broken() or tier != 'quick') else udumps[::2]
    nontriv = lambda d: d.count('|N') < 9  # noqa: E731
    chk.oracle('equality_laws', osel, o_equality, nontrivial_fn=nontriv, key_fn=lambda d: d)

    def o_dict_roundtrip(d):
        a = annot.undump(d)
        d0 = annot.dump(a)
        s0 = a.serialize()
        # annotation level
        # what the dictionary must contain, read from the fields: every field that is SET (is not None - 0 and [] are set),
        # internal mods under their indices
        exp = {k: getattr(a, f) for f, k in DICT_KEY.items() if getattr(a, f) is not None}
        if a._intervals is not None:
            exp['intervals'] = a._intervals
        if a._charge is not None:
            exp['charge'] = a._charge
        exp.update(a._internal_mods or {})
        for name, got in (('mod_dict()', a.mod_dict()), ('get_mods()', pt.get_mods(a)), ('pop_mods()[1]', pt.pop_mods(a)[1])):
            if show_dict(got) != show_dict(exp):
                return f'{name} is {show_dict(got)}, the fields say {show_dict(exp)}'
        b = a.strip()
        b.add_mod_dict(a.mod_dict())
        if annot.dump(b) != d0:
            return f'add_mod_dict(strip, mod_dict) gives {annot.dump(b)}, source {d0}'
        for f in LIST_FIELDS + ['_charge', '_sequence']:
            if repr(getattr(b, f)) != repr(getattr(a, f)):
                return f'field {f} is {getattr(b, f)!r} after strip + add_mod_dict(mod_dict), source has {getattr(a, f)!r}'
        for app in (True, False):
            b2 = a.strip()
            b2.add_mod_dict(a.mod_dict(), append=app)
            if b2.serialize() != s0 or annot.dump(b2) != d0:
                return f'strip + add_mod_dict(mod_dict, append={app}) writes {b2.serialize()!r}, source {s0!r}'
        if not (b == a):
            return 'rebuilt annotation is not == the source'
        # string level, both wrappers, default append and replace
        stripped = pt.strip_mods(a)
        if stripped != a._sequence:
            return f'strip_mods gives {stripped!r}'
        for app in (True, False):
            s = pt.add_mods(stripped, pt.get_mods(a), append=app)
            if s != s0:
                return f'add_mods(strip_mods, get_mods, append={app}) gives {s!r}, original {s0!r}'
        seq, md = pt.pop_mods(a)
        s = pt.add_mods(seq, md)
        if s != s0:
            return f'add_mods(*pop_mods) gives {s!r}, original {s0!r}'
        if not has_empty(a):
            seq, md = pt.pop_mods(s0)
            s = pt.add_mods(pp.ProFormaAnnotation(_sequence=seq), md)
            if s != s0:
                return f'add_mods(annotation, pop_mods(string)) gives {s!r}, original {s0!r}'
        # through the string form as well (a set-but-empty container has no text of its own)
        if not has_empty(a) and pt.add_mods(pt.strip_mods(s0), pt.get_mods(s0)) != s0:
            return f'string round trip gives {pt.add_mods(pt.strip_mods(s0), pt.get_mods(s0))!r}, original {s0!r}'
        if annot.dump(a) != d0:
            return 'get_mods/pop_mods/strip_mods changed their argument'
        return None

    chk.oracle('dict_roundtrip', osel, o_dict_roundtrip, nontrivial_fn=nontriv, key_fn=lambda d: d)

    def o_copies(d):
        a = annot.undump(d)
        d0 = annot.dump(a, sort_internal=False)
        c = a.copy()
        if annot.dump(c, sort_internal=False) != d0:
            return 'copy differs from its source'
        mutate_everything(c)
        if annot.dump(a, sort_internal=False) != d0:
            return f'mutating a copy changed the source: {d0} -> {annot.dump(a, False)}'
        for name, fn in (('dict', a.dict), ('mod_dict', a.mod_dict), ('get_mods', lambda: pt.get_mods(a)),
                         ('pop_mods', lambda: pt.pop_mods(a)[1])):
            d = fn()
            mutate_container(d)
            if annot.dump(a, sort_internal=False) != d0:
                return f'mutating the result of {name}() changed the annotation'
        kw = a.dict()
        n = pp.create_annotation(**kw)
        if not (n == a) or annot.dump(n) != annot.dump(a):
            return f'create_annotation(**dict()) gives {annot.dump(n)}'
        mutate_everything(n)
        if annot.dump(a, sort_internal=False) != d0:
            return 'mutating create_annotation(**dict()) changed the source'
        # setters copy their input
        b = pp.ProFormaAnnotation(_sequence=a._sequence)
        src = a.copy()
        for prop, f in (('isotope_mods', '_isotope_mods'), ('static_mods', '_static_mods'), ('labile_mods', '_labile_mods'),
                        ('unknown_mods', '_unknown_mods'), ('nterm_mods', '_nterm_mods'), ('cterm_mods', '_cterm_mods'),
                        ('charge_adducts', '_charge_adducts'), ('internal_mods', '_internal_mods'), ('intervals', '_intervals')):
            setattr(b, prop, getattr(src, f))
        b.charge = src._charge
        if annot.dump(b) != annot.dump(a):
            return 'setters do not reproduce the fields'
        mutate_everything(src)
        if annot.dump(b) != annot.dump(a):
            return f'a setter kept a reference to its input: {annot.dump(a)} -> {annot.dump(b)}'
        # add_mod_dict copies its input
        b2 = a.strip()
        md = a.mod_dict()
        b2.add_mod_dict(md)
        mutate_container(md)
        if annot.dump(b2) != annot.dump(a):
            return 'add_mod_dict kept a reference to the dictionary it was given'
        return None

    chk.oracle('copies_independent', osel, o_copies, nontrivial_fn=nontriv, key_fn=lambda d: d)

    def o_strip(d):
        a = annot.undump(d)
        d0 = annot.dump(a)
        s = a.strip()
        want = annot.esc(a._sequence) + '|N|N|N|N|N|N|N|N|None|N'
        if annot.dump(s) != want:
            return f'strip() gives {annot.dump(s)}'
        if s.has_mods() or s.mod_dict() != {}:
            return 'stripped annotation still has modifications'
        if annot.dump(a) != d0:
            return 'strip() changed its argument'
        c = a.copy()
        if c.strip(inplace=True) is not None or annot.dump(c) != want:
            return f'strip(inplace=True) gives {annot.dump(c)}'
        if pt.strip_mods(a) != a._sequence or (not has_empty(a) and pt.strip_mods(a.serialize()) != a._sequence):
            return 'strip_mods is not the bare sequence'
        return None

    chk.oracle('strip', osel, o_strip, nontrivial_fn=nontriv, key_fn=lambda d: d)

    # ------------------------------------------------------------------ call SEQUENCES on one string: no state may leak between calls
    # clean-state references come from the parser directly (never through the string wrappers) and, for a sample, from a fresh
    # subprocess; then mutating and querying wrapper calls are interleaved on the same string and every answer is re-checked
    from peptacular.sequence import sequence_funcs as sfm

    def clean_ref(st):
        a = pp.parse(st)
        return {'seq': a._sequence, 'dict': show_dict(a.mod_dict()), 'text': a.serialize(), 'dump': annot.dump(a),
                'condensed': a.copy().condense_static_mods().serialize() if not a._intervals else None,
                'reversed': a.copy().reverse().serialize(), 'split': [x.serialize() for x in a.copy().split()]}

    EXTRA = [{2: 'Oxidation'}, {0: [15.995, 'Phospho']}, {'nterm': 'Formyl'}, {'cterm': dc.Mod('Methyl', 2)}, {'labile': 'Glycan:Hex'},
             {'unknown': [dc.Mod(1.5, 2)]}, {'charge': 3}, {'charge': 2, 'charge_adducts': '+2Na+'}, {'isotope': '13C'},
             {'static': '[+57.02]@C'}, {'intervals': (0, 1, False, 'Phospho')}, {1: 'Acetyl', 'nterm': dc.Mod('Acetyl', 1)},
             {0: [dc.Mod('Oxidation', 1)], 'cterm': ['Amide']}]

    def expected_add(st, d, app, plus):
        a = pp.parse(st)                       # fresh object straight from the parser
        d = _copy.deepcopy(d)
        for k in d:
            if k == 'charge':
                continue
            d[k] = ic.fix_intervals_input(d[k]) if k == 'intervals' else ic.fix_list_of_mods(d[k])
        a.add_mod_dict(d, append=app)
        return a.serialize(include_plus=plus)

    def o_sequence(c):
        st, seed = c
        r = core.random.Random(seed)
        ref = clean_ref(st)
        n = len(ref['seq'])
        calls = []

        def bad(what, got, want):
            return 'call sequence on ' + repr(st) + ': ' + ' ; '.join(calls) + f' -> {what}: got {got!r}, clean state gives {want!r}'

        def queries():
            calls.append('strip_mods(s)')
            if pt.strip_mods(st) != ref['seq']:
                return bad('strip_mods', pt.strip_mods(st), ref['seq'])
            calls[-1] = 'get_mods(s)'
            g = pt.get_mods(st)
            if show_dict(g) != ref['dict']:
                return bad('get_mods', show_dict(g), ref['dict'])
            mutate_container(g)
            calls[-1] = 'get_mods(s) [returned dict mutated]; get_mods(s)'
            if show_dict(pt.get_mods(st)) != ref['dict']:
                return bad('get_mods after mutating the dict it returned', show_dict(pt.get_mods(st)), ref['dict'])
            calls[-1] = 'pop_mods(s)'
            ps, pd = pt.pop_mods(st)
            if ps != ref['seq'] or show_dict(pd) != ref['dict']:
                return bad('pop_mods', (ps, show_dict(pd)), (ref['seq'], ref['dict']))
            mutate_container(pd)
            calls[-1] = 'sequence_to_annotation(s)'
            an = sfm.sequence_to_annotation(st)
            if annot.dump(an) != ref['dump'] or an.serialize() != ref['text']:
                return bad('sequence_to_annotation', annot.dump(an), ref['dump'])
            mutate_everything(an)
            calls[-1] = 'sequence_to_annotation(s) [returned object mutated]; sequence_to_annotation(s)'
            if annot.dump(sfm.sequence_to_annotation(st)) != ref['dump']:
                return bad('sequence_to_annotation after mutating the object it returned',
                           annot.dump(sfm.sequence_to_annotation(st)), ref['dump'])
            calls[-1] = 'add_mods(strip_mods(s), get_mods(s))'
            rt = pt.add_mods(pt.strip_mods(st), pt.get_mods(st))
            if rt != ref['text']:
                return bad('round trip', rt, ref['text'])
            calls[-1] = 'add_mods(*pop_mods(s))'
            rt = pt.add_mods(*pt.pop_mods(st))
            if rt != ref['text']:
                return bad('pop/add round trip', rt, ref['text'])
            calls.pop()
            return None

        e = queries()
        if e:
            return e
        for step in range(r.randint(3, 6)):
            kind = r.choice(['add', 'add', 'add', 'condense', 'reverse', 'split', 'shift', 'strip', 'count'])
            if kind == 'add':
                d = _copy.deepcopy(r.choice(EXTRA))
                d = {(k % n if isinstance(k, int) else k): v for k, v in d.items()}
                if 'intervals' in d and n < 2:
                    continue
                app, plus = r.random() < 0.6, r.random() < 0.3
                want = expected_add(st, d, app, plus)
                calls.append(f'add_mods(s, {d!r}, append={app}, include_plus={plus})')
                for rep in range(2):        # the same mutating call twice must give the same answer twice
                    got = pt.add_mods(st, _copy.deepcopy(d), append=app, include_plus=plus)
                    if got != want:
                        return bad('add_mods' + (' (second time)' if rep else ''), got, want)
            elif kind == 'condense' and ref['condensed'] is not None:
                calls.append('condense_static_mods(s)')
                if pt.condense_static_mods(st) != ref['condensed']:
                    return bad('condense_static_mods', pt.condense_static_mods(st), ref['condensed'])
            elif kind == 'reverse':
                calls.append('reverse(s)')
                if pt.reverse(st) != ref['reversed']:
                    return bad('reverse', pt.reverse(st), ref['reversed'])
            elif kind == 'split':
                calls.append('split(s)')
                if pt.split(st) != ref['split']:
                    return bad('split', pt.split(st), ref['split'])
            elif kind == 'shift':
                calls.append('shift(s, 1)')
                pt.shift(st, 1)
            elif kind == 'strip':
                calls.append('strip_mods(s)')
                pt.strip_mods(st)
            else:
                calls.append('count_residues(s)')
                pt.count_residues(st)
            e = queries()
            if e:
                return e
        return None

    seq_texts = [t for t in dict.fromkeys(texts) if t and _parses_single(pp, t)]
    seq_cases = [(t, rng.randint(0, 10 ** 9)) for t in (seq_texts if tier != 'quick' else seq_texts[:140])]
    chk.oracle('string_call_sequences', seq_cases, o_sequence, nontrivial_fn=lambda c: '[' in c[0] or '{' in c[0] or '<' in c[0],
               key_fn=lambda c: c[0])

    # a sample against a fresh interpreter (nothing was ever called there before)
    sample = [c[0] for c in seq_cases[:: max(1, len(seq_cases) // 40)]]
    fresh = _fresh_answers(sample)

    def o_fresh(i):
        st = sample[i]
        here = [pt.strip_mods(st), show_dict(pt.get_mods(st)), pt.add_mods(pt.strip_mods(st), pt.get_mods(st)),
                annot.dump(sfm.sequence_to_annotation(st))]
        if fresh is None:
            return None
        if here != fresh[i]:
            return f'after the call sequences of this run the answers for {st!r} are {here}, a fresh interpreter gives {fresh[i]}'
        return None
    if fresh is not None:
        chk.oracle('end_of_run_vs_fresh_interpreter', list(range(len(sample))), o_fresh, key_fn=lambda i: sample[i])
    else:
        chk.notes.append('fresh-interpreter reference could not be computed')

    reach.__exit__()
    rep = reach.report()
    chk.notes.append({'reach_of_modelled_functions': rep})
    if rep.get('available'):
        chk.count('modelled_lines_total', rep['lines_of_modelled_functions'])
        chk.count('modelled_lines_executed', rep['lines_executed'])
    if tier == 'thorough':
        chk.leanchecker(['PeptVerif.Props.C20', 'PeptVerif.Props.C20Gen', 'PeptVerif.Props.C20Ext', 'PeptVerif.Generated.EqCorePy', 'PeptVerif.Model.AnnotEq', 'PeptVerif.Model.ModDict'])
    return chk.finish(classify)


def classify(f):
    return None
