"""C14 - isotopic distributions are normalised, centred on the right masses and complete."""
import itertools
import json
import math
import os
import time
import warnings
from fractions import Fraction

from .. import core
from .. import translate_c14
from .c14_reach import Reach

PID = 'C14'
DRV = 'drv_c14'

REGISTRY = {
    'id': 'C14',
    'text': 'Lean theorems (all compositions, all option values unless stated) about an exact rational model of isotope.py: sorted_by_mass '
            '(strict), scale_max, scale_sum for every pruning/rounding option; un-pruned: total_abundance = prod (sum_iso ab)^count, '
            'weighted mean = average mass + delta + particles (abundances sum to 1 for C,H,N,O,S,P,Se,Cl,Br,Fe by decide over the generated '
            'NIST table), lightest peak = monoisotopic mass + delta + particles for C,H,N,O,S,P; conv_comm, conv_assoc, conv_pushforward / '
            'neutron_view_is_binned_pattern (neutron-offset view and mass view are marginals of one joint pattern), merge_adds, '
            'nfold_conv_eq_multinomial (general, by induction), no_error_after_element_loop; pruning options without tolerance: pruned_is_sublist '
            '(thresholded output = sub-list of the un-thresholded one up to one common factor), max_isotopes_takes_top_k. The model is tied to /repo by differential '
            'correspondence (isotopic_distribution, estimate_isotopic_distribution, _calculate_elemental_distribution, _convolve_distributions, '
            'merge_isotopic_distributions, round) and every clause of the property is evaluated on the real code; the exact multinomial '
            'comparison for <= 12 atoms is a TEST (exact rationals: model vs independent Fraction reference, string equal; code vs reference '
            'within float error and the 1e-8 floor), exhaustive in the thorough tier',
    'note': 'trusted: Lean kernel, axioms propext/Classical.choice/Quot.sound, translate_c14.py (its table is compared with '
            'peptacular.constants on every run), correspondence harness, float-vs-rational tolerance argument of DESIGN 2.4; theorems about '
            'mean/lightest peak are for floor=none, resolution=None: the effect of the 1e-8 floor and of rounding is bounded empirically only; '
            'known findings: fractional counts (mean shifted by the monoisotopic remainder; neutron-offset mass view scales the remainder by neutron_mass)',
    'technique': 'Lean 4 proof about executable model + differential correspondence + exact reference test',
}

CHNOSP = ['C', 'H', 'N', 'O', 'S', 'P']
HEAVY = ['Se', 'Cl', 'Br', 'Fe']
LABELLED = ['13C', '15N', 'D', '2H', 'T', '18O', '17O', '34S', '12C', '1H']
FLOOR = Fraction(1, 10 ** 8)
FLOOR_K = 400          # abundance tolerance: FLOOR_K * 1e-8 un-normalised (split float keys are pruned differently)
NM_DEFAULT = None


class _Api:
    """the functions under test, each taken from the module that DEFINES it (not from a package that re-exports it)"""

    def __init__(self):
        import importlib
        iso = importlib.import_module('peptacular.isotope')
        mc = importlib.import_module('peptacular.mass_calc')
        self.isotopic_distribution = iso.isotopic_distribution
        self.estimate_isotopic_distribution = iso.estimate_isotopic_distribution
        self.merge_isotopic_distributions = iso.merge_isotopic_distributions
        self.chem_mass = mc.chem_mass


_API = []


def _pt():
    import importlib
    if not _API:
        _API.append(_Api())
    return _API[0], importlib.import_module('peptacular.isotope'), importlib.import_module('peptacular.constants')


# ----------------------------------------------------------------------------- wire helpers
def fr(x):
    """exact value of a Python number as p/q"""
    if x is None:
        return 'None'
    f = Fraction(x)
    return str(f.numerator) if f.denominator == 1 else f'{f.numerator}/{f.denominator}'


def cnt(v):
    return ('i:' + str(v)) if isinstance(v, int) else ('f:' + fr(v))


def wire_formula(f):
    return ','.join(f'{k}={cnt(v)}' for k, v in f.items())


def wire_dist(d):
    return ';'.join(f'{fr(k)}:{fr(a)}' for k, a in d)


def parse_dist(s):
    if not s:
        return []
    out = []
    for e in s.split(';'):
        k, a = e.split(':')
        out.append((Fraction(k), Fraction(a)))
    return out


def iso_line(case, floor=FLOOR, fmt='approx'):
    f, o = case
    return '\t'.join(['iso', wire_formula(f), 'None' if o['max_isotopes'] is None else str(o['max_isotopes']),
                      fr(o['min_abundance_threshold']), 'None' if o['distribution_resolution'] is None else str(o['distribution_resolution']),
                      str(int(o['use_neutron_count'])), fr(o.get('conv_min_abundance_threshold')),
                      fr(o['distribution_abundance']), str(int(o['is_abundance_sum'])),
                      str(int(o['output_masses_for_neutron_offset'])), fr(o['neutron_mass']),
                      'None' if o.get('precision') is None else str(o['precision']), fr(floor), fmt])


def call_iso(pt, case):
    f, o = case
    with warnings.catch_warnings():
        warnings.simplefilter('ignore')
        return pt.isotopic_distribution(dict(f), **o)     # always a copy (argument mutation is property C08)


# ----------------------------------------------------------------------------- generators
def gen_formula(rng, mass_view, big_ok=True, fine=False):
    f = {}
    kind = rng.random()
    els = [e for e in CHNOSP if rng.random() < 0.6] or ['C']
    if rng.random() < 0.25:
        els += rng.sample(HEAVY, rng.choice([1, 1, 2]))
    if rng.random() < 0.2:
        els += rng.sample(LABELLED, rng.choice([1, 2]))
    rng.shuffle(els)
    size = rng.choice(['small', 'small', 'medium', 'large']) if big_ok else 'small'
    if fine and size == 'large':
        size = 'medium'   # mass view, no max_isotopes, resolution >= 4: the code itself needs minutes for 200-atom formulas
    fractional = rng.random() < 0.3
    for e in els:
        hi = {'small': 12, 'medium': 40 if fine else 50, 'large': 200}[size]
        if mass_view:
            if e == 'Se':
                hi = min(hi, 6)
            elif e == 'Fe':
                hi = min(hi, 25)
            elif e in ('S', 'Cl', 'Br'):
                hi = min(hi, 60 if rng.random() < 0.8 else 200)
        c = rng.randint(0, hi)
        if fractional and rng.random() < 0.6:
            r = rng.random()
            if r < 0.2:
                c = float(c)
            elif r < 0.4:
                c = c + 0.5
            else:
                c = round(c + rng.random(), rng.choice([1, 2, 6]))
        f[e] = c
    if rng.random() < 0.35:
        for p in rng.sample(['e', 'p', 'n'], rng.choice([1, 1, 2, 3])):
            f[p] = rng.choice([-3, -2, -1, 1, 2, 3, 5]) if rng.random() < 0.8 else round(rng.uniform(-3, 3), 2)
    if kind < 0.03:
        f[rng.choice(CHNOSP)] = -rng.randint(1, 3)
    elif kind < 0.05:
        f['Xx'] = 2
    return f


def gen_opts(rng, constants):
    neu = rng.random() < 0.45
    o = {
        'max_isotopes': rng.choice([None, None, None] + list(range(1, 21))),
        'min_abundance_threshold': rng.choice([None, None, 0.0, 1e-6, 1e-3]),
        'distribution_resolution': rng.choice([0, 1, 2, 3, 4, 5, 5, 6]),
        'use_neutron_count': neu,
        'distribution_abundance': rng.choice([1.0, 1.0, 100.0, 1e6, round(rng.uniform(1e-3, 1e6), 3), rng.uniform(1e-6, 1.0)]),
        'is_abundance_sum': rng.random() < 0.4,
        'output_masses_for_neutron_offset': rng.random() < 0.5,
        'neutron_mass': constants.NEUTRON_MASS if rng.random() < 0.8 else rng.choice([constants.C13_NEUTRON_MASS,
                                                                                        constants.PEPTIDE_AVERAGINE_NEUTRON_MASS]),
    }
    if rng.random() < 0.15:
        o['precision'] = rng.choice([3, 4, 6, 8])
    return o


_EL_CACHE = {}


def fit_budget(f, o, isotope, budget=150000):
    """mass view without max_isotopes: the code keeps every distinct rounded mass; bound the product of the per-element peak
    counts (an upper estimate of the output size) by halving the largest contributor - the code needs minutes otherwise"""
    if o['use_neutron_count'] or o['max_isotopes'] is not None:
        return f
    res = o['distribution_resolution']
    f = dict(f)
    for _ in range(40):
        sizes = {}
        for e, v in f.items():
            if e in ('e', 'p', 'n', 'Xx') or v <= 0:
                continue
            n = int(round(v))
            key = (e, n, res)
            if key not in _EL_CACHE:
                d = isotope._calculate_elemental_distribution(e, n, False)
                _EL_CACHE[key] = len({round(k, res) for k in d}) if res is not None else len(d)
            sizes[e] = _EL_CACHE[key]
        prod = 1
        for v in sizes.values():
            prod *= v
        if prod <= budget or not sizes:
            return f
        worst = max(sizes, key=lambda e: sizes[e])
        f[worst] = type(f[worst])(f[worst] // 2) if isinstance(f[worst], int) else float(int(f[worst]) // 2) + 0.5
    return f


def is_fine(o):
    return (not o['use_neutron_count']) and o['max_isotopes'] is None and (o['distribution_resolution'] is None or o['distribution_resolution'] >= 4)


def is_fractional(f):
    return any(not isinstance(v, int) and k not in ('e', 'p', 'n') for k, v in f.items() if v != 0)


def has_real_fraction(f):
    return any(k not in ('e', 'p', 'n') and float(v) != round(v) for k, v in f.items())


def no_pruning(o):
    return o['max_isotopes'] is None and o['min_abundance_threshold'] in (None, 0, 0.0) and \
        o.get('conv_min_abundance_threshold') in (None, 0, 0.0) and o.get('precision') is None


# ----------------------------------------------------------------------------- comparison
def compare_dist(code, model, mass_tol, rel, abs_tol, thr_abs=None, thr_tol=0.0):
    """code: list of (float, float); model: list of (Fraction, Fraction) sorted by key. Peaks matched by nearest key; code peaks
    that fall on the same model key are summed (float keys of one exact mass can differ in the last bit). Returns None or text."""
    mk = [float(k) for k, _ in model]
    ma = [float(a) for _, a in model]
    got = [0.0] * len(model)
    import bisect
    for m, a in code:
        i = bisect.bisect_left(mk, m)
        best = None
        for j in (i - 1, i):
            if 0 <= j < len(mk) and (best is None or abs(mk[j] - m) < abs(mk[best] - m)):
                best = j
        if best is None or abs(mk[best] - m) > mass_tol:
            if abs(a) <= abs_tol or (thr_abs is not None and abs(a - thr_abs) <= thr_tol):
                continue
            return f'code peak ({m!r}, {a!r}) has no model peak within {mass_tol} (nearest {None if best is None else mk[best]!r})'
        got[best] += a
    for j in range(len(model)):
        if abs(got[j] - ma[j]) <= rel * abs(ma[j]) + abs_tol:
            continue
        if got[j] == 0.0 and thr_abs is not None and abs(ma[j] - thr_abs) <= thr_tol:
            continue
        return f'abundance at {mk[j]!r}: code {got[j]!r} model {ma[j]!r} (tol {rel}*a+{abs_tol:.3g})'
    return None


def canon_code(d):
    return json.dumps([[float(m), float(a)] for m, a in d])


# ----------------------------------------------------------------------------- independent multinomial reference (TEST)
def multinomial_element(isos, n):
    """exact n-fold distribution of one element from multinomial coefficients, integer arithmetic:
    isos = [(key numerator, abundance numerator)], result dict key numerator -> abundance numerator (scale abScale^n)"""
    k = len(isos)
    out = {}

    def rec(i, left, mass, coef_ab):
        if i == k - 1:
            m = mass + isos[i][0] * left
            a = coef_ab * isos[i][1] ** left
            out[m] = out.get(m, 0) + a
            return
        for j in range(left + 1):
            rec(i + 1, left - j, mass + isos[i][0] * j, coef_ab * math.comb(left, j) * isos[i][1] ** j)

    if k == 0:
        return {0: 1} if n == 0 else {}
    rec(0, n, 0, 1)
    return out


def multinomial_formula(table, f, neutron):
    """independent reference: {key numerator: abundance numerator}; keys over 10^12 (mass view) or 1 (neutron offsets),
    abundances over 10^(9 * number of atoms)"""
    total = {0: 1}
    for el, n in f.items():
        mono, isos = table[el]
        if neutron:
            lst = [(a - isos[0][0], ab) for a, _, ab in isos]
        else:
            lst = [(m, ab) for _, m, ab in isos]
        ed = multinomial_element(lst, n)
        new = {}
        for m1, a1 in total.items():
            for m2, a2 in ed.items():
                new[m1 + m2] = new.get(m1 + m2, 0) + a1 * a2
        total = new
    return total


# ----------------------------------------------------------------------------- property clauses on the real code
def nominal_bins(code_mass_view, tol=0.35):
    """bin a mass-view pattern by nominal mass offset from its lightest peak; None if a peak is ambiguous"""
    if not code_mass_view:
        return {}
    m0 = code_mass_view[0][0]
    bins = {}
    for m, a in code_mass_view:
        k = round(m - m0)
        if abs((m - m0) - k) > tol:
            return None
        bins[k] = bins.get(k, 0.0) + a
    return bins


# ----------------------------------------------------------------------------- call sequences (state leaking between calls)
def model_agrees(chk, case, r, m):
    """one answer of the code against the model reply for the SAME arguments (tolerances as in the correspondence)"""
    f, o = case
    if m.startswith('ERR:') or not m.startswith('OK\t'):
        return f'model says {m[:40]} but the code returned a pattern'
    _, mx, sn, dist = m.split('\t')
    mx, sn = float(Fraction(mx)), float(Fraction(sn))
    model = parse_dist(dist)
    a = o['distribution_abundance']
    scale = a / sn if o['is_abundance_sum'] else a
    abs_tol = FLOOR_K * 1e-8 / mx * scale
    thr = o['min_abundance_threshold']
    thr_abs = thr * scale if thr else None
    res = compare_dist(r, model, 1e-6, 1e-6, abs_tol, thr_abs, 2 * abs_tol + 1e-6 * (thr_abs or 0))
    if res is None:
        return None
    rd, tg = (float(Fraction(x)) for x in chk.driver(DRV, [iso_line(case).replace('iso\t', 'isodiag\t', 1)])[0].split('\t'))
    if rd < 1e-6 or (o['max_isotopes'] is not None and tg < 1e-4):
        return None
    return res


def gen_sequence(rng, constants):
    """calls on ONE composition; consecutive calls differ in exactly one argument; every dimension is walked forth and back"""
    els = rng.sample(CHNOSP, rng.randint(2, 4))
    if 'S' not in els and rng.random() < 0.7:
        els.append('S')          # S gives peaks of relative abundance 1e-4 .. 1e-2: between the thresholds used below
    f = {e: rng.randint(1, 8) for e in els}
    if rng.random() < 0.3:
        f['e'] = rng.choice([-1, 1, 2])
    if rng.random() < 0.2:
        f[rng.choice(els)] += 0.5
    o = dict(max_isotopes=None, min_abundance_threshold=None, distribution_resolution=5, use_neutron_count=rng.random() < 0.3,
             distribution_abundance=1.0, is_abundance_sum=False, output_masses_for_neutron_offset=False,
             neutron_mass=constants.NEUTRON_MASS)
    dims = {
        'min_abundance_threshold': [1e-2, 1e-3, 1e-6, 0.0, None],
        'max_isotopes': [3, 10, None],
        'distribution_resolution': [0, 3, 5],
        'use_neutron_count': [True, False],
        'output_masses_for_neutron_offset': [True, False],
        'distribution_abundance': [100.0, 1.0],
        'is_abundance_sum': [True, False],
        '#formula': ['reversed', 'zero-entry', 'plain'],
    }
    calls = [(dict(f), dict(o))]
    cur_f, cur_o = dict(f), dict(o)
    order = list(dims)
    rng.shuffle(order)
    for d in order:
        vals = dims[d]
        walk = vals + vals[-2::-1] if rng.random() < 0.5 else vals[::-1] + vals[1:]
        for v in walk:
            if d == '#formula':
                items = [(k, x) for k, x in f.items()]
                if v == 'reversed':
                    cur_f = dict(reversed(items))
                elif v == 'zero-entry':
                    cur_f = dict(items[:1] + [('Li', 0)] + items[1:])
                else:
                    cur_f = dict(items)
            else:
                cur_o = dict(cur_o)
                cur_o[d] = v
            calls.append((dict(cur_f), dict(cur_o)))
    return calls


FRESH_SNIPPET = """
import json, sys, warnings
warnings.simplefilter('ignore')
from peptacular.isotope import isotopic_distribution
calls = json.load(sys.stdin)
out = []
for f, o in calls:
    out.append([[float(m), float(a)] for m, a in isotopic_distribution(dict(f), **o)])
print(json.dumps(out))
"""


def fresh_answers(calls):
    """the same calls in a fresh interpreter (given order)"""
    import subprocess
    import sys as _sys
    env = dict(os.environ)
    p = subprocess.run([_sys.executable, '-W', 'ignore', '-c', FRESH_SNIPPET], input=json.dumps(calls), capture_output=True,
                       text=True, env=env, cwd='/tmp')
    if p.returncode != 0:
        raise core.InfraError('fresh interpreter failed: ' + p.stderr[-500:])
    return json.loads(p.stdout.strip().split('\n')[-1])


def check_sequence(chk, pt, calls):
    """returns None or a description; every answer is compared with the model for that call's own arguments, with the answer of the
    same call re-issued at the end, after mutating the returned list, and in a fresh interpreter running the calls in reverse order"""
    answers = []
    for c in calls:
        r = call_iso(pt, c)
        answers.append([(float(m), float(a)) for m, a in r])
        # the caller may do anything with the returned list
        r.append((0.0, 123.0))
        if len(r) > 1:
            r[0] = (-1.0, -1.0)
        del r[:]
        again = call_iso(pt, c)
        if [(float(m), float(a)) for m, a in again] != answers[-1]:
            return {'step': len(answers) - 1, 'call': c, 'why': 'the same call repeated after mutating the returned list gives a different answer'}
    replies = par_driver(chk, [iso_line(c) for c in calls])
    for i, (c, r, m) in enumerate(zip(calls, answers, replies)):
        why = model_agrees(chk, c, r, m)
        if why is not None:
            return {'step': i, 'call': c, 'previous_call': calls[i - 1] if i else None,
                    'why': 'answer differs from the exact model for this call\'s own arguments: ' + why}
    for i in range(min(4, len(calls))):
        r = call_iso(pt, calls[i])
        if [(float(m), float(a)) for m, a in r] != answers[i]:
            return {'step': i, 'call': calls[i], 'why': 'an early call re-issued at the end of the sequence gives a different answer'}
    rev = fresh_answers(calls[::-1])[::-1]
    for i, (r, fr_) in enumerate(zip(answers, rev)):
        if [list(x) for x in r] != fr_:
            return {'step': i, 'call': calls[i], 'previous_call': calls[i - 1] if i else None,
                    'why': 'answer depends on the call history: a fresh interpreter running the calls in reverse order returns a different pattern'}
    return None



def par_driver(chk, lines, workers=4):
    """the driver is a pure function of each line: run chunks in parallel processes"""
    if len(lines) < 40:
        return chk.driver(DRV, lines)
    from concurrent.futures import ThreadPoolExecutor
    k = (len(lines) + workers - 1) // workers
    chunks = [lines[i:i + k] for i in range(0, len(lines), k)]
    with ThreadPoolExecutor(max_workers=workers) as ex:
        outs = list(ex.map(lambda ch: chk.driver(DRV, ch), chunks))
    return [r for o in outs for r in o]


def run(chk):
    pt, isotope, constants = _pt()
    tier = chk.tier
    rng = chk.rng
    quick = tier == 'quick'
    _t = [time.time()]

    def tick(name):
        now = time.time()
        chk.notes.append(f'time {name}: {now - _t[0]:.1f}s')
        _t[0] = now

    # ---------------------------------------------------------------- line reach of the modelled functions (sys.monitoring)
    reach = Reach([isotope.isotopic_distribution, isotope.merge_isotopic_distributions, isotope.estimate_isotopic_distribution,
                   isotope._convolve_distributions, isotope._calculate_elemental_distribution, isotope._fix_chemical_formula,
                   isotope._scale_isotope_abundances],
                  outside={
                      'isotopic_distribution': {
                          'warnings.warn(': 'the warning text is not modelled (warnings are silenced by the harness)',
                          'f"The chemical formula has a mass difference of {delta_mass} Da. This is likely due to floating point errors. The mass will be corrected for this.")':
                              'argument of warnings.warn',
                      },
                      '_fix_chemical_formula': {
                          "if 'H' not in total_atoms:": 'add_hydrogens=True is never used by isotopic_distribution (it passes False); not modelled',
                          "total_atoms['H'] = 0": 'add_hydrogens=True branch, not modelled',
                          "total_atoms['H'] += int((starting_mass - chem_mass(total_atoms)) / constants.ISOTOPIC_ATOMIC_MASSES['H'])":
                              'add_hydrogens=True branch, not modelled',
                      }})
    reach.__enter__()
    # ---------------------------------------------------------------- translate (regenerated from the current tree)
    changed, path = translate_c14.translate(core.REPO, core.LEAN)
    if changed:
        chk.generated_changed.append(os.path.relpath(path, core.VERIF))
    _, table, parts = translate_c14.render(core.REPO)
    if translate_c14.LAST_MODE['mode'] != 'source':
        # the source could not be read in the expected shape: the generated table is the library's own runtime value (by_value),
        # i.e. no longer an independent reading of data/chem.txt - reported as a correspondence break, never as a crash
        chk.notes.append({'generated_table': 'by_value', 'why': translate_c14.LAST_MODE['why']})
        chk.disagreements.append({'op': 'translate_c14', 'line': 'data/chem.txt + constants.py -> Generated/IsotopesC14.lean',
                                  'impl': 'source not readable in the expected shape: ' + translate_c14.LAST_MODE['why'][:300],
                                  'model': 'emitted by value from peptacular.constants of the tree under test'})
        chk.corr.setdefault('translate_c14', {'evaluations': 1, 'disagreements': 1, 'samples': []})
    else:
        chk.notes.append({'generated_table': 'source (exact decimal texts of data/chem.txt, constants.py)'})
    ok = chk.lean_build(['PeptVerif.Props.C14', 'PeptVerif.Props.C14Ext'], DRV)
    chk.trusted += [
        'translate_c14.py: exact decimal texts of data/chem.txt -> Generated/IsotopesC14.lean; its table is compared on every run '
        'with peptacular.constants (masses, abundances, neutron offsets, monoisotopic masses, particle masses) as floats',
        'modelled: _convolve_distributions, _calculate_elemental_distribution, isotopic_distribution (incl. _fix_chemical_formula(False), '
        'chem_mass monoisotopic, _scale_isotope_abundances), merge_isotopic_distributions; round() is round-half-even on the exact value; '
        'not modelled: estimate_comp (its output composition is fed to the model), warnings, float rounding error (tolerances below)',
        'theorems of Props/C14 are about the model with floor = none and resolution = none (no pruning, no rounding); Props/C14Ext bounds the effect '
        'of thresholds / floor / rounding per step (loss <= n1*n2*theta, total unchanged by rounding, mean shift <= half a bin width); the accumulated effect of the 1e-8 floor and '
        'of rounding on the proved identities is checked by the oracle on the real code only (tolerances 1e-6 relative / 1e-5 Da + rounding allowance)',
    ]
    chk.assumptions += [
        'Python round(x, n) / round(x) = round-half-even of the exact value; a case whose pre-rounding key lies within 1e-6 units of a '
        'rounding boundary, or whose top-k cut has a relative gap < 1e-4, is counted as float-ambiguous and not compared with the model',
        'float error of sums/products of <= 200 factors is below the comparison tolerance (masses 1e-6, abundances 1e-6 relative + '
        '400e-8 un-normalised floor allowance, widened only by the per-element extra floor loss measured on the code itself)',
        'theorems about mean and lightest peak assume floor = none and resolution = None; the oracle bounds the effect of the floor and of '
        'rounding on the real code by 1e-6 relative / 1e-5 Da + (n_elements+1)/2 * 10^-resolution',
    ]
    chk.rule = ('cases = (composition, options): elements from C,H,N,O,S,P (+Se,Cl,Br,Fe, + isotope keys 13C 15N D 2H T 18O 17O 34S 12C 1H), counts '
                '0..12 / 0..50 / 0..200 integer or float (x.0, x.5, random decimals), optional e/p/n entries, 3%% negative counts, 2%% unknown element; '
                'options drawn over max_isotopes None|1..20, min_abundance_threshold None|0|1e-6|1e-3, resolution 0..6, use_neutron_count x '
                'output_masses_for_neutron_offset, distribution_abundance in (0,1e6], is_abundance_sum, neutron_mass, precision None|3..8. '
                'Model sizes are bounded (association-list model, exact rationals): mass view Se<=6, Fe<=25, S/Cl/Br<=60 (20%%: <=200); a case goes to the '
                'model only when the code returned <= %d peaks (quick) / %d (thorough); larger cases are exercised by the oracle only. '
                'non-trivial = the code returned >= 2 peaks; distinct = distinct protocol line') % (600, 1500)

    # ---------------------------------------------------------------- table vs constants (ties the translator to the source)
    M = constants.ATOMIC_SYMBOL_TO_ISOTOPE_MASSES_AND_ABUNDANCES
    N = constants.ATOMIC_SYMBOL_TO_ISOTOPE_NEUTRON_OFFSETS_AND_ABUNDANCES

    def o_table(k):
        if k == '#keys':
            if set(table) != set(M) or set(table) != set(N):
                return f'key sets differ: {sorted(set(table) ^ set(M))[:5]}'
            if (parts['PROTON_MASS'] / 10 ** 15, parts['ELECTRON_MASS'] / 10 ** 15, parts['NEUTRON_MASS'] / 10 ** 15) != \
                    (constants.PROTON_MASS, constants.ELECTRON_MASS, constants.NEUTRON_MASS):
                return 'particle masses differ'
            return None
        mono, isos = table[k]
        if [(m / 10 ** 12, ab / 10 ** 9) for _, m, ab in isos] != list(M[k]):
            return f'{k}: masses/abundances differ from constants: {M[k]}'
        if [(a - isos[0][0], ab / 10 ** 9) for a, _, ab in isos] != list(N[k]):
            return f'{k}: neutron offsets differ from constants: {N[k]}'
        if mono / 10 ** 12 != constants.ISOTOPIC_ATOMIC_MASSES[k]:
            return f'{k}: monoisotopic mass differs'
        return None

    chk.oracle('generated_table_vs_constants', ['#keys'] + sorted(set(table) & set(M)), o_table,
               nontrivial_fn=lambda k: k != '#keys' and len(table[k][1]) >= 2)

    # ---------------------------------------------------------------- corpus (fixed findings first)
    corpus = load_corpus()

    tick('build+table')
    # ---------------------------------------------------------------- (a) round()
    rcases = []
    for _ in range(300 if quick else 5000):
        q = Fraction(rng.randint(-10 ** 9, 10 ** 9), rng.choice([1, 2, 4, 8, 10, 100, 1000, 2000, 10 ** 6, 3, 7]))
        rcases.append((q, rng.randint(-2, 7)))
    chk.correspond('round', DRV, rcases, lambda c: f'round\t{fr(c[0])}\t{c[1]}',
                   lambda c: fr(Fraction(round(c[0], c[1]))), nontrivial_fn=lambda c, im: True)

    # ---------------------------------------------------------------- (b) _convolve_distributions, exact (binary-exact floats)
    def gen_bdist(n):
        ks = rng.sample(range(0, 64), n)
        return [(k / 8.0, rng.randint(1, 64) / 64.0) for k in ks]

    ccases = []
    for _ in range(400 if quick else 6000):
        d1 = gen_bdist(rng.randint(0, 6))
        d2 = gen_bdist(rng.randint(0, 5))
        ccases.append((d1, d2, rng.choice([None, None, 0, 1, 2, 3, 5, 8]), rng.choice([None, 0.0, 1 / 64, 1 / 8, 0.25]),
                       rng.choice([None, 0, 1, 2, 5])))
    chk.correspond('convolve', DRV, ccases,
                   lambda c: f'conv\t{wire_dist(c[0])}\t{wire_dist(c[1])}\t{"None" if c[2] is None else c[2]}\t{fr(c[3])}\t'
                             f'{"None" if c[4] is None else c[4]}\texact',
                   lambda c: canon_code(isotope._convolve_distributions(dict(c[0]), dict(c[1]), c[2], c[3], c[4]).items()),
                   compare=lambda im, m: m != 'bad-op' and im == canon_code(parse_dist(m)),
                   nontrivial_fn=lambda c, im: im.count('],') >= 1)

    # ---------------------------------------------------------------- (c) _calculate_elemental_distribution
    ecases = []
    for el in CHNOSP + HEAVY + ['13C', 'D', 'Li', 'B']:
        for neu in (False, True):
            top = 200
            if not neu:
                top = {'Se': 8, 'Fe': 30, 'S': 120 if quick else 200}.get(el, 200)
            ns = sorted(set([0, 1, 2, 3, 5, 12, top] + [rng.randint(0, top) for _ in range(1 if quick else 10)]))
            for n in ns:
                ecases.append((el, n, neu))

    def elem_line(c):
        return f'elem\t{c[0]}\t{c[1]}\t{int(c[2])}\t{fr(FLOOR)}\tapprox'

    def elem_cmp(im, m):
        if m.startswith('ERR') or m == 'bad-op':
            return False
        code = sorted(json.loads(im))
        model = sorted(parse_dist(m))
        return compare_dist(code, model, 1e-7, 1e-6, FLOOR_K * 1e-8) is None

    chk.correspond('elemental', DRV, ecases, elem_line,
                   lambda c: canon_code(isotope._calculate_elemental_distribution(c[0], c[1], c[2]).items()),
                   compare=elem_cmp, nontrivial_fn=lambda c, im: im.count('],') >= 1)

    tick('round/conv/elem')
    # ---------------------------------------------------------------- (d) isotopic_distribution
    cap = 600 if quick else 1500
    n_iso = 120 if quick else 700
    cases = list(corpus)
    for i in range(n_iso):
        o = gen_opts(rng, constants)
        mass_view = not o['use_neutron_count']
        f = fit_budget(gen_formula(rng, mass_view, fine=is_fine(o)), o, isotope)
        cases.append((f, o))
    # a few fixed big / doctest formulas
    for f in ({'C': 12, 'H': 6, 'N': 3}, {'C': 100, 'H': 150, 'N': 15, 'O': 20}, {'C': 100, 'Li': 10, 'N': 15, 'O': 20},
              {'C': 100.2, 'Li': 10, 'N': 15, 'O': 20}, {'C': 20, 'H': 20.5, 'N': 20, 'O': 20}, {'C': 200, 'H': 200, 'N': 200, 'O': 200, 'S': 200, 'P': 200}):
        for neu, om in ((False, False), (True, False), (True, True)):
            o = gen_opts(rng, constants)
            o.update(use_neutron_count=neu, output_masses_for_neutron_offset=om, max_isotopes=3 if not neu else None, precision=None)
            cases.append((dict(f), o))

    code_out = {}
    to_model = []
    t_code = time.time()
    for i, c in enumerate(cases):
        f, o = c
        try:
            r = call_iso(pt, c)
            code_out[i] = ('ok', r)
        except Exception as e:  # noqa
            code_out[i] = ('exc', type(e).__name__)
            r = None
        chk.count('view:' + ('neutron+masses' if o['use_neutron_count'] and o['output_masses_for_neutron_offset'] else
                             'neutron' if o['use_neutron_count'] else 'mass'))
        chk.count('counts:' + ('fractional' if is_fractional(f) else 'integer'))
        if any(k in f for k in 'epn'):
            chk.count('with e/p/n')
        if any(k in f for k in HEAVY):
            chk.count('with Se/Cl/Br/Fe')
        if any(k in f for k in LABELLED):
            chk.count('with isotope-labelled element')
        chk.count('atoms:' + ('<=12' if sum(abs(v) for k, v in f.items() if k not in 'epn') <= 12 else
                              '<=100' if sum(abs(v) for k, v in f.items() if k not in 'epn') <= 100 else '>100'))
        if r is not None and len(r) > cap:
            chk.count('too large for the model (oracle only)')
            continue
        to_model.append(i)
    t_code = time.time() - t_code

    def iso_impl(i):
        kind, r = code_out[i]
        return 'ERR:' + r if kind == 'exc' else canon_code(r)

    ambiguous = []
    widened = []

    def iso_cmp_case(i, m):
        f, o = cases[i]
        kind, r = code_out[i]
        if m.startswith('ERR:'):
            return kind == 'exc' and m == 'ERR:' + r
        if kind == 'exc' or not m.startswith('OK\t'):
            return False
        _, mx, sn, dist = m.split('\t')
        mx, sn = (float(Fraction(x)) for x in (mx, sn))
        model = parse_dist(dist)
        a = o['distribution_abundance']
        scale = a / sn if o['is_abundance_sum'] else a
        pr = o.get('precision')
        mass_tol = 1e-6 + (10.0 ** -pr if pr is not None else 0.0)
        abs_tol = FLOOR_K * 1e-8 / mx * scale + (10.0 ** -pr if pr is not None else 0.0)
        thr = o['min_abundance_threshold']
        thr_abs = thr * scale if thr else None
        if pr is not None:
            # rounded masses may collide: merge model peaks with equal keys for the comparison
            merged = {}
            for k, v in model:
                merged[k] = merged.get(k, 0) + v
            model = sorted(merged.items())
        res = compare_dist(r, model, mass_tol, 1e-6, abs_tol, thr_abs, 2 * abs_tol + 1e-6 * (thr_abs or 0))
        if res is None:
            return True
        # the code applies the 1e-8 floor to float keys that are split in the last bit, so it prunes more than the exact model:
        # measure that extra loss per element on the code itself and widen the tolerance by it (documented floor artefact)
        slack = 0.0
        for el, v in f.items():
            n_at = int(round(v)) if el not in ('e', 'p', 'n') else 0
            if n_at > 0 and el in table:
                ct = math.fsum(isotope._calculate_elemental_distribution(el, n_at, o['use_neutron_count']).values())
                mt = float(sum(x for _, x in parse_dist(chk.driver(DRV, [f'elem\t{el}\t{n_at}\t{int(o["use_neutron_count"])}\t{fr(FLOOR)}\tapprox'])[0])))
                slack += max(0.0, mt - ct)
        if slack > 0.0:
            res2 = compare_dist(r, model, mass_tol, 1e-6 + 4 * slack, abs_tol + 4 * slack / mx * scale, thr_abs,
                                2 * abs_tol + (1e-6 + 4 * slack) * (thr_abs or 0))
            if res2 is None:
                widened.append(i)
                return True
        # float rounding next to a rounding boundary / a near-tie at a top-k cut: the exact model may legitimately differ
        rd, tg = (float(Fraction(x)) for x in chk.driver(DRV, [iso_line(cases[i]).replace('iso\t', 'isodiag\t', 1)])[0].split('\t'))
        if rd < 1e-6 or (o['max_isotopes'] is not None and tg < 1e-4):
            ambiguous.append(i)
            return True
        iso_cmp_case.last = res
        return False

    lines = [iso_line(cases[i]) for i in to_model]
    t_model = time.time()
    replies = par_driver(chk, lines)
    t_model = time.time() - t_model
    st = chk.corr.setdefault('isotopic_distribution', {'evaluations': 0, 'disagreements': 0, 'samples': []})
    for i, l, m in zip(to_model, lines, replies):
        st['evaluations'] += 1
        chk.evaluations += 1
        kind, r = code_out[i]
        nontriv = kind == 'ok' and len(r) >= 2
        if nontriv:
            chk.nontrivial.add('isotopic_distribution|' + l)
        iso_cmp_case.last = ''
        same = iso_cmp_case(i, m)
        if nontriv and len(st['samples']) < 2:
            st['samples'].append({'line': l[:300], 'impl': iso_impl(i)[:300], 'model': m[:300]})
        if not same:
            st['disagreements'] += 1
            if len([d for d in chk.disagreements if d['op'] == 'isotopic_distribution']) < 5:
                chk.disagreements.append({'op': 'isotopic_distribution', 'line': l[:1500], 'impl': iso_impl(i)[:1500],
                                          'model': m[:1500], 'why': iso_cmp_case.last, 'case': [cases[i][0], cases[i][1]]})
    chk.count('model skipped as float-ambiguous (rounding boundary / top-k near-tie)', len(ambiguous))
    chk.count('abundance tolerance widened by the measured extra floor loss of the code (split float keys)', len(widened))
    chk.notes.append(f'isotopic_distribution: code {t_code:.1f}s for {len(cases)} cases, model {t_model:.1f}s for {len(to_model)} cases '
                     f'(cap {cap} peaks)')

    tick('iso correspondence')
    # estimate_isotopic_distribution: composition from estimate_comp is fed to the model
    from peptacular.chem.chem_calc import estimate_comp
    est = []
    for _ in range(25 if quick else 400):
        mass = rng.choice([rng.uniform(50, 1500), rng.uniform(50, 4000)])
        o = gen_opts(rng, constants)
        if not o['use_neutron_count'] and o['max_isotopes'] is None:
            o['max_isotopes'] = rng.randint(1, 20)
        est.append((mass, o))

    def est_impl(c):
        with warnings.catch_warnings():
            warnings.simplefilter('ignore')
            return canon_code(pt.estimate_isotopic_distribution(c[0], **c[1]))

    def est_cmp(im, m):
        if not m.startswith('OK\t'):
            return False
        _, mx, sn, dist = m.split('\t')
        mx = float(Fraction(mx))
        # options are recovered from the line by position is clumsy: compare with generous but fixed tolerances
        code = json.loads(im)
        model = parse_dist(dist)
        merged = {}
        for k, v in model:
            merged[k] = merged.get(k, 0) + v
        model = sorted(merged.items())
        big = max([abs(a) for _, a in code] + [1e-300])
        res = compare_dist(code, model, 1e-6 + est_cmp.ptol, 1e-6, FLOOR_K * 1e-8 / mx * big + est_cmp.ptol + 2e-3 * est_cmp.thr * big)
        if res is None:
            return True
        rd, tg = (float(Fraction(x)) for x in chk.driver(DRV, [est_cmp.line.replace('iso\t', 'isodiag\t', 1)])[0].split('\t'))
        return rd < 1e-6 or tg < 1e-4

    for c in est:
        est_cmp.ptol = 10.0 ** -c[1]['precision'] if c[1].get('precision') is not None else 0.0
        est_cmp.thr = 1.0 if c[1]['min_abundance_threshold'] else 0.0
        est_cmp.line = iso_line((estimate_comp(c[0]), c[1]))
        chk.correspond('estimate_isotopic_distribution', DRV, [c],
                       lambda c: iso_line((estimate_comp(c[0]), c[1])), est_impl, compare=est_cmp,
                       nontrivial_fn=lambda c, im: im.count('],') >= 1)

    # ---------------------------------------------------------------- (e) merge_isotopic_distributions (binary-exact floats: exact)
    mcases = []
    for _ in range(200 if quick else 3000):
        ds = [[(rng.randint(0, 40) / 8.0, rng.randint(1, 64) / 64.0) for _ in range(rng.randint(0, 6))] for _ in range(rng.randint(0, 4))]
        mcases.append((ds, rng.choice([None, None, 0, 1, 2])))
    chk.correspond('merge', DRV, mcases,
                   lambda c: f'merge\t{"|".join(wire_dist(d) for d in c[0])}\t{"None" if c[1] is None else c[1]}\texact',
                   lambda c: canon_code(isotope.merge_isotopic_distributions(*c[0], precision=c[1])),
                   compare=lambda im, m: m != 'bad-op' and im == canon_code(parse_dist(m)),
                   nontrivial_fn=lambda c, im: im.count('],') >= 1)

    tick('estimate+merge corr')
    # ---------------------------------------------------------------- (f) TEST: exact multinomial expansion, <= 12 atoms
    small = []
    for k in range(0, 13):
        for comb in itertools.combinations_with_replacement(range(6), k):
            small.append(tuple(comb.count(j) for j in range(6)))
    chk.notes.append(f'exact multinomial TEST: {len(small)} compositions over C,H,N,O,S,P with <= 12 atoms exist')
    if quick:
        sel = rng.sample(small, 600)
    else:
        sel = small
        chk.exhaustive = True
    xcases = []
    for j, counts in enumerate(sel):
        f = {e: c for e, c in zip(CHNOSP, counts) if c > 0}
        neu = (j % 3 == 2)
        xcases.append((f, neu))
    # add a few with heavy / labelled elements
    for _ in range(40 if quick else 600):
        els = rng.sample(CHNOSP + HEAVY + ['13C', 'D', '15N'], rng.randint(1, 4))
        left = 12
        f = {}
        for e in els:
            c = rng.randint(0, min(left, 4 if e in ('Se', 'Fe') else 6))
            left -= c
            if c:
                f[e] = c
        xcases.append((f, rng.random() < 0.3))
    base_o = dict(max_isotopes=None, min_abundance_threshold=None, distribution_resolution=None, conv_min_abundance_threshold=None,
                  distribution_abundance=1.0, is_abundance_sum=False, output_masses_for_neutron_offset=False,
                  neutron_mass=constants.NEUTRON_MASS)

    def x_line(c):
        o = dict(base_o, use_neutron_count=c[1])
        return iso_line((c[0], o), floor=None, fmt='exact')

    _mn = {}

    def mn(c):
        k = repr(c)
        if k not in _mn:
            _mn[k] = multinomial_formula(table, c[0], c[1])
        return _mn[k]

    _xcase = {}

    def x_impl(c):
        _xcase[repr(c)] = c
        return repr(c)

    def _pq(t):
        if '/' in t:
            p_, q_ = t.split('/')
            return int(p_), int(q_)
        return int(t), 1

    def x_cmp(im, m):
        """exact equality of the model output with the reference, by cross-multiplication (no float, no rounding)"""
        if not m.startswith('OK\t'):
            return False
        c = _xcase[im]
        tot = mn(c)
        items = sorted(tot.items())
        mx = max(tot.values())
        kscale = 1 if c[1] else 10 ** 12
        parts_ = m.split('\t')[3].split(';')
        if len(parts_) != len(items):
            return False
        for (mk, ma), part in zip(items, parts_):
            ks, as_ = part.split(':')
            kp, kq = _pq(ks)
            ap, aq = _pq(as_)
            if kp * kscale != mk * kq:
                return False
            if ap * mx != ma * aq:
                return False
        return True

    xlines = [x_line(c) for c in xcases]
    xreplies = par_driver(chk, xlines)
    stx = chk.corr.setdefault('TEST_exact_multinomial_model_vs_reference', {'evaluations': 0, 'disagreements': 0, 'samples': []})
    for c, l, m in zip(xcases, xlines, xreplies):
        stx['evaluations'] += 1
        chk.evaluations += 1
        im = x_impl(c)
        if sum(c[0].values()) >= 1:
            chk.nontrivial.add('TEST_exact_multinomial_model_vs_reference|' + l)
            if len(stx['samples']) < 2:
                stx['samples'].append({'line': l[:300], 'impl': 'Fraction multinomial reference of ' + im[:200], 'model': m[:300]})
        if not x_cmp(im, m):
            stx['disagreements'] += 1
            if len([d for d in chk.disagreements if d['op'] == 'TEST_exact_multinomial_model_vs_reference']) < 5:
                chk.disagreements.append({'op': 'TEST_exact_multinomial_model_vs_reference', 'line': l[:1500], 'impl': im, 'model': m[:1500]})

    def o_exact_code(c):
        """the real code at its finest documented resolution (6) and sum-normalised, against the exact multinomial reference.
        The 1e-8 floor cannot be switched off through the API (peaks may lose contributions below it) and keys are rounded to
        1e-6 at every element step, so reference peaks closer than 2e-5 are clustered and matched within 2e-5."""
        o = dict(base_o, use_neutron_count=c[1], distribution_resolution=6, is_abundance_sum=True)
        r = call_iso(pt, (c[0], o))
        tot = _mn.pop(repr(c), None) or multinomial_formula(table, c[0], c[1])   # memo entry is released here
        sm = sum(tot.values())
        kscale = 1 if c[1] else 10 ** 12
        members = sorted(tot.items())
        cl = []          # cluster index per member (single linkage, gap < 2e-5)
        for j, (m, a) in enumerate(members):
            cl.append(cl[-1] if j and (m - members[j - 1][0]) * 10 ** 5 < 2 * kscale else (cl[-1] + 1 if j else 0))
        ncl = (cl[-1] + 1) if cl else 0
        exp = [0.0] * ncl
        for j, (m, a) in enumerate(members):
            exp[cl[j]] += a / sm
        got = [0.0] * ncl
        keys = [m / kscale for m, _ in members]
        import bisect
        abs_tol = FLOOR_K * 1e-8
        for m, a in r:
            i = bisect.bisect_left(keys, m)
            best = min((j for j in (i - 1, i) if 0 <= j < len(keys)), key=lambda j: abs(keys[j] - m), default=None)
            if best is None or abs(keys[best] - m) > 5e-6:
                if a <= abs_tol:
                    continue
                return f'code peak ({m!r}, {a!r}) matches no reference isotopologue within 5e-6'
            got[cl[best]] += a
        for j in range(ncl):
            if abs(got[j] - exp[j]) > 1e-9 * exp[j] + abs_tol:
                return f'cluster {j}: code {got[j]!r} reference {exp[j]!r} (tol {abs_tol:.3g})'
        return None

    chk.oracle('TEST_exact_multinomial_code_vs_reference', xcases, o_exact_code,
               nontrivial_fn=lambda c: sum(c[0].values()) >= 2, key_fn=lambda c: repr(c))

    tick('exact multinomial TEST')
    # ---------------------------------------------------------------- oracle: every clause on the real code
    big = chk.broken() or bool(os.environ.get('C14_FORCE_BIG'))
    ocases = list(cases)
    extra = (400 if quick else 3000) * (3 if big else 1)
    for _ in range(extra):
        o = gen_opts(rng, constants)
        if rng.random() < 0.6:
            o.update(max_isotopes=None, min_abundance_threshold=rng.choice([None, 0.0]))
            o.pop('precision', None)
        f = fit_budget(gen_formula(rng, not o['use_neutron_count'], fine=is_fine(o)), o, isotope)
        ocases.append((f, o))

    slow = []

    def o_clauses(c):
        t1 = time.time()
        r = check_clauses(c)
        slow.append((time.time() - t1, repr(c)[:300]))
        return r

    chk.oracle('clauses_sorted_normalised_lightest_mean', ocases, o_clauses,
               nontrivial_fn=lambda c: sum(1 for k, v in c[0].items() if k not in 'epn' and v >= 1) >= 1,
               key_fn=lambda c: repr(c))

    slow.sort(reverse=True)
    chk.notes.append('slowest oracle cases: ' + '; '.join(f'{t:.1f}s {c}' for t, c in slow[:3]))
    tick('clauses oracle')
    # ---------------------------------------------------------------- call sequences on one composition (state must not leak)
    seqs = [gen_sequence(rng, constants) for _ in range(5 if quick else 40)]
    # the witness of the seeded cache regression: pruned call, then the plain call
    o_w = dict(max_isotopes=None, min_abundance_threshold=1e-3, distribution_resolution=5, use_neutron_count=False,
               distribution_abundance=1.0, is_abundance_sum=False, output_masses_for_neutron_offset=False, neutron_mass=constants.NEUTRON_MASS)
    seqs.insert(0, [({'C': 1, 'S': 1}, o_w), ({'C': 1, 'S': 1}, dict(o_w, min_abundance_threshold=None)),
                    ({'C': 1, 'S': 1}, dict(o_w, min_abundance_threshold=None, is_abundance_sum=True))])
    seq_detail = {}

    def o_seq(calls):
        res = check_sequence(chk, pt, calls)
        if res is not None:
            seq_detail[id(calls)] = res
            return json.dumps(res, default=str)[:1800]
        return None

    chk.oracle('call_sequences_state_independent', seqs, o_seq, nontrivial_fn=lambda c: len(c) >= 3,
               key_fn=lambda c: repr(c)[:400])
    chk.count('sequence calls (each compared with the model for its own arguments, re-issued, fresh interpreter)', sum(len(q) for q in seqs))
    tick('call sequences')

    # neutron-offset view = mass view binned by nominal mass
    bcases = []
    for _ in range(60 if quick else 600):
        els = [e for e in CHNOSP if rng.random() < 0.6] or ['C']
        if rng.random() < 0.2:
            els += rng.sample(['13C', '15N', 'D'], 1)
        size = rng.choice([12, 50, 120])
        f = {e: rng.randint(0, size if e != 'S' else min(size, 12)) for e in els}
        if rng.random() < 0.3:
            f[rng.choice(els)] += 0.5
        if rng.random() < 0.3:
            f['e'] = rng.choice([-2, -1, 1])
        res_b = rng.choice([3, 4, 5, 6])
        f = fit_budget(f, {'use_neutron_count': False, 'max_isotopes': None, 'distribution_resolution': res_b}, isotope)
        bcases.append((f, res_b, rng.choice([1.0, 100.0])))

    def o_binned(c):
        f, res, a = c
        common = dict(max_isotopes=None, min_abundance_threshold=None, distribution_abundance=a, is_abundance_sum=True)
        mv = call_iso(pt, (f, dict(common, distribution_resolution=res, use_neutron_count=False)))
        nv = call_iso(pt, (f, dict(common, distribution_resolution=res, use_neutron_count=True)))
        bins = nominal_bins(mv)
        if bins is None:
            chk.count('binning ambiguous (skipped)')
            return None
        nvd = dict(nv)
        tol_abs = 2e-5 * a
        for k in sorted(set(bins) | set(nvd)):
            x, y = bins.get(k, 0.0), nvd.get(k, 0.0)
            if abs(x - y) > 1e-6 * abs(y) + tol_abs:
                return f'offset {k}: binned mass view {x!r} vs neutron-offset view {y!r}'
        return None

    chk.oracle('neutron_view_is_binned_mass_view', bcases, o_binned, nontrivial_fn=lambda c: sum(v for k, v in c[0].items() if k != 'e') >= 2,
               key_fn=lambda c: repr(c))

    tick('binned oracle')
    # merging adds abundances at equal masses
    def o_merge(c):
        ds, pr = c
        got = isotope.merge_isotopic_distributions(*[list(d) for d in ds], precision=pr)
        exp = {}
        for d in ds:
            for m, x in d:
                k = round(m, pr) if pr is not None else m
                exp[k] = exp.get(k, Fraction(0)) + Fraction(x)
        if [m for m, _ in got] != sorted(exp):
            return f'masses {[m for m, _ in got][:6]} != {sorted(exp)[:6]}'
        for m, x in got:
            if abs(x - float(exp[m])) > 1e-12 * abs(float(exp[m])):
                return f'abundance at {m!r}: {x!r} != sum {float(exp[m])!r}'
        return None

    mo = list(mcases[:100])
    for _ in range(30 if quick else 300):
        k = rng.randint(1, 3)
        ds = []
        for _ in range(k):
            f = gen_formula(rng, True, big_ok=False)
            f = {e: v for e, v in f.items() if e != 'Xx' and v >= 0}
            ds.append(call_iso(pt, (f, dict(max_isotopes=rng.choice([3, 5, 10]), distribution_resolution=rng.choice([0, 1, 2, 3])))))
        mo.append((ds, rng.choice([None, 0, 1, 2])))
    chk.oracle('merge_adds_abundances', mo, o_merge, nontrivial_fn=lambda c: sum(len(d) for d in c[0]) >= 2, key_fn=lambda c: repr(c))

    # estimate_isotopic_distribution is isotopic_distribution of estimate_comp
    def o_est(c):
        with warnings.catch_warnings():
            warnings.simplefilter('ignore')
            x = pt.estimate_isotopic_distribution(c[0], **c[1])
            y = pt.isotopic_distribution(estimate_comp(c[0]), **c[1])
        return None if x == y else 'estimate_isotopic_distribution differs from isotopic_distribution(estimate_comp(mass))'

    chk.oracle('estimate_is_distribution_of_estimate_comp', est, o_est, key_fn=lambda c: repr(c))

    tick('merge/estimate oracles')
    # ---------------------------------------------------------------- (ext, round 5; placed last so that the random stream of the stages above is unchanged) the bounds of Props/C14Ext.lean evaluated on the code
    # (conv_prune_loss_bound, conv_round_preserves_total, conv_round_moment_shift on the binary-exact cases above: exact comparison)
    def o_prune_round(c):
        d1, d2, _mi, thr, res = c
        conv = isotope._convolve_distributions
        F = Fraction
        tot = lambda d: sum((F(x) for x in d.values()), F(0))
        mom = lambda d: sum((F(k) * F(x) for k, x in d.items()), F(0))
        full = conv(dict(d1), dict(d2), None, None, None)
        pruned = conv(dict(d1), dict(d2), None, thr, None)
        both = conv(dict(d1), dict(d2), None, thr, res)
        t12 = sum((F(x) for _, x in d1), F(0)) * sum((F(x) for _, x in d2), F(0))
        theta = F(thr) if thr is not None else F(0)
        if tot(full) != t12:
            return f'un-pruned total {tot(full)} != product of totals {t12}'
        if not (t12 - len(d1) * len(d2) * theta <= tot(pruned) <= t12):
            return f'pruned total {tot(pruned)} outside [{t12} - {len(d1)}*{len(d2)}*{theta}, {t12}]'
        if tot(both) != tot(pruned):
            return f'rounding changed the total: {tot(both)} != {tot(pruned)}'
        if res is not None and abs(mom(both) - mom(pruned)) > F(1, 2 * 10 ** res) * tot(pruned) + F(1, 10 ** 12):
            return f'rounding moved the first moment by {float(abs(mom(both) - mom(pruned)))} > half a bin width x total'
        return None

    chk.oracle('ext_prune_round_bounds_convolve', ccases, o_prune_round,
               nontrivial_fn=lambda c: len(c[0]) * len(c[1]) >= 2 and (c[3] or c[4] is not None), key_fn=lambda c: repr(c))

    # elemental_total_with_floor: 1 - W*m*theta <= total <= 1, W = number of peaks that entered the rounds (counted on the code's own run)
    def o_elem_floor(c):
        el, n, neu = c
        isos = (N if neu else M)[el]
        d, W = {0: 1.0}, 0
        for _ in range(n):
            W += len(d)
            d = isotope._convolve_distributions(d, dict(isos), None, 10e-9, None)
        got = isotope._calculate_elemental_distribution(el, n, neu)
        if got != d:
            return 'stepwise re-run of the rounds differs from _calculate_elemental_distribution'
        t = math.fsum(got.values())
        s1 = math.fsum(x for _, x in isos) ** n
        lo = s1 - W * len(isos) * 1e-8
        if not (lo - 1e-9 <= t <= s1 + 1e-9):
            return f'total {t!r} outside [{lo!r}, {s1!r}] (W={W}, m={len(isos)})'
        return None

    efl = []
    for el in CHNOSP + HEAVY:
        for neu in (False, True):
            top = 60 if neu else {'Se': 5, 'Fe': 15, 'S': 40, 'Cl': 40, 'Br': 40}.get(el, 60)
            for n in sorted(set([0, 1, 2, top] + [rng.randint(0, top) for _ in range(1 if quick else 6)])):
                efl.append((el, n, neu))
    chk.oracle('ext_elemental_floor_loss_bound', efl, o_elem_floor, nontrivial_fn=lambda c: c[1] >= 2, key_fn=lambda c: repr(c))

    # final_threshold_loss_bound / final_threshold_keeps_max on isotopic_distribution
    def o_final_thr(c):
        f, thr, res = c
        with warnings.catch_warnings():
            warnings.simplefilter('ignore')
            a = isotope.isotopic_distribution(dict(f), None, None, res)
            b = isotope.isotopic_distribution(dict(f), None, thr, res)
        ta, tb = math.fsum(x for _, x in a), math.fsum(x for _, x in b)
        if not (ta - len(a) * thr - 1e-9 <= tb <= ta + 1e-9):
            return f'total with threshold {tb!r} outside [{ta!r} - {len(a)}*{thr}, {ta!r}]'
        if not any(x == 1.0 for _, x in b):
            return 'the most abundant peak (relative abundance 1) was removed by the threshold'
        if [p for p in a if p[1] >= thr] != b:
            return 'thresholded pattern is not the un-thresholded one filtered'
        return None

    ftc = []
    for _ in range(40 if quick else 400):
        f = {e: rng.randint(0, 30) for e in rng.sample(CHNOSP, rng.randint(1, 4))}
        ftc.append((f, rng.choice([0.0, 1e-6, 1e-3, 0.05, 0.5, 1.0]), rng.choice([0, 1, 2, 3])))
    chk.oracle('ext_final_threshold_bounds', ftc, o_final_thr, nontrivial_fn=lambda c: sum(c[0].values()) >= 2, key_fn=lambda c: repr(c))

    tick('ext prune/round bounds')
    reach.__exit__()
    chk.notes.append({'reach_of_modelled_functions': reach.report()})
    if not quick:
        chk.leanchecker(['PeptVerif.Props.C14', 'PeptVerif.Props.C14Ext', 'PeptVerif.Lemmas.IsotopePrune', 'PeptVerif.Lemmas.Isotope', 'PeptVerif.Lemmas.IsotopeMultinomial', 'PeptVerif.Model.Isotope', 'PeptVerif.Generated.IsotopesC14'])
    return chk.finish(classify)


def check_clauses(c):
    pt, isotope, constants = _pt()
    f, o = c
    before = dict(f)
    if 'Xx' in f and not any(v < 0 for k, v in f.items() if k not in ('e', 'p', 'n')):
        try:
            call_iso(pt, c)
        except Exception as e:  # noqa
            return None if type(e).__name__ == 'InvalidChemFormulaError' else f'unknown element: {type(e).__name__}'
        return 'unknown element accepted'
    try:
        r = call_iso(pt, c)
    except ValueError:
        if any(v < 0 for k, v in f.items() if k not in ('e', 'p', 'n')):
            return None
        return 'ValueError without a negative count'
    except Exception as e:  # noqa
        if 'Xx' in f:
            return None
        return f'unexpected {type(e).__name__}: {e}'
    if any(v < 0 for k, v in f.items() if k not in ('e', 'p', 'n')):
        return 'negative count accepted'
    if f != before:
        return 'harness bug: case mutated'
    if not r:
        return 'empty distribution'
    pr = o.get('precision')
    a = o['distribution_abundance']
    masses = [m for m, _ in r]
    abund = [x for _, x in r]
    # sorted by mass
    for x, y in zip(masses, masses[1:]):
        if (x > y) if pr is not None else (x >= y):
            return f'not sorted by mass: {x!r} before {y!r}'
    # normalised
    ptol = (len(r) * 10.0 ** -pr) if pr is not None else 0.0
    if o['is_abundance_sum']:
        s = math.fsum(abund)
        if abs(s - a) > 1e-9 * a + ptol:
            return f'abundances sum to {s!r}, requested {a!r}'
    else:
        thr = o['min_abundance_threshold'] or 0.0
        if thr <= 1.0 and abs(max(abund) - a) > 1e-12 * a + ptol:
            return f'largest peak {max(abund)!r}, requested {a!r}'
    if any(x < 0 for x in abund):
        return 'negative abundance'
    els = [k for k, v in f.items() if k not in ('e', 'p', 'n') and v != 0]
    light_ok = all(k in CHNOSP or k in LABELLED for k in els)
    res = o['distribution_resolution']
    round_allow = (len(els) + 1) * 0.5 * 10.0 ** -res if res is not None else 0.0
    if no_pruning(o):
        mono = pt.chem_mass(dict(f))
        frac = has_real_fraction(f)
        if frac:
            # inside the two known findings the code's behaviour is still pinned exactly (rigid shift of the rounded formula's
            # pattern), so that any *other* deviation for fractional formulas is reported under a different message
            rounded = {k: (v if k in ('e', 'p', 'n') else round(v)) for k, v in f.items()}
            parts_only = {k: v for k, v in f.items() if k in ('e', 'p', 'n')}
            delta = pt.chem_mass({k: v for k, v in f.items() if k not in ('e', 'p', 'n')}) - \
                pt.chem_mass({k: v for k, v in rounded.items() if k not in ('e', 'p', 'n')})
            pm = pt.chem_mass(parts_only) if parts_only else 0.0
            if not o['use_neutron_count'] and all(k in CHNOSP + HEAVY + LABELLED for k in els):
                exp_mean = pt.chem_mass({k: v for k, v in rounded.items() if k not in ('e', 'p', 'n')}, monoisotopic=False) + delta + pm
                mean = math.fsum(m * x for m, x in r) / math.fsum(abund)
                if abs(mean - exp_mean) > 1e-6 * abs(exp_mean) + round_allow + 1e-9:
                    return f'fractional formula: mean {mean!r} differs even from the rigid-shift value {exp_mean!r}'
            if o['use_neutron_count'] and o['output_masses_for_neutron_offset'] and light_ok:
                exp_light = pt.chem_mass({k: v for k, v in rounded.items() if k not in ('e', 'p', 'n')}) + \
                    delta * o['neutron_mass'] + pm
                if abs(masses[0] - exp_light) > 1e-5:
                    return f'fractional formula: lightest neutron-offset mass {masses[0]!r} differs even from the pinned value {exp_light!r}'
        if not o['use_neutron_count'] or o['output_masses_for_neutron_offset']:
            if light_ok:
                allow = 1e-5 + (round_allow if not o['use_neutron_count'] else 0.0)
                if abs(masses[0] - mono) > allow:
                    return f'lightest peak {masses[0]!r} is not the monoisotopic mass {mono!r} (allowed {allow:.3g})'
        elif light_ok and masses[0] != 0:
            return f'lightest neutron offset is {masses[0]!r}, not 0'
        if not o['use_neutron_count'] and all(k in CHNOSP + HEAVY + LABELLED for k in els):
            av = pt.chem_mass(dict(f), monoisotopic=False)
            mean = math.fsum(m * x for m, x in r) / math.fsum(abund)
            if abs(mean - av) > 1e-6 * abs(av) + round_allow + 1e-9:
                return f'weighted mean {mean!r} is not the average mass {av!r} (allowed {1e-6 * abs(av) + round_allow:.3g})'
    return None


def load_corpus():
    out = []
    d = os.path.join(core.VERIF, 'corpus', PID)
    if os.path.isdir(d):
        for fn in sorted(os.listdir(d)):
            if fn.endswith('.jsonl'):
                for line in open(os.path.join(d, fn)):
                    line = line.strip()
                    if line:
                        obj = json.loads(line)
                        out.append((obj['formula'], obj['options']))
    return out


def classify(f):
    """known findings: structural match only"""
    if f['oracle'] != 'clauses_sorted_normalised_lightest_mean':
        return None
    formula, o = f['case']
    pt, isotope, constants = _pt()
    frac = {k: v for k, v in formula.items() if k not in ('e', 'p', 'n') and float(v) != round(v)}
    if not frac:
        return None
    # the failure must disappear when the fractional counts are made integral
    rounded = {k: (round(v) if k in frac else v) for k, v in formula.items()}
    detail = f['detail']
    if check_clauses((rounded, o)) is not None:
        return None
    if detail.startswith('weighted mean') and not o['use_neutron_count']:
        return 'KF-C14-fractional-mean'
    if detail.startswith('lightest peak') and o['use_neutron_count'] and o['output_masses_for_neutron_offset']:
        return 'KF-C14-fractional-neutron-mass-view'
    return None


def replay(chk, obj):
    pt, isotope, constants = _pt()
    print(json.dumps(obj, indent=1)[:3000])
    if obj.get('kind') == 'oracle' and isinstance(obj.get('case'), list) and len(obj['case']) == 2 and isinstance(obj['case'][0], dict):
        f, o = obj['case']
        try:
            print('isotopic_distribution ->', call_iso(pt, (f, o))[:10])
            print('chem_mass mono/avg ->', pt.chem_mass(dict(f)), pt.chem_mass(dict(f), monoisotopic=False))
        except Exception as e:  # noqa
            print('raises', type(e).__name__, e)
    return 0
