"""C17 - spectrum matching pairs each fragment with exactly the peaks in tolerance."""
import glob
import json
import math
import os
import struct
from fractions import Fraction

from .. import core
from . import c17_reach

PID = 'C17'
DRV = 'drv_c17'

REGISTRY = {
    'id': 'C17',
    'text': 'Mechanical tie for the pure pieces of score.py: harness/translate_scorecore.py reads the CURRENT source with ast and emits '
            'Generated/ScoreCorePy.lean (window bounds and peak comparisons of get_matched_indices, the three mode blocks of match_spectra, '
            'label / de-duplication key / span of get_match_coverage, the whole body of get_matched_intensity_percentage); Props/C17Gen '
            'proves each equal to the hand model (GenScore.f = Score.f) and restates monotonicity, sweep correctness, arg-min/arg-max, '
            'coverage count and intensity share for the generated definitions; a piece outside the subset is reported as untranslated and '
            'stays tied by correspondence. Lean theorems about the executable model of score.py: the two-pointer sweep of get_matched_indices equals the '
            'quadratic brute-force window for all sorted lists of any length (sweep_correct; th tolerance always, ppm for '
            'tolerance <= 1e6), mode all = window, closest/largest return an arg-min/arg-max of the window, None iff the window '
            'is empty, matched-intensity fraction = sum of distinct matched peaks / total and lies in [0,1], coverage counts a '
            'fragment once. The model runs at IEEE doubles in the driver and is compared bit-exactly with /repo on sorted and '
            'unsorted lists (grid with ties, off-grid, window-boundary values); the implementation is also checked directly '
            'against the Lean brute-force specification and an independent Python matcher',
    'note': 'trusted: Lean kernel, axioms propext/Classical.choice/Quot.sound, the correspondence harness, the score.py subset reader '
            'translate_scorecore.py (its output Generated/ScoreCorePy.lean is committed and diffable; the loop structure of the sweep, the '
            'error paths of match_spectra and the Counter/dict plumbing of coverage stay hand-modelled); theorems are over '
            'a linear order / the rationals, the float run is tied to them by the shared generic definition; peaks are identified '
            'by m/z in the intensity-fraction clause (FragmentMatch carries no peak index); binomial_score formula not modelled',
    'technique': 'Lean 4 proof about executable model + differential correspondence',
}


def _mods():
    from peptacular import score
    from peptacular import fragmentation
    return score, fragmentation


# ----------------------------------------------------------------------------- wire helpers

def fbits(x):
    return str(struct.unpack('<Q', struct.pack('<d', float(x)))[0])


def flist(l):
    return ','.join(fbits(x) for x in l)


def unbits(s):
    return struct.unpack('<d', struct.pack('<Q', int(s)))[0]


def show_win(w):
    return 'N' if w is None else f'{w[0]}:{w[1]}'


def show_hit(h):
    if h is None:
        return 'N'
    if isinstance(h, list):
        return '[' + ','.join(map(str, h)) + ']'
    return str(h)


def exc_name(e):
    return 'ERR:' + type(e).__name__


# ----------------------------------------------------------------------------- generators

def next_up(x):
    return math.nextafter(x, math.inf)


def next_down(x):
    return math.nextafter(x, -math.inf)


def gen_case(rng, max_len=30, sorted_lists=True):
    """(ttype, tol, xs, ys): grid / off-grid / boundary streams, ties and overlapping windows"""
    kind = rng.choice(['grid', 'grid', 'off', 'boundary'])
    ttype = rng.choice(['ppm', 'th'])
    base = rng.choice([0.0, 1.0, 100.0, 1000.0])
    span = rng.choice([1, 2, 5, 10])
    n1 = rng.randint(0, 3) if rng.random() < 0.15 else rng.randint(0, max_len)
    n2 = rng.randint(0, 3) if rng.random() < 0.15 else rng.randint(0, max_len)
    if kind == 'grid':
        xs = [base + 0.25 * rng.randint(0, span * 4) for _ in range(n1)]
        ys = [base + 0.25 * rng.randint(0, span * 4) for _ in range(n2)]
        th = rng.choice([0.0, 0.25, 0.5, 1.0, 2.5, span + 1.0, 1e9])
    else:
        xs = [base + rng.uniform(0, span) for _ in range(n1)]
        ys = [base + rng.uniform(0, span) for _ in range(n2)]
        # exact ties between and inside the lists
        for _ in range(rng.randint(0, 3)):
            if xs and ys:
                ys[rng.randrange(len(ys))] = rng.choice(xs)
            if len(ys) > 1:
                ys[rng.randrange(len(ys))] = rng.choice(ys)
            if len(xs) > 1:
                xs[rng.randrange(len(xs))] = rng.choice(xs)
        th = rng.choice([0.0, rng.uniform(0, span * 1.2), rng.uniform(0, 0.3), span * 2.0])
    if ttype == 'th':
        tol = th
    else:
        mid = base + span / 2
        tol = min(1e6, th / mid * 1e6) if kind != 'grid' or rng.random() < 0.7 else rng.choice([0.0, 10.0, 1e5, 5e5, 1e6])
    if kind == 'boundary' and xs:
        # peaks exactly on, just inside and just outside the bounds the code computes
        for _ in range(rng.randint(1, 6)):
            x = rng.choice(xs)
            off = tol if ttype == 'th' else x * tol / 1e6
            b = rng.choice([x - off, x + off])
            y = rng.choice([b, next_up(b), next_down(b)])
            if y >= 0:
                ys.append(y)
        ys = ys[-max_len:]
    if sorted_lists:
        xs.sort()
        ys.sort()
    return (ttype, tol, xs, ys)


def gen_intens(rng, n):
    if rng.random() < 0.5:
        return [float(rng.choice([0, 1, 2, 4, 8, 8, 16])) for _ in range(n)]
    return [rng.uniform(0, 1000) for _ in range(n)]


# ----------------------------------------------------------------------------- independent Python reference

def brute_window(ttype, tol, x, ys):
    off = tol if ttype == 'th' else x * tol / 1e6
    lo, hi = x - off, x + off
    return [j for j, y in enumerate(ys) if lo <= y <= hi]


def frac(x):
    f = Fraction(x)
    return f'{f.numerator}/{f.denominator}'


def gen_round_case(rng):
    """a rational to round: sums / differences / products / quotients of doubles as score.py forms them, exact ties between two
    neighbouring doubles (both parities), values one part in 2^60 off a tie, small integers, negatives; all in the normal range"""
    k = rng.choice(['op', 'op', 'tie', 'neartie', 'int', 'frac'])
    if k == 'op':
        a = Fraction(rng.choice([rng.uniform(0, 2000), 0.25 * rng.randint(0, 4000), rng.uniform(0, 1)]))
        b = Fraction(rng.choice([rng.uniform(0, 50), 0.1, 1e6, 20.0, rng.uniform(0, 1e6)]))
        op = rng.choice('+-*/')
        if op == '/' and b == 0:
            b = Fraction(1000000)
        return a + b if op == '+' else a - b if op == '-' else a * b if op == '*' else a / b
    if k in ('tie', 'neartie'):
        m = rng.randint(2 ** 52, 2 ** 53 - 1)
        e = rng.randint(-80, 40)
        q = Fraction(2 * m + 1, 2) * Fraction(2) ** e
        if k == 'neartie':
            q += rng.choice([-1, 1]) * Fraction(2) ** (e - 8)
        return q * rng.choice([1, -1])
    if k == 'int':
        return Fraction(rng.choice([0, 1, -1, 3, 2 ** 53, 2 ** 53 + 1, 2 ** 53 + 3, -(2 ** 54 + 2), rng.randint(-10 ** 20, 10 ** 20)]))
    return Fraction(rng.randint(-10 ** 6, 10 ** 6), rng.randint(1, 10 ** 6))


def make_fragment(fragmentation, mz, k, charge=1, ion='b', start=0, end=1, isotope=0, loss=0.0, seq='PEPTIDE'):
    return fragmentation.Fragment(charge=charge, ion_type=ion, start=start, end=end, monoisotopic=True, isotope=isotope,
                                  loss=loss, parent_sequence=seq, mass=mz * max(charge, 1), neutral_mass=mz, mz=mz,
                                  sequence=seq[start:end], unmod_sequence=seq[start:end], internal=False)


def run(chk):
    score, fragmentation = _mods()
    import peptacular as pt
    tier = chk.tier
    rng = chk.rng
    # score.py -> Generated/ScoreCorePy.lean + Props/C17Gen.lean (equalities with the hand model), regenerated on change
    from .. import translate_scorecore
    gen_done, gen_unt = translate_scorecore.translate(chk)
    chk.lean_build(['PeptVerif.Props.C17', 'PeptVerif.Props.C17Gen', 'PeptVerif.Props.C17Ext'], DRV)
    chk.trusted += [
        'harness/translate_scorecore.py: the reading of the Python subset (names, 1e6 and 0, + - * /, the tolerance-type conditional, '
        'abs of a difference, comparisons, indexes[0]/[1], fragments[i], list(range), a comprehension over range reading one list at the '
        'index, slices, l.index(min(l)) / l.index(max(l)), tuples, the label f-string, a fixed attribute table for the match / fragment '
        'record, dict comprehension keyed by an attribute, sum) into the combinators of Model/Score.lean; a comprehension / slice is read '
        'as List.drop/take (Python would raise IndexError only for a window outside the list, which get_matched_indices never returns)',
        'modelled (Model/Score.lean, generic number type, run at IEEE double in the driver): get_matched_indices, match_spectra, '
        'get_fragment_matches at the level of (fragment position, m/z) and (m/z, intensity) lists, get_match_coverage on '
        '(fragment key, charge, ion type, start, end), get_matched_intensity_percentage',
        'not modelled: Fragment / FragmentMatch property plumbing, binomial_score (its float formula is compared with an '
        'independent evaluation by the oracle only); the two isotope filters are modelled on (label string, isotope) pairs '
        '(Model/ScoreFilter.lean; Fragment.label itself is not modelled); Python 3.12 sum() is compensated, so intensity '
        'fractions are compared with relative tolerance 1e-12 instead of bit-exactly',
        'theorems of Props/C17 are stated over a linear order / exact Rat. IEEE rounding of the window bounds: Props/C17Ext proves, for '
        'the same generic model run at Rat with every + - * / followed by an ABSTRACT rounding function rnd, sandwich theorems '
        '(every peak with exact distance <= E - S is matched, every matched peak has exact distance <= E + S; E = tol resp. '
        'mz*tol/1e6, S = u(|mz|+|tol|) resp. u|mz| + 4u|E|) from two hypotheses on rnd: monotone, and |rnd z - z| <= u|z|. TRUSTED, '
        'not proved: CPython float + - * / (IEEE binary64 round-to-nearest-even) satisfies both with u = 2^-53 when no operation '
        'overflows or yields a subnormal. Exercised: the model at Rat with the concrete rounding Score.rnd53 (53-bit significand, '
        'ties to even, unbounded exponent) against the real get_matched_indices (stage get_matched_indices_rounded_rat_model), '
        'rnd53 against float(Fraction) (stage rnd53_vs_cpython), and the sandwich itself on the real code with exact fractions '
        '(oracle rounded_window_sandwich). For ppm the theorem assumes the rounded lower bound monotone along the fragments '
        '(fails only in the region of the known finding); the oracle evaluates that hypothesis on the float bounds',
    ]
    chk.rule = ('lists of length 0..30 on a 0.25 grid (ties, overlapping windows), off-grid with injected ties, and with peaks '
                'exactly on / one ulp inside / one ulp outside the computed bounds; tolerance type ppm|th, tolerance 0 .. > range; '
                'modes all|closest|largest; correspondence also on unsorted lists; non-trivial = at least one non-empty window; '
                'distinct = distinct protocol line')

    N = 8000 if tier == 'quick' else 150000
    FM = score.FragmentMatch
    reach = c17_reach.LineCoverage(
        [score.get_matched_indices, score.match_spectra, score.get_fragment_matches, score.get_match_coverage,
         score.get_matched_intensity_percentage, score.binomial_score, score._estimate_probability_of_random_match,
         score._binomial_probability, FM.charge, FM.ion_type, FM.start, FM.end, FM.isotope, FM.loss, FM.monoisotopic,
         FM.internal, FM.parent_sequence], tool='verif-c17')
    reach.start()
    fails_corpus = replay_corpus(chk)

    # ---------------------------------------------------------------- (a) get_matched_indices: model vs impl
    cases = [gen_case(rng) for _ in range(N)] + [gen_case(rng, sorted_lists=False) for _ in range(N // 4)]
    for c in cases:
        chk.count(f'type={c[0]}')
        chk.count('len_xs=%s' % (len(c[2]) // 10 * 10))
    bad_tt = [('Da', 1.0, [1.0], [1.0]), ('', 0.0, [], [])]

    def gmi_line(c):
        return f'gmi\t{c[0]}\t{fbits(c[1])}\t{flist(c[2])}\t{flist(c[3])}'

    def gmi_impl(c):
        try:
            return ';'.join(show_win(w) for w in score.get_matched_indices(list(c[2]), list(c[3]), c[1], c[0]))
        except ValueError as e:
            return exc_name(e)

    chk.correspond('get_matched_indices', DRV, cases + bad_tt, gmi_line, gmi_impl,
                   nontrivial_fn=lambda c, im: ':' in im)

    # ---------------------------------------------------------------- (a') the model at Rat with rounded arithmetic (Props/C17Ext)
    # rnd53 (Model/ScoreRnd.lean) against CPython's correctly rounded int/int division
    NR = 1500 if tier == 'quick' else 20000
    r_cases = [gen_round_case(rng) for _ in range(NR)]

    def r_impl(q):
        f = Fraction(float(q))
        return f'{f.numerator}/{f.denominator}'

    chk.correspond('rnd53_vs_cpython', DRV, r_cases, lambda q: f'rnd53\t{q.numerator}/{q.denominator}', r_impl,
                   nontrivial_fn=lambda q, im: Fraction(im) != q)
    # the generic model of get_matched_indices at Rat, every operation followed by rnd53, against the real code on doubles
    rr_cases = cases[: NR] + cases[N: N + NR // 4]

    def gmir_line(c):
        return f'gmir\t{c[0]}\t{frac(c[1])}\t{",".join(frac(x) for x in c[2])}\t{",".join(frac(y) for y in c[3])}'

    chk.correspond('get_matched_indices_rounded_rat_model', DRV, rr_cases, gmir_line, gmi_impl,
                   nontrivial_fn=lambda c, im: ':' in im)

    # ---------------------------------------------------------------- (b) match_spectra
    ms_cases = []
    for c in cases[:: 2]:
        ints = gen_intens(rng, len(c[3]))
        ms_cases.append(c + ('all', ints))
    for mode in ('all', 'closest', 'largest'):
        ms_cases.append(('th', 1.0, [1.0, 5.0], [1.0, 1.5], mode, None))           # intensity_spectra=None
        ms_cases.append(('th', 1.0, [1.0, 5.0], [1.0, 1.5, 5.0], mode, [3.0]))      # too short intensity list
        ms_cases.append(('th', 9.0, [1.0], [], mode, None))
        ms_cases.append(('xx', 1.0, [1.0], [1.0], mode, [1.0]))
    ms_cases.append(('th', 1.0, [1.0], [1.0], 'nearest', [1.0]))
    ms_cases.append(('xx', 1.0, [1.0], [1.0], 'nearest', [1.0]))

    def ms_line(c):
        ints = 'None' if c[5] is None else flist(c[5])
        return f'ms\t{c[4]}\t{c[0]}\t{fbits(c[1])}\t{flist(c[2])}\t{flist(c[3])}\t{ints}'

    def ms_impl(c):
        try:
            r = score.match_spectra(list(c[2]), list(c[3]), c[1], c[0], c[4], None if c[5] is None else list(c[5]))
            return ';'.join(show_hit(h) for h in r)
        except (ValueError, TypeError, IndexError) as e:
            return exc_name(e)

    chk.correspond('match_spectra_all_and_errors', DRV, ms_cases, ms_line, ms_impl, nontrivial_fn=lambda c, im: '[' in im)

    # closest / largest: the implementation's answer is checked against the Lean spec relation (any arg-min / arg-max)
    rel_cases = []
    for c in cases[: N]:                       # sorted ones only: the spec relation is about sorted inputs
        for mode in ('closest', 'largest'):
            ints = gen_intens(rng, len(c[3]))
            try:
                ans = score.match_spectra(list(c[2]), list(c[3]), c[1], c[0], mode, list(ints))
                ans = ';'.join(show_hit(h) for h in ans)
            except Exception as e:  # noqa
                ans = None
            rel_cases.append(c + (mode, ints, ans))
    rel_cases = [c for c in rel_cases if not in_kf_region(c)]     # known-finding region: exercised by the oracle only
    ok_rel = [c for c in rel_cases if c[6] is not None]
    exc_rel = [c for c in rel_cases if c[6] is None]

    def rel_line(c):
        return (f'check\t{c[4]}\t{c[0]}\t{fbits(c[1])}\t{flist(c[2])}\t{flist(c[3])}\t{flist(c[5])}\t{c[6]}')

    chk.correspond('match_spectra_closest_largest_vs_spec_relation', DRV, ok_rel, rel_line, lambda c: 'ok',
                   nontrivial_fn=lambda c, im: any(ch.isdigit() for ch in c[6]))
    chk.correspond('match_spectra_closest_largest_exceptions', DRV, exc_rel, ms_line, ms_impl)
    # informational: how often the implementation makes the same choice as the model (first arg-min / first arg-max)
    model_choice = chk.driver(DRV, [ms_line(c) for c in ok_rel])
    chk.count('closest_largest_same_choice_as_model', sum(1 for c, m in zip(ok_rel, model_choice) if c[6] == m))
    chk.count('closest_largest_total', len(ok_rel))

    # ---------------------------------------------------------------- (c) get_fragment_matches (unsorted inputs)
    gfm_cases = []
    for c in cases[:: 3]:
        xs, ys = list(c[2]), list(c[3])
        rng.shuffle(xs)
        rng.shuffle(ys)
        gfm_cases.append((c[0], c[1], xs, ys, gen_intens(rng, len(ys)), rng.choice(['all', 'closest', 'largest'])))
    gfm_cases.append(('th', 1.0, [1.0, 2.0], [], [], 'all'))
    gfm_cases.append(('th', 1.0, [], [], [], 'closest'))
    gfm_cases.append(('th', 1.0, [1.0], [1.0], [1.0], 'best'))
    gfm_cases.append(('zz', 1.0, [1.0], [1.0], [1.0], 'all'))
    gfm_cases.append(('zz', 1.0, [1.0], [1.0], [1.0], 'best'))

    def gfm_line(c):
        return f'gfm\t{c[5]}\t{c[0]}\t{fbits(c[1])}\t{flist(c[2])}\t{flist(c[3])}\t{flist(c[4])}'

    def gfm_impl(c):
        frags = [make_fragment(fragmentation, mz, k) for k, mz in enumerate(c[2])]
        pos = {id(f): k for k, f in enumerate(frags)}
        try:
            ms = score.get_fragment_matches(list(frags), list(c[3]), list(c[4]), c[1], c[0], c[5])
        except (ValueError, TypeError, IndexError) as e:
            return exc_name(e)
        return ';'.join(f'{pos[id(m.fragment)]}:{fbits(m.mz)}:{fbits(m.intensity)}' for m in ms)

    # closest/largest: compare as the model chooses (first arg-min/max after the stable sort); a different allowed choice
    # is accepted when the spec relation holds (checked by the oracle below), so only mode all and errors are compared exactly
    chk.correspond('get_fragment_matches', DRV, [c for c in gfm_cases if c[5] not in ('closest', 'largest')],
                   gfm_line, gfm_impl, nontrivial_fn=lambda c, im: ':' in im)
    sel = [c for c in gfm_cases if c[5] in ('closest', 'largest')]
    same = sum(1 for c, m in zip(sel, chk.driver(DRV, [gfm_line(c) for c in sel])) if gfm_impl(c) == m)
    chk.count('fragment_matches_closest_largest_same_choice_as_model', same)
    chk.count('fragment_matches_closest_largest_total', len(sel))

    # ---------------------------------------------------------------- (d) matched intensity percentage, coverage
    mip_cases = []
    for _ in range(N // 5):
        n = rng.randint(0, 12)
        mz = sorted(rng.choice([100.0 + 0.5 * rng.randint(0, 8), rng.uniform(100, 104)]) for _ in range(n))
        ints = gen_intens(rng, n)
        if rng.random() < 0.1:
            ints = [0.0] * n
        k = rng.randint(0, 2 * n) if n else 0
        picks = [rng.randrange(n) for _ in range(k)]
        mip_cases.append(([mz[j] for j in picks], [ints[j] for j in picks], ints))

    def mip_line(c):
        return f'mip\t{flist(c[0])}\t{flist(c[1])}\t{flist(c[2])}'

    def mip_impl(c):
        ms = [score.FragmentMatch(None, a, b) for a, b in zip(c[0], c[1])]
        try:
            return fbits(score.get_matched_intensity_percentage(ms, list(c[2])))
        except (AttributeError, ZeroDivisionError) as e:
            return exc_name(e)

    def mip_cmp(im, m):
        if im.startswith('ERR') or not m.isdigit():
            return im == m
        a, b = unbits(im), unbits(m)
        return a == b or abs(a - b) <= 1e-12 * max(abs(a), abs(b))

    chk.correspond('get_matched_intensity_percentage', DRV, mip_cases, mip_line, mip_impl, compare=mip_cmp,
                   nontrivial_fn=lambda c, im: len(c[0]) > 0)

    cov_cases = []
    for _ in range(N // 5):
        n = rng.randint(1, 9)
        frs = []
        for k in range(rng.randint(0, 6)):
            s = rng.randint(0, n)
            e = rng.randint(s, n)
            frs.append((rng.choice([1, 1, 2, 3]), rng.choice('by'), s, e, rng.choice([0, 0, 1]), rng.choice([0.0, 0.0, -18.01])))
        ms = []
        for fr in frs:
            for _ in range(rng.choice([1, 1, 2, 3])):
                ms.append(fr)
        if rng.random() < 0.5:
            rng.shuffle(ms)
        cov_cases.append((n, ms))

    def cov_line(c):
        n, ms = c
        keys = {}
        ents = []
        for (ch, ion, s, e, iso, loss) in ms:
            key = keys.setdefault((ch, ion, s, e, iso, loss), len(keys))
            ents.append(f'{key}:{ch}:{ion}:{s}:{e}')
        return f'cov\t1\t{n}\t{";".join(ents)}'

    def cov_impl(c):
        n, ms = c
        seq = 'PEPTIDEKR'[:n]
        fm = [score.FragmentMatch(make_fragment(fragmentation, 100.0, 0, ch, ion, s, e, iso, loss, seq), 100.0, 1.0)
              for (ch, ion, s, e, iso, loss) in ms]
        cov = score.get_match_coverage(fm)
        return ';'.join(f'{len(k) - len(k.lstrip("+"))}:{k.lstrip("+")}=' + ','.join(map(str, v)) for k, v in cov.items())

    chk.correspond('get_match_coverage', DRV, cov_cases, cov_line, cov_impl, nontrivial_fn=lambda c, im: '1' in im)

    # the same on real Fragment objects (Model/ScoreFrag.lean: FragmentMatch records, key = the tuple of the code)
    covf_cases = []
    for _ in range(N // 20):
        seq = ''.join(rng.choice('ACDEFGHIKLMNPQRSTVWY') for _ in range(rng.randint(1, 8)))
        ions = rng.sample(['a', 'b', 'c', 'x', 'y', 'z', 'by', 'ax', 'cz', 'i'], rng.randint(1, 3))
        frs = pt.fragment(seq, ions, rng.sample([1, 2, 3], rng.randint(1, 2)), isotopes=rng.choice([[0], [0, 1]]),
                          water_loss=rng.random() < 0.3)
        if not frs:
            continue
        picks = [rng.choice(frs) for _ in range(rng.randint(0, 12))]
        if rng.random() < 0.5:
            picks = picks + picks[: rng.randint(0, len(picks))]
        covf_cases.append((seq, picks))

    def covf_line(c):
        seq, picks = c
        ents = []
        for f in picks:
            lf = Fraction(f.loss)
            ents.append(f'{f.charge}:{f.ion_type}:{f.start}:{f.end}:{f.isotope}:{lf.numerator}/{lf.denominator}:'
                        f'{int(f.monoisotopic)}:{int(f.internal)}')
        return f'covf\t{len(seq)}\t{";".join(ents)}'

    def covf_impl(c):
        seq, picks = c
        cov = score.get_match_coverage([score.FragmentMatch(f, f.mz, 1.0) for f in picks])
        return ';'.join(f'{len(k) - len(k.lstrip("+"))}:{k.lstrip("+")}=' + ','.join(map(str, v)) for k, v in cov.items())

    chk.correspond('get_match_coverage_on_fragments', DRV, covf_cases, covf_line, covf_impl,
                   nontrivial_fn=lambda c, im: '1' in im or '2' in im)

    # ---------------------------------------------------------------- (e) the isotope filters (Model/ScoreFilter.lean)
    flt_cases = []
    for _ in range(N // 20):
        seq = ''.join(rng.choice('ACDEFGHIKLMNPQRSTVWY') for _ in range(rng.randint(1, 6)))
        frs = pt.fragment(seq, rng.sample(['a', 'b', 'c', 'x', 'y', 'z', 'by', 'i'], rng.randint(1, 2)), rng.sample([1, 2], rng.randint(1, 2)),
                          isotopes=rng.choice([[0, 1], [0, 1, 2], [0, 1, 2, 3], [1, 2], [0, 2]]), water_loss=rng.random() < 0.3)
        if not frs:
            continue
        keep = rng.choice([0.3, 0.6, 0.9])
        picks = [f for f in frs if rng.random() < keep]
        if rng.random() < 0.3:
            picks = picks + picks[: rng.randint(0, len(picks))]
        if rng.random() < 0.5:
            rng.shuffle(picks)
        flt_cases.append([score.FragmentMatch(f, f.mz, 1.0) for f in picks])
    flt_cases.append([])

    def flt_line(op):
        return lambda ms: f'{op}\t' + ';'.join(f'{m.label}:{m.isotope}' for m in ms)

    def flt_impl(fn):
        def go(ms):
            pos = {id(m): k for k, m in enumerate(ms)}
            return ','.join(str(pos[id(m)]) for m in fn(list(ms)))
        return go

    chk.correspond('filter_missing_mono_isotope', DRV, flt_cases, flt_line('fmm'), flt_impl(score.filter_missing_mono_isotope),
                   nontrivial_fn=lambda c, im: 0 < len(im.split(',')) < len(c) and im != '')
    chk.correspond('filter_skipped_isotopes', DRV, flt_cases, flt_line('fsi'), flt_impl(score.filter_skipped_isotopes),
                   nontrivial_fn=lambda c, im: 0 < len(im.split(',')) < len(c) and im != '')

    # ---------------------------------------------------------------- oracles: the property on the real code
    budget = 1 if not chk.broken() else 4
    on = N * budget
    ocases = [gen_case(rng) for _ in range(on)]
    spec_out = chk.driver(DRV, [f'spec\t{c[0]}\t{fbits(c[1])}\t{flist(c[2])}\t{flist(c[3])}' for c in ocases])
    spec_map = {}
    for c, s in zip(ocases, spec_out):
        spec_map[id(c)] = [[int(t) for t in w.split(',')] if w else [] for w in s.split(';')] if c[2] else []

    def o_window(c):
        return prop_window(score, c, spec_map.get(id(c)))

    chk.oracle('all_mode_vs_bruteforce', ocases, o_window, nontrivial_fn=lambda c: bool(c[2]) and bool(c[3]),
               key_fn=lambda c: repr(c))
    mcases = [c + (gen_intens(rng, len(c[3])),) for c in ocases[:: 2]]
    chk.oracle('closest_largest_vs_relation', mcases, lambda c: prop_modes(score, c),
               nontrivial_fn=lambda c: bool(c[2]) and bool(c[3]), key_fn=lambda c: repr(c))

    # fragment matches, intensity fraction and coverage on real Fragment objects
    fcases = [gen_frag_case(rng) for _ in range(max(60, on // 12))]
    for part in ('pairs', 'fraction', 'coverage'):
        chk.oracle('fragment_matches_' + part, fcases, lambda c, part=part: prop_fragments(pt, score, c, chk.rng, part),
                   nontrivial_fn=lambda c: len(c['mz']) > 0, key_fn=lambda c: json.dumps(c, sort_keys=True))
    # Props/C17Ext on the real code: exact distances (fractions) against the sandwich of getMatchedIndices_rounded_th / _ppm
    sw_cases = ocases[: (1000 if tier == 'quick' else 12000) * budget]
    chk.oracle('rounded_window_sandwich', sw_cases, lambda c: prop_sandwich(score, c, chk),
               nontrivial_fn=lambda c: bool(c[2]) and bool(c[3]), key_fn=lambda c: repr(c))
    chk.oracle('binomial_score_counts', ocases[:: 5], lambda c: prop_binomial(score, c),
               nontrivial_fn=lambda c: bool(c[2]) and bool(c[3]), key_fn=lambda c: repr(c))

    # call SEQUENCES that share arguments (state leaking between calls: caches keyed on part of the input, argument objects
    # kept alive, module-level memo tables): each answer against the reference of that call's own arguments
    scases = [gen_sequence_case(rng) for _ in range(max(120, on // 50))]
    chk.oracle('call_sequences', scases, lambda c: prop_sequence(pt, score, c), nontrivial_fn=lambda c: True,
               key_fn=lambda c: json.dumps(c, sort_keys=True))
    # the same lists through get_matched_indices / match_spectra with tolerance, type and mode toggled, then the first again
    tcases = []
    for c in ocases[: max(100, on // 60)]:
        ints = gen_intens(rng, len(c[3]))
        tcases.append({'xs': c[2], 'ys': c[3], 'ints': ints, 'calls': [[c[0], c[1]], [rng.choice(['ppm', 'th']), rng.choice([0.0, 0.25, 1.0, 50.0])],
                                                                     ['th' if c[0] == 'ppm' else 'ppm', c[1]], [c[0], c[1]]],
                       'ints2': gen_intens(rng, len(c[3]))})

    def prop_toggle(c):
        for k, (tt, tol) in enumerate(c['calls']):
            if tt == 'ppm' and tol > 5e5:
                continue
            for ints in (c['ints'], c['ints2']):
                r = prop_window(score, [tt, tol, c['xs'], c['ys']]) or prop_modes(score, [tt, tol, c['xs'], c['ys'], ints])
                if r is not None:
                    return f'call group {k + 1} ({tt}, {tol!r}) on the same lists: {r}'
        return None

    chk.oracle('same_lists_toggled', tcases, prop_toggle, nontrivial_fn=lambda c: bool(c['xs']) and bool(c['ys']),
               key_fn=lambda c: json.dumps(c, sort_keys=True))
    # re-issue the earliest calls of this run at its end
    for name, cs, fn in (('all_mode_vs_bruteforce', ocases[:60], o_window),
                         ('closest_largest_vs_relation', mcases[:60], lambda c: prop_modes(score, c)),
                         ('fragment_matches_pairs', fcases[:40], lambda c: prop_fragments(pt, score, c, chk.rng, 'pairs')),
                         ('fragment_matches_fraction', fcases[:40], lambda c: prop_fragments(pt, score, c, chk.rng, 'fraction')),
                         ('call_sequences', scases[:40], lambda c: prop_sequence(pt, score, c))):
        chk.oracle('reissued_' + name, cs, fn, nontrivial_fn=lambda c: True,
                   key_fn=lambda c: json.dumps(c, sort_keys=True, default=str))
    shrink_failures(chk)
    shrink_sequence_failures(chk)
    c17_reach.record(chk, reach)
    if tier == 'thorough':
        chk.leanchecker(['PeptVerif.Props.C17Ext', 'PeptVerif.Model.ScoreFilter', 'PeptVerif.Lemmas.ScoreRnd', 'PeptVerif.Spec.ScoreRnd', 'PeptVerif.Model.ScoreRnd',
                         'PeptVerif.Props.C17', 'PeptVerif.Props.C17Gen', 'PeptVerif.Generated.ScoreCorePy', 'PeptVerif.Lemmas.ScoreGen',
                         'PeptVerif.Lemmas.Score', 'PeptVerif.Model.Score', 'PeptVerif.Spec.Score'])
    return chk.finish(classify)


# ----------------------------------------------------------------------------- property evaluators (shared with replay)

def prop_window(score, c, spec=None):
    ttype, tol, xs, ys = c[0], c[1], list(c[2]), list(c[3])
    ref = [brute_window(ttype, tol, x, ys) for x in xs]
    if spec is not None and spec != ref:
        return f'Lean specification {spec} and Python brute force {ref} differ'
    got = score.get_matched_indices(xs, ys, tol, ttype)
    if len(got) != len(xs):
        return f'{len(got)} results for {len(xs)} fragments'
    for i, (g, r) in enumerate(zip(got, ref)):
        gl = [] if g is None else list(range(g[0], g[1]))
        if g is not None and not gl:
            return f'fragment {i}: empty range {g} reported instead of None'
        if gl != r:
            return f'get_matched_indices: fragment {i} (mz {xs[i]!r}) -> {g}, peaks within tolerance are {r}'
    allm = score.match_spectra(xs, ys, tol, ttype, 'all')
    for i, (g, r) in enumerate(zip(allm, ref)):
        if (g or []) != r or (g is not None and not g) or (g is None) != (not r):
            return f"match_spectra mode all: fragment {i} (mz {xs[i]!r}) -> {g}, peaks within tolerance are {r}"
    return None


U53 = Fraction(1, 2 ** 53)


def prop_sandwich(score, c, chk=None):
    """Props/C17Ext (getMatchedIndices_rounded_th / _ppm with u = 2^-53) on the real implementation, exact arithmetic on the
    values of the doubles: peak j with |y - x| <= E - S must be reported for fragment i, a reported peak has |y - x| <= E + S.
    ppm: only when the float lower bound is monotone along the fragments (hypothesis of the theorem)."""
    ttype, tol, xs, ys = c[0], c[1], list(c[2]), list(c[3])
    if any(xs[i] > xs[i + 1] for i in range(len(xs) - 1)) or any(ys[i] > ys[i + 1] for i in range(len(ys) - 1)):
        return None
    if ttype == 'ppm':
        los = [float_lo(c, x) for x in xs]
        if any(los[i] > los[i + 1] for i in range(len(los) - 1)):
            if chk is not None:
                chk.count('sandwich_skipped_lower_bound_not_monotone')
            return None
    got = score.get_matched_indices(xs, ys, tol, ttype)
    ft = Fraction(tol)
    fys = [Fraction(y) for y in ys]
    gap = 0
    for i, x in enumerate(xs):
        fx = Fraction(x)
        if ttype == 'th':
            e = ft
            s = U53 * (abs(fx) + abs(ft))
        else:
            e = fx * ft / 1000000
            s = U53 * abs(fx) + 4 * U53 * abs(e)
        inner, outer = e - s, e + s
        w = got[i]
        for j, fy in enumerate(fys):
            d = abs(fy - fx)
            rep = w is not None and w[0] <= j < w[1]
            if d <= inner and not rep:
                return (f'fragment {i} ({x!r}), peak {j} ({ys[j]!r}): exact distance {float(d)!r} <= E - S = {float(inner)!r} '
                        f'but the peak is not reported ({w})')
            if rep and d > outer:
                return (f'fragment {i} ({x!r}), peak {j} ({ys[j]!r}) is reported ({w}) but its exact distance {float(d)!r} '
                        f'> E + S = {float(outer)!r}')
            if inner < d <= outer:
                gap += 1
    if chk is not None and gap:
        chk.count('sandwich_pairs_in_the_undetermined_band', gap)
    return None


def prop_modes(score, c):
    ttype, tol, xs, ys, ints = c[0], c[1], list(c[2]), list(c[3]), list(c[4])
    ref = [brute_window(ttype, tol, x, ys) for x in xs]
    clo = score.match_spectra(xs, ys, tol, ttype, 'closest', ints)
    lar = score.match_spectra(xs, ys, tol, ttype, 'largest', ints)
    dflt = score.match_spectra(xs, ys, tol, ttype)
    if len(clo) != len(xs) or len(lar) != len(xs):
        return 'wrong result length'
    for i, r in enumerate(ref):
        for name, g in (('closest', clo[i]), ('largest', lar[i]), ('default(closest)', dflt[i])):
            if (g is None) != (not r):
                return f'mode {name}: fragment {i} (mz {xs[i]!r}) -> {g}, peaks within tolerance are {r}'
            if g is not None and g not in r:
                return f'mode {name}: fragment {i} -> {g} which is not within tolerance ({r})'
        if r:
            best = min(abs(xs[i] - ys[j]) for j in r)
            if abs(xs[i] - ys[clo[i]]) != best or abs(xs[i] - ys[dflt[i]]) != best:
                return f'mode closest: fragment {i} (mz {xs[i]!r}) -> peak {clo[i]} at distance {abs(xs[i]-ys[clo[i]])!r}, minimal is {best!r}'
            top = max(ints[j] for j in r)
            if ints[lar[i]] != top:
                return f'mode largest: fragment {i} -> peak {lar[i]} intensity {ints[lar[i]]!r}, maximal in window is {top!r}'
    return None


def gen_frag_case(rng):
    """real fragments of a peptide, a spectrum built around their m/z (hits, near misses, noise), shuffled"""
    seq = ''.join(rng.choice('ACDEFGHIKLMNPQRSTVWY') for _ in range(rng.randint(1, 9)))
    if rng.random() < 0.3:
        seq = seq[:len(seq) // 2] + seq[:len(seq) // 2]       # repeated halves: fragments with equal m/z
    ions = rng.sample(['a', 'b', 'c', 'x', 'y', 'z'], rng.randint(1, 3))
    charges = rng.sample([1, 2, 3], rng.randint(1, 2))
    isotopes = rng.choice([[0], [0, 1]])
    ttype = rng.choice(['ppm', 'th'])
    tol = rng.choice([0.0, 0.01, 0.5, 2.0, 1e9]) if ttype == 'th' else rng.choice([0.0, 10.0, 500.0, 5000.0, 2e5])
    return {'seq': seq, 'ions': ions, 'charges': charges, 'isotopes': isotopes, 'ttype': ttype, 'tol': tol,
            'mode': rng.choice(['all', 'all', 'closest', 'largest']), 'npeaks': rng.randint(0, 25),
            'seed': rng.randrange(1 << 30), 'mz': [0.0], 'distinct': rng.random() < 0.7}


def build_frag_case(pt, c):
    import random
    r = random.Random(c['seed'])
    frags = pt.fragment(c['seq'], c['ions'], c['charges'], isotopes=c['isotopes'])
    mzs = []
    for _ in range(c['npeaks']):
        k = r.random()
        if frags and k < 0.6:
            f = r.choice(frags)
            off = c['tol'] if c['ttype'] == 'th' else f.mz * c['tol'] / 1e6
            off = min(off, 3.0)
            mzs.append(max(0.0, f.mz + r.choice([0, 0, off, -off, off * 0.5, -off * 1.01, off * 1.5, r.uniform(-1, 1)])))
        elif mzs and k < 0.75 and not c['distinct']:
            mzs.append(r.choice(mzs))
        else:
            mzs.append(r.uniform(50, 1200))
    if c['distinct']:
        mzs = list(dict.fromkeys(mzs))
    ints = [float(r.choice([0, 1, 2, 4, 8])) if r.random() < 0.5 else r.uniform(0, 1e4) for _ in mzs]
    r.shuffle(frags)
    return frags, mzs, ints


def prop_fragments(pt, score, c, rng=None, part='pairs'):
    """part = 'pairs' | 'fraction' | 'coverage' (three clauses of the property, reported separately)"""
    frags, mzs, ints = build_frag_case(pt, c)
    c['mz'] = mzs
    return eval_frag_call(score, frags, mzs, ints, c['ttype'], c['tol'], c['mode'], len(c['seq']), rng, part)


def eval_frag_call(score, frags, mzs, ints, ttype, tol, mode, seqlen, rng=None, part='pairs'):
    """one call of get_fragment_matches (+ coverage / intensity share of its result) against the brute-force reference
    computed from this call's own arguments"""
    c = {'seq': 'X' * seqlen}
    given = list(frags)
    if part == 'pairs':
        ms = score.get_fragment_matches(list(frags), list(mzs), list(ints), tol, ttype, mode)
    else:
        try:
            ms = score.get_fragment_matches(list(frags), list(mzs), list(ints), tol, ttype, mode)
        except Exception:  # noqa  (reported by part 'pairs')
            return None
    peaks = list(zip(mzs, ints))
    # expected: fragment f pairs with peak p iff p.mz within the window of f.mz
    exp = {fi: brute_window(ttype, tol, f.mz, mzs) for fi, f in enumerate(given)}
    pos = {id(f): k for k, f in enumerate(given)}
    got = {}
    for m in ms:
        if id(m.fragment) not in pos:
            return 'a match refers to a fragment object that was not passed in'
        got.setdefault(pos[id(m.fragment)], []).append((m.mz, m.intensity))
    for fi, f in enumerate(given):
        if part != 'pairs':
            break
        g = sorted(got.get(fi, []))
        e = sorted(peaks[j] for j in exp[fi])
        if mode == 'all':
            if g != e:
                return f'mode all: fragment {f.label} mz {f.mz!r} paired with {g}, peaks within tolerance are {e}'
        else:
            if (not e) != (not g) or len(g) > 1:
                return f'mode {mode}: fragment {f.label} mz {f.mz!r} paired with {g}, peaks within tolerance are {e}'
            if g:
                if g[0] not in e:
                    return f'mode {mode}: fragment {f.label} paired with {g[0]} which is not within tolerance'
                if mode == 'closest' and abs(f.mz - g[0][0]) != min(abs(f.mz - p[0]) for p in e):
                    return f'mode closest: fragment {f.label} paired with {g[0]}, not at minimal distance among {e}'
                if mode == 'largest' and g[0][1] != max(p[1] for p in e):
                    return f'mode largest: fragment {f.label} paired with {g[0]}, not of maximal intensity among {e}'
    # order independence (mode all: same pairs whatever the input order)
    if part == 'pairs' and mode == 'all' and rng is not None:
        f2 = list(given)
        rng.shuffle(f2)
        perm = list(range(len(mzs)))
        rng.shuffle(perm)
        ms2 = score.get_fragment_matches(f2, [mzs[j] for j in perm], [ints[j] for j in perm], tol, ttype, mode)
        a = sorted((pos[id(m.fragment)], m.mz, m.intensity) for m in ms)
        b = sorted((pos[id(m.fragment)], m.mz, m.intensity) for m in ms2)
        if a != b:
            return 'fragment matches depend on the order of the inputs'
    if part == 'pairs':
        return None
    if part == 'coverage':
        return prop_coverage(score, c, given, got, ms)
    # matched-intensity fraction
    frac = score.get_matched_intensity_percentage(ms, list(ints))
    total = sum(ints)
    if all(x >= 0 for x in ints) and not (0 <= frac <= 1 + 1e-12):
        return f'matched intensity fraction {frac!r} outside [0,1]'
    if len(set(mzs)) == len(mzs):
        matched_peaks = {mzs.index(m.mz) for m in ms}
        want = (math.fsum(ints[j] for j in matched_peaks) / total) if total else 0
        if abs(frac - want) > 1e-9 * max(1.0, abs(want)):
            return f'matched intensity fraction {frac!r}, intensity of distinct matched peaks / total = {want!r}'
    return None


def prop_coverage(score, c, given, got, ms):
    # coverage: each matched fragment counts its residues once under its label
    cov = score.get_match_coverage(ms)
    n = len(c['seq'])
    want = {}
    for fi in got:
        f = given[fi]
        lab = '+' * abs(f.charge) + f.ion_type
        arr = want.setdefault(lab, [0] * n)
        for i in range(f.start, f.end):
            arr[i] += 1
    if cov != want:
        return f'coverage {cov} but counting every matched fragment once gives {want}'
    return None


def gen_sequence_case(rng):
    """a SEQUENCE of calls that share arguments: same m/z list with other intensities, same fragments against another
    spectrum, same spectrum with another tolerance / mode, permuted inputs. Every step is explicit (replayable)."""
    seq = ''.join(rng.choice('ACDEFGHIKLMNPQRSTVWY') for _ in range(rng.randint(2, 7)))
    base = {'seq': seq, 'ions': rng.sample(['a', 'b', 'c', 'x', 'y', 'z'], rng.randint(1, 2)), 'charges': rng.sample([1, 2], rng.randint(1, 2)),
            'isotopes': [0], 'ttype': rng.choice(['ppm', 'th']), 'tol': 0.0, 'mode': 'all', 'npeaks': rng.randint(1, 14),
            'seed': rng.randrange(1 << 30), 'mz': [0.0], 'distinct': rng.random() < 0.7}
    base['tol'] = rng.choice([0.01, 0.5, 2.0]) if base['ttype'] == 'th' else rng.choice([10.0, 500.0, 5000.0, 2e5])
    return {'seq': seq, 'ions': base['ions'], 'charges': base['charges'], 'base': base, 'plan': [
        rng.choice(['new_intensities', 'new_intensities', 'new_spectrum', 'new_tolerance', 'new_mode', 'permute', 'repeat',
                    'indices_only', 'scaled_intensities'])
        for _ in range(rng.randint(2, 4))], 'plan_seed': rng.randrange(1 << 30), 'steps': None}


def build_sequence(pt, c):
    """explicit steps [(mzs, ints, ttype, tol, mode, kind)] of a sequence case (stored back into the case)"""
    import random
    if c.get('steps'):
        return c['steps']
    r = random.Random(c['plan_seed'])
    _, mzs, ints = build_frag_case(pt, c['base'])
    ttype, tol, mode = c['base']['ttype'], c['base']['tol'], c['base']['mode']
    steps = [[list(mzs), list(ints), ttype, tol, mode, 'first']]
    for kind in c['plan']:
        mzs, ints, ttype, tol, mode, _ = [list(x) if isinstance(x, list) else x for x in steps[-1]]
        if kind == 'new_intensities':
            ints = [float(r.choice([0, 1, 3, 9, 27])) if r.random() < 0.5 else r.uniform(0, 1e4) for _ in mzs]
        elif kind == 'scaled_intensities':
            ints = [x * 0.5 + 1.0 for x in reversed(ints)]
        elif kind == 'new_spectrum':
            b2 = dict(c['base'], seed=r.randrange(1 << 30), npeaks=r.randint(0, 14))
            _, mzs, ints = build_frag_case(pt, b2)
        elif kind == 'new_tolerance':
            tol = r.choice([0.0, 0.01, 0.5, 2.0, 50.0]) if ttype == 'th' else r.choice([0.0, 10.0, 500.0, 5000.0, 2e5])
        elif kind == 'new_mode':
            mode = r.choice([m for m in ('all', 'closest', 'largest') if m != mode])
        elif kind == 'permute':
            perm = list(range(len(mzs)))
            r.shuffle(perm)
            mzs, ints = [mzs[j] for j in perm], [ints[j] for j in perm]
        steps.append([mzs, ints, ttype, tol, mode, kind])
    c['steps'] = steps
    return steps


def prop_sequence(pt, score, c):
    """every call of the sequence is compared with the reference computed from that call's own arguments"""
    frags = pt.fragment(c['seq'], c['ions'], c['charges'], isotopes=[0])
    steps = build_sequence(pt, c)
    for k, (mzs, ints, ttype, tol, mode, kind) in enumerate(steps):
        for part in ('pairs', 'fraction', 'coverage'):
            try:
                r = eval_frag_call(score, list(frags), list(mzs), list(ints), ttype, tol, mode, len(c['seq']), None, part)
            except Exception as e:  # noqa
                r = f'unexpected {type(e).__name__}: {e}'
            if r is not None:
                return (f'call {k + 1} of {len(steps)} ({kind}): get_fragment_matches(fragment({c["seq"]!r}, {c["ions"]}, '
                        f'{c["charges"]}), mz={mzs}, intensity={ints}, {tol!r}, {ttype!r}, {mode!r}) [{part}]: {r}; the earlier '
                        f'calls of the sequence are in the case (steps)')
        if kind == 'indices_only' or k % 2 == 1:
            xs = sorted(f.mz for f in frags)
            ys_i = sorted(zip(mzs, ints))
            cc = [ttype, tol, xs, [p[0] for p in ys_i], [p[1] for p in ys_i]]
            r = prop_window(score, cc[:4]) or prop_modes(score, cc)
            if r is not None:
                return f'call {k + 1} of {len(steps)} ({kind}), sorted lists of the same spectrum: {r}'
    return None


def confirm_fresh(obj):
    """re-evaluate a failing case in a fresh interpreter (no state left over from this run): description or None"""
    import subprocess
    import sys
    code = ('import json,sys; from harness.props import c17; '
            'print(json.dumps(c17.eval_failure(json.load(sys.stdin))))')
    try:
        p = subprocess.run([sys.executable, '-W', 'ignore', '-c', code], input=json.dumps(obj), capture_output=True, text=True,
                           cwd=core.VERIF, timeout=120)
        return json.loads(p.stdout.strip().split('\n')[-1])
    except Exception as e:  # noqa
        return f'fresh-interpreter replay not available: {type(e).__name__}'


def shrink_sequence_failures(chk):
    """drop steps of a failing call sequence as long as it still fails in a fresh interpreter"""
    for f in chk.failures:
        if f['oracle'] != 'call_sequences':
            continue
        c = f['case']
        steps = c.get('steps') or []
        first = confirm_fresh({'oracle': 'call_sequences', 'case': c})
        if first is None:
            f['detail'] += ' [not reproduced in a fresh interpreter: depends on calls made earlier in this run]'
            continue
        i = 0
        tries = 0
        while i < len(steps) and len(steps) > 1 and tries < 8:
            cand = dict(c, steps=steps[:i] + steps[i + 1:])
            tries += 1
            if confirm_fresh({'oracle': 'call_sequences', 'case': cand}) is not None:
                steps = cand['steps']
            else:
                i += 1
        c['steps'] = steps
        f['case'] = c
        f['detail'] = str(confirm_fresh({'oracle': 'call_sequences', 'case': c}))[:2000] + ' [reproduced in a fresh interpreter]'


def prop_binomial(score, c):
    ttype, tol, xs, ys = c[0], c[1], list(c[2]), list(c[3])
    if not ys or not xs or tol <= 0 or max(ys) == min(ys):
        return None
    k = sum(1 for x in xs if brute_window(ttype, tol, x, ys))
    rng_ = max(ys) - min(ys)
    er = (sum(ys) / len(ys)) * tol / 1e6 if ttype == 'ppm' else tol
    if er == 0:
        return None
    p = len(ys) / (rng_ / er)
    try:
        want = math.comb(len(xs), k) * (p ** k) * ((1 - p) ** (len(xs) - k))
    except (OverflowError, ZeroDivisionError, ValueError):
        return None
    if isinstance(want, complex):
        return None
    try:
        got = score.binomial_score(xs, ys, tol, ttype)
    except (OverflowError, ZeroDivisionError):
        return None
    if isinstance(got, complex) or (got != want and abs(got - want) > 1e-9 * max(abs(got), abs(want))):
        return f'binomial_score {got!r} but with k={k} matched fragments of {len(xs)} the formula gives {want!r}'
    _, fragmentation = _mods()
    got2 = score.binomial_score([make_fragment(fragmentation, x, k) for k, x in enumerate(xs)], ys, tol, ttype)
    if got2 != got:
        return f'binomial_score on Fragment objects {got2!r} differs from the value on their m/z list {got!r}'
    return None


# ----------------------------------------------------------------------------- corpus / replay / classification

def eval_failure(obj):
    """re-evaluate a stored failure on the current implementation: returns description or None"""
    score, _ = _mods()
    import peptacular as pt
    o, c = obj['oracle'], obj['case']
    try:
        if o == 'corpus':
            return eval_failure(c)
        if o == 'all_mode_vs_bruteforce':
            return prop_window(score, c)
        if o == 'closest_largest_vs_relation':
            return prop_modes(score, c)
        if o.startswith('fragment_matches_'):
            import random
            return prop_fragments(pt, score, c, random.Random(0), o[len('fragment_matches_'):])
        if o == 'binomial_score_counts':
            return prop_binomial(score, c)
        if o == 'rounded_window_sandwich':
            return prop_sandwich(score, c)
        if o == 'call_sequences':
            return prop_sequence(pt, score, c)
        if o.startswith('reissued_'):
            return eval_failure({'oracle': o[len('reissued_'):], 'case': c})
    except Exception as e:  # noqa
        return f'unexpected {type(e).__name__}: {e}'
    return 'unknown oracle ' + str(o)


def replay_corpus(chk):
    n = 0
    for path in sorted(glob.glob(os.path.join(core.VERIF, 'corpus', PID, '*.jsonl'))):
        objs = [json.loads(l) for l in open(path) if l.strip()]
        chk.oracle('corpus', objs, eval_failure, key_fn=lambda o: json.dumps(o, sort_keys=True))
        n += len(objs)
    chk.count('corpus_cases', n)
    return n


def replay(chk, obj):
    if obj.get('kind') != 'oracle':
        print(json.dumps(obj, indent=1))
        return 0
    r = eval_failure(obj)
    print('replay', obj['oracle'], '->', 'property holds now' if r is None else 'FAILS: ' + r)
    return 0 if r is None else 1


def in_kf_region(c):
    return c[0] == 'ppm' and c[1] > 5e5


def float_lo(c, x):
    return x - (c[1] if c[0] == 'th' else x * c[1] / 1e6)


def shrink_failures(chk):
    """minimise the list-shaped failing cases (delta debugging on both lists, then on the values)"""
    score, _ = _mods()
    for f in chk.failures:
        if f['oracle'] not in ('all_mode_vs_bruteforce', 'closest_largest_vs_relation'):
            continue
        c = list(f['case'])
        fn = prop_window if f['oracle'] == 'all_mode_vs_bruteforce' else prop_modes

        def fails(cc):
            try:
                return fn(score, cc) is not None
            except Exception:  # noqa
                return True
        if not fails(c):
            continue
        if len(c) == 5:
            # keep intensities aligned with ys: shrink pairs
            pairs = core.shrink_list(list(zip(c[3], c[4])), lambda ps: fails(c[:3] + [[p[0] for p in ps], [p[1] for p in ps]]))
            c[3], c[4] = [p[0] for p in pairs], [p[1] for p in pairs]
        else:
            c[3] = core.shrink_list(c[3], lambda ys: fails(c[:3] + [ys]))
        c[2] = core.shrink_list(c[2], lambda xs: fails(c[:2] + [xs] + c[3:]))
        f['case'] = c
        f['detail'] = str(fn(score, c))[:2000]


KF_PPM = 'KF-C17-ppm-lower-bound-rounding'


def classify(f):
    """the only known finding: with a ppm tolerance close to 1e6 (100 %) the lower bound mz - mz*tol/1e6 is a difference of
    two nearly equal doubles; its rounding makes the bound non-monotone along the sorted fragments and the shared lower
    pointer runs past a peak. Matched structurally: region, non-monotone float bound present, and the failure disappears
    when the fragments that break monotonicity are removed."""
    if f['oracle'].startswith('reissued_') and f['oracle'] != 'reissued_call_sequences':
        return classify(dict(f, oracle=f['oracle'][len('reissued_'):]))
    if f['oracle'] == 'same_lists_toggled':
        return None
    if f['oracle'] == 'binomial_score_counts':
        # same root cause: the number of matched fragments is off because get_matched_indices missed a peak
        c = list(f['case'])
        score, _ = _mods()
        if in_kf_region(c) and prop_window(score, c) is not None:
            return classify({'oracle': 'all_mode_vs_bruteforce', 'case': c})
        return None
    if f['oracle'] in ('all_mode_vs_bruteforce', 'closest_largest_vs_relation', 'corpus'):
        c = f['case']
        if f['oracle'] == 'corpus':
            if c.get('oracle') not in ('all_mode_vs_bruteforce', 'closest_largest_vs_relation'):
                return None
            fo, c = c['oracle'], c['case']
        else:
            fo = f['oracle']
        if not in_kf_region(c):
            return None
        xs = list(c[2])
        los = [float_lo(c, x) for x in xs]
        if all(los[i] <= los[i + 1] for i in range(len(los) - 1)):
            return None
        keep, top = [], -math.inf
        for x, l in zip(xs, los):
            if l >= top:
                keep.append(x)
                top = l
        score, _ = _mods()
        c2 = list(c)
        c2[2] = keep
        fn = prop_window if fo == 'all_mode_vs_bruteforce' else prop_modes
        try:
            if fn(score, c2) is None:
                return KF_PPM
        except Exception:  # noqa
            return None
    return None
