"""C04 - fragmentation enumerates every ion exactly once and agrees with the mass calculator."""
import copy
import itertools
import json
import os
import re
import warnings
from fractions import Fraction

from .. import core
from .. import annot

PID = 'C04'
DRV = 'drv_c04'

REGISTRY = {
    'id': 'C04',
    'text': 'Mechanical tie for the pure core of fragmentation.py: harness/translate_fragcore.py reads the CURRENT source with ast and '
            'emits Generated/FragCorePy.lean (get_number, get_label, Fragment.number, Fragment.label, _label_shift, get_losses, '
            '_get_forward/backward/internal/immonium/terminal_fragments = the span enumerators and the ion types handed on, the loop '
            'nest and the loop body of _build_fragments incl. the row of every return type); Props/C04Gen proves each equal to the hand '
            'model (GenFrag.f = Fragment.f by rfl), so the theorems below hold for the definitions read off the source; a function '
            'outside the subset is reported as untranslated and stays tied by correspondence (fragment, Fragmenter, slice, adjust_mass '
            'are hand-modelled). '
            'Lean theorems about an executable model of fragmentation.py (span lists = prefixes/suffixes/strictly internal/single '
            'residues, duplicate free; the key list of fragment is duplicate free and is exactly the product ion type x its spans x '
            'isotopes x applicable losses x charges; each mass = table offset + sum of the per-residue components of its own span; all '
            'return types and Fragmenter are projections of one list; numbering/label laws; slices carry the mods of their residues '
            'and termini; per-span applicability of loss rules incl. the built-in water/ammonia residue classes), for every length and '
            'every weight function; frag_mass_eq_mass / frag_mass_eq_mass_labelled: on the concrete mass model (fast path, and the '
            'composition path for isotope-labelled peptides with the label shift keyed by ion type and charge) the ion mass equals '
            'mass(ion sequence, ion type, charge, isotope, loss). The model is tied to /repo by differential correspondence (fragment, Fragmenter, get_losses, get_number, '
            'get_label, slice, span helpers); the numeric clause "ion mass = mass(ion sequence, ...)" is evaluated on the real code',
    'note': 'trusted: Lean kernel, axioms propext/Classical.choice/Quot.sound, the fragmentation.py subset reader translate_fragcore.py '
            '(its output is small and diffable), the correspondence harness; masses are abstract in the '
            'model (per-residue components and table constants are sent from Python as exact rationals), regex matching of loss '
            'patterns other than character classes is computed on the Python side, iteration order of the Python loss set is not modelled',
    'technique': 'Lean 4 proof about executable model + differential correspondence + direct oracle on the implementation',
}

ION_TYPES = ['a', 'b', 'c', 'x', 'y', 'z', 'ax', 'ay', 'az', 'bx', 'by', 'bz', 'cx', 'cy', 'cz', 'i']
FORWARD, BACKWARD = ('a', 'b', 'c'), ('x', 'y', 'z')
INTERNAL = ('ax', 'ay', 'az', 'bx', 'by', 'bz', 'cx', 'cy', 'cz')
RTS = ['fragment', 'mass', 'mz', 'label', 'mass-label', 'mz-label']

# modification values with an a-priori mass *and* composition (so that isotope-labelled peptides work)
MODS = ['Oxidation', 'Phospho', 'Acetyl', 'Carbamidomethyl', 'Methyl', 'Deamidated', 'U:Oxidation', 'UNIMOD:21', 'MOD:00046',
        'Formula:C2H3NO', 'Formula:[13C2]H4', 'Formula:C-1H2', 'Formula:H2O', 'Glycan:Hex', 'Glycan:HexNAc2Hex3',
        1, -1, 15.995, -18.0106, 100, 0.5, 42.0106, 79.97, 1.5, -17.03]
STATIC_RES = ['[Carbamidomethyl]@C', '[+57.02]@C', '[Oxidation]@M', '[Phospho]@S,T', '[+1.5]@K', '[Formula:C2H3N]@A', '[10]@P,E']
STATIC_TERM = ['[Acetyl]@N-Term', '[Methyl]@C-Term', '[Formula:C2H3N]@A,N-Term', '[10]@N-Term', '[+1.5]@C-Term,K']
ISO_LABELS = ['13C', '15N', '18O', 'D', '17O', '34S']
# loss deltas: dyadic values add exactly in floating point, so the Python set (float ==) and the model set (rational =)
# collapse the same sums; the non-dyadic ones are used at most once per request
DYADIC = [-1, -2, -0.5, -10, -5, 1.25, -15, -10.0, 2, -20]
NONDYADIC = [-97.9769, -79.96633, -63.998285]
LOSS_PATTERNS = ['[STED]', '[RKNQ]', 'E', 'A', '[ST]', '[KR]', 'P', 'S.', '^P', 'E$', '[DE][DE]', 'K|R', '.', 'T+']


def rat(x):
    f = Fraction(x)
    return f'{f.numerator}/{f.denominator}' if f.denominator != 1 else str(f.numerator)


def _mods_api():
    from peptacular.proforma.proforma_dataclasses import Mod
    from peptacular.proforma.proforma_parser import ProFormaAnnotation
    return Mod, ProFormaAnnotation


# ----------------------------------------------------------------------------------------------- generators

def gen_peptide(rng, chk=None, ambiguous_p=0.03, min_len=1, max_len=12):
    Mod, PA = _mods_api()
    r = rng.random()
    n = rng.randint(min_len, max_len) if r < 0.8 else rng.randint(min_len, min(4, max_len))
    seq = ''.join(rng.choice(annot.RESIDUES20) for _ in range(n))
    a = PA(_sequence=seq)
    p = rng.choice([0.0, 0.2, 0.35, 0.6])

    def mods():
        return [Mod(rng.choice(MODS), rng.choice([1, 1, 1, 2])) for _ in range(rng.randint(1, 2))]

    if rng.random() < p:
        a._nterm_mods = mods()
    if rng.random() < p:
        a._cterm_mods = mods()
    d = {}
    for i in range(n):
        if rng.random() < p * 0.6:
            d[i] = mods()
    if d:
        a._internal_mods = d
    if rng.random() < p * 0.7:
        pool = STATIC_RES + (STATIC_TERM if rng.random() < 0.4 else [])
        a._static_mods = [Mod(x, 1) for x in rng.sample(pool, rng.randint(1, 2))]
    if rng.random() < p * 0.6:
        a._isotope_mods = [Mod(x, 1) for x in rng.sample(ISO_LABELS, rng.randint(1, 2))]
    if rng.random() < p * 0.4:
        a._labile_mods = mods()
    if rng.random() < ambiguous_p:
        if rng.random() < 0.5 or n < 2:
            a._unknown_mods = mods()
        else:
            from peptacular.proforma.proforma_dataclasses import Interval
            s = rng.randint(0, n - 2)
            a._intervals = [Interval(s, rng.randint(s + 1, n), rng.random() < 0.3, mods() if rng.random() < 0.7 else None)]
    return a


def gen_request(rng, tier, seq):
    """the keyword arguments of fragment() (JSON-able)"""
    r = rng.random()
    if r < 0.25:
        ions = rng.choice(ION_TYPES)                       # scalar
    elif r < 0.5:
        ions = [rng.choice(ION_TYPES)]
    else:
        ions = rng.sample(ION_TYPES, rng.randint(1, 16 if rng.random() < 0.2 else 4))
    if rng.random() < 0.03 and isinstance(ions, list):
        ions = ions + [rng.choice(['p', 'n', 'q', 'w', 'yb'])]   # silently ignored by fragment
    r = rng.random()
    if r < 0.3:
        charges = rng.randint(1, 4)
    else:
        charges = rng.sample([1, 2, 3, 4], rng.randint(1, 3))
    r = rng.random()
    if r < 0.4:
        isotopes = 0
    elif r < 0.55:
        isotopes = rng.randint(0, 3)
    else:
        isotopes = rng.sample([0, 1, 2, 3], rng.randint(1, 3))
    water = rng.random() < 0.3
    ammonia = rng.random() < 0.3
    max_losses = rng.choice([1, 1, 2, 2, 3])
    losses = None
    r = rng.random()
    if r < 0.45:
        k = rng.randint(1, 3)
        used_nd = False
        rules = []
        for _ in range(k):
            if not used_nd and rng.random() < 0.3:
                v = rng.choice(NONDYADIC)
                used_nd = True
            else:
                v = rng.choice(DYADIC)
            rules.append([rng.choice(LOSS_PATTERNS), v])
        losses = rules[0] if (k == 1 and rng.random() < 0.4) else rules   # a bare tuple is accepted too
    # keep the combinatorics of itertools.combinations small (also on the Lean side)
    rules = ([] if losses is None else ([losses] if not isinstance(losses[0], list) else losses))
    total = sum(len(re.findall(p, seq)) for p, _ in rules)
    total += sum(c in 'STED' for c in seq) * water + sum(c in 'RKNQ' for c in seq) * ammonia
    if max_losses == 3 and total > 14:
        max_losses = 2
    if max_losses == 2 and total > 30:
        max_losses = 1
    return {
        'ion_types': ions, 'charges': charges, 'monoisotopic': rng.random() < 0.65, 'isotopes': isotopes,
        'water_loss': water, 'ammonia_loss': ammonia, 'losses': losses, 'max_losses': max_losses,
        'return_type': rng.choice(RTS + ['fragment', 'fragment']),
        'precision': rng.choice([None, None, None, 0, 1, 2, 3, 4, 5, 6]),
    }


def call_kwargs(req):
    """fresh Python arguments for one call (fragment() appends to the caller's `losses` list: C08)"""
    kw = dict(req)
    ls = req['losses']
    if ls is None:
        kw['losses'] = None
    elif not isinstance(ls[0], list):
        kw['losses'] = (ls[0], ls[1])
    else:
        kw['losses'] = [(p, v) for p, v in ls]
    for k in ('ion_types', 'charges', 'isotopes'):
        if isinstance(kw[k], list):
            kw[k] = list(kw[k])
    return kw


def rule_list(req):
    ls = req['losses']
    if ls is None:
        return []
    if not isinstance(ls[0], list):
        return [ls]
    return ls


# ----------------------------------------------------------------------------------------------- protocol

def _one_or_many(x, f=str):
    if isinstance(x, list):
        return 'L:' + ','.join(f(v) for v in x)
    return 'S:' + f(x)


def pat_wire(p, seq):
    """a character class / single letter is modelled in Lean; any other regex is sent as its findall counts"""
    m = re.fullmatch(r'\[([A-Z]+)\]', p)
    if m:
        return 'C' + annot.esc(m.group(1))
    if re.fullmatch(r'[A-Z]', p):
        return 'C' + annot.esc(p)
    subs = sorted({seq[i:j] for i in range(len(seq) + 1) for j in range(i, len(seq) + 1)})
    ents = [f'{annot.esc(s)}:{len(re.findall(p, s))}' for s in subs if len(re.findall(p, s))]
    return 'O' + ','.join(ents)


def rule_wire(r, seq):
    return f'{pat_wire(r[0], seq)}={rat(r[1])}'


MISSING_NAMES = []     # (module, attribute) the library no longer provides; reported as correspondence breaks by run()


def lib_name(candidates, required=True):
    """a name of the library, looked up where it is DEFINED first (then where it used to be re-exported); a missing or
    renamed name is recorded (run() reports it as a correspondence break) and None is returned - never an exception"""
    import importlib
    for mod, attr in candidates:
        try:
            obj = importlib.import_module(mod)
            for part in attr.split('.'):
                obj = getattr(obj, part)
            return obj
        except Exception:  # noqa  (ImportError, AttributeError, errors raised while importing a changed module)
            continue
    if required and candidates[0] not in MISSING_NAMES:
        MISSING_NAMES.append(candidates[0])
    return None


def mass_tables(mono):
    pre = 'MONOISOTOPIC' if mono else 'AVERAGE'
    fa = lib_name([('peptacular.chem.chem_constants', pre + '_FRAGMENT_ADJUSTMENTS'), ('peptacular.mass_calc', pre + '_FRAGMENT_ADJUSTMENTS')])
    io = lib_name([('peptacular.chem.chem_constants', pre + '_FRAGMENT_ION_ADJUSTMENTS'),
                   ('peptacular.mass_calc', pre + '_FRAGMENT_ION_ADJUSTMENTS')])
    proton = lib_name([('peptacular.constants', 'PROTON_MASS')])
    neutron = lib_name([('peptacular.constants', 'NEUTRON_MASS')])
    return fa, io, proton, neutron


def params_wire(mono):
    fa, io, proton, neutron = mass_tables(mono)
    if fa is None or io is None or proton is None or neutron is None:
        raise LookupError('mass tables of the library are not readable')
    rows = [f'{t}:{rat(fa[t])}:{rat(io[t])}' for t in ION_TYPES]
    return ';'.join([f'{rat(proton)},{rat(neutron)},{rat(fa["n"])}'] + rows)


def prepared(a):
    """the working copy of fragment(): labile mods popped, static rules written out (condense_static_mods is Env.condenseStatic)"""
    b = copy.deepcopy(a)
    b.pop_labile_mods()
    b.condense_static_mods(inplace=True)
    return b


def split_masses(a, mono):
    """what fragment() itself computes when _mass_components is None"""
    import peptacular as pt
    return [pt.mass(sequence=c, charge=0, ion_type='n', monoisotopic=mono) for c in prepared(a).split()]


def label_shifts(a, req):
    """Env.labelShift: mass(empty labelled peptide as this ion) - adjust_mass(0.0, ...) for every requested ion type and charge"""
    import peptacular as pt
    adjust_mass = lib_name([('peptacular.mass_calc', 'adjust_mass')])
    if adjust_mass is None:
        raise LookupError('adjust_mass is not readable')
    _, PA = _mods_api()
    if a._isotope_mods is None:
        return ''
    mono = req['monoisotopic']
    ions = req['ion_types'] if isinstance(req['ion_types'], list) else [req['ion_types']]
    charges = req['charges'] if isinstance(req['charges'], list) else [req['charges']]
    out = []
    with warnings.catch_warnings():
        warnings.simplefilter('ignore')
        for t in dict.fromkeys(ions):
            if t not in ION_TYPES:
                continue
            for c in dict.fromkeys([0] + list(charges)):
                blank = PA(_sequence='', _isotope_mods=copy.deepcopy(a._isotope_mods))
                v = pt.mass(blank, charge=c, ion_type=t, monoisotopic=mono) - adjust_mass(0.0, charge=c, ion_type=t, monoisotopic=mono)
                out.append(f'{t}:{c}:{rat(v)}')
    return ';'.join(out)


def frag_line(case):
    try:
        return _frag_line(case)
    except Exception as e:  # noqa  a library name / call the harness needs is gone: the line is unreadable for the driver -> disagreement
        return 'unreadable\t' + type(e).__name__


def _frag_line(case):
    op, dump, req, comps = case
    a = annot.undump(dump)
    seq = a.sequence
    ls = req['losses']
    if ls is None:
        lw = 'N'
    elif not isinstance(ls[0], list):
        lw = 'S:' + rule_wire(ls, seq)
    else:
        lw = 'L:' + ';'.join(rule_wire(r, seq) for r in ls)
    rt = req['return_type'] if req['return_type'] in RTS else 'other'
    try:
        sm = ','.join(rat(x) for x in split_masses(a, req['monoisotopic']))
    except Exception:  # noqa
        sm = ''
    return '\t'.join([
        op.replace('-str', ''), dump, _one_or_many(req['ion_types']), _one_or_many(req['charges']), str(int(req['monoisotopic'])),
        _one_or_many(req['isotopes']), str(int(req['water_loss'])), str(int(req['ammonia_loss'])), lw, str(req['max_losses']),
        rt, 'None' if req['precision'] is None else str(req['precision']),
        'None' if comps is None else ','.join(rat(x) for x in comps), sm, params_wire(req['monoisotopic']),
        label_shifts(a, req), annot.dump(prepared(a))])


LABEL_RE = re.compile(r'^(\+*)([a-z]+?)(-?\d+(?:-\d+)?)(?:\((.*)\))?(\**)$')


def parse_label(s):
    m = LABEL_RE.match(s)
    if not m:
        return ('?', s, '', 0.0, 0)
    return (len(m.group(1)), m.group(2), m.group(3), float(m.group(4)) if m.group(4) is not None else 0.0, len(m.group(5)))


def canon_impl(req, res, parent):
    """canonical text of a fragment() result (same layout as the driver reply)"""
    rt = req['return_type']
    out = []
    pieces = {}
    if rt == 'fragment' and res and res[0].parent_sequence != parent:
        return 'PARENT-MISMATCH'
    for x in res:
        if rt == 'fragment':
            if x.parent_sequence is not res[0].parent_sequence and x.parent_sequence != parent:
                return 'PARENT-MISMATCH'
            if (x.start, x.end) not in pieces:
                pieces[(x.start, x.end)] = annot.esc(annot.dump(annot_of(x.sequence, parent, x.start, x.end)))
            out.append(','.join([x.ion_type, str(x.start), str(x.end), str(x.charge), str(x.isotope), repr(float(x.loss)),
                                 repr(float(x.mass)), repr(float(x.neutral_mass)), repr(float(x.mz)), str(int(x.internal)),
                                 str(int(x.monoisotopic)), pieces[(x.start, x.end)], annot.esc(x.unmod_sequence),
                                 str(x.number), x.label]))
        elif rt in ('mass', 'mz'):
            out.append(repr(float(x)))
        elif rt == 'label':
            out.append(x)
        else:
            out.append(repr(float(x[0])) + ':' + x[1])
    return annot.esc(annot.dump(parent)) + '#' + ';'.join(out)


def annot_of(sequence_text, parent, s, e):
    """Fragment.sequence is the serialisation of parent.slice(s, e); the model keeps the sliced annotation. The oracle checks
    separately that the text is the serialisation and that it parses back to the slice."""
    return parent.slice(s, e)


def impl_fragment(case):
    import peptacular as pt
    op, dump, req, comps = case
    a = annot.undump(dump)
    kw = call_kwargs(req)
    with warnings.catch_warnings():
        warnings.simplefilter('ignore')
        try:
            parent = prepared(a)          # parent_sequence is the working copy
            arg = a.serialize() if op.endswith('-str') else a     # a str argument is parsed first (C01)
            if op.startswith('fragmenter'):
                mono = kw.pop('monoisotopic')
                fr = pt.Fragmenter(arg, mono)
                res = fr.fragment(**kw)
            else:
                res = pt.fragment(arg, _mass_components=None if comps is None else list(comps), **kw)
        except ValueError as e:
            if type(e) is ValueError:
                return 'ERR:ValueError'
            raise
    return canon_impl(req, res, parent)


def _tol_ok(x, y, prec, unit_ok=True):
    d = abs(x - y)
    if d <= 1e-7:
        return True
    if prec is not None and unit_ok:
        # both values are multiples of 10^-p: a tie / double-rounding flip is exactly one unit (DESIGN 2.4)
        return abs(d - 10.0 ** (-prec)) <= 1e-7
    return False


def compare_fragment(req):
    rt = req['return_type']
    prec = req['precision']

    def parse(s):
        head, _, body = s.partition('#')
        items = body.split(';') if body else []
        return head, items

    def cmp(im, m):
        if im.startswith('ERR:') or m.startswith('ERR:') or m in ('bad-op', 'PARENT-MISMATCH') or im.startswith('EXC:'):
            return im == m
        h1, i1 = parse(im)
        h2, i2 = parse(m)
        if h1 != h2 or len(i1) != len(i2):
            return False
        if rt == 'fragment':
            def rec(x):
                f = x.split(',')
                return [f[0], int(f[1]), int(f[2]), int(f[3]), int(f[4]), float(f[5]), float(f[6]), float(f[7]), float(f[8])] + f[9:]

            def blocks(items):
                # loop order span > ion type > isotope > loss > charge; the loss loop runs over a Python set
                recs = [rec(x) for x in items]
                out = []
                for _, g in itertools.groupby(recs, key=lambda r: (r[1], r[2], r[0], r[4])):
                    out += sorted(g, key=lambda r: r[5])      # stable: charges keep their order inside one loss
                return out
            for p, q in zip(blocks(i1), blocks(i2)):
                if p[:5] != q[:5] or p[9:14] != q[9:14]:
                    return False
                lp, lq = parse_label(p[14]), parse_label(q[14])
                if lp[:3] != lq[:3] or lp[4] != lq[4] or abs(lp[3] - lq[3]) > 1e-9:
                    return False
                if abs(p[5] - q[5]) > 1e-9 or not _tol_ok(p[6], q[6], prec) or abs(p[7] - q[7]) > 1e-7 \
                        or not _tol_ok(p[8], q[8], prec):
                    return False
            return True
        if rt in ('mass', 'mz'):
            a1 = sorted(float(x) for x in i1)
            a2 = sorted(float(x) for x in i2)
            return all(_tol_ok(x, y, prec) for x, y in zip(a1, a2))
        if rt == 'label':
            a1 = sorted(parse_label(x) for x in i1)
            a2 = sorted(parse_label(x) for x in i2)
            return all(p[:3] == q[:3] and p[4] == q[4] and abs(p[3] - q[3]) <= 1e-9 for p, q in zip(a1, a2))
        a1 = sorted((parse_label(x.split(':', 1)[1]), float(x.split(':', 1)[0])) for x in i1)
        a2 = sorted((parse_label(x.split(':', 1)[1]), float(x.split(':', 1)[0])) for x in i2)
        return all(p[0][:3] == q[0][:3] and p[0][4] == q[0][4] and abs(p[0][3] - q[0][3]) <= 1e-9 and _tol_ok(p[1], q[1], prec)
                   for p, q in zip(a1, a2))
    return cmp


# ----------------------------------------------------------------------------------------------- reference (oracle)

def ref_spans(t, n):
    if t in FORWARD:
        return [(0, e) for e in range(1, n + 1)]
    if t in BACKWARD:
        return [(s, n) for s in range(0, n)]
    if t in INTERNAL:
        return [(s, e) for s in range(1, n) for e in range(s + 1, n)]
    if t == 'i':
        return [(k, k + 1) for k in range(n)]
    return []


def ref_number(t, n, s, e):
    if t in FORWARD:
        return str(e)           # length of the prefix
    if t in BACKWARD:
        return str(n - s)       # length of the suffix
    if t in INTERNAL:
        return f'{s}-{e}'
    return str(s)               # immonium: index of the residue, as get_number documents


def ref_losses(sub, rules, max_losses):
    """independent: achievable sums when at most max(1, max_losses) matches are taken, at most count(rule) from each rule"""
    cap = max(1, max_losses)
    states = {(0, Fraction(0))}
    for p, v in rules:
        cnt = len(re.findall(p, sub))
        new = set()
        for k, tot in states:
            for j in range(0, min(cnt, cap - k) + 1):
                new.add((k + j, tot + j * Fraction(v)))
        states = new
    return sorted({float(t) for _, t in states})


def _norm_val(v):
    try:
        return float(v)
    except (TypeError, ValueError):
        return str(v)


def _norm_mods(l):
    return sorted(((_norm_val(m.val), m.mult) for m in (l or [])), key=repr)


def static_rules(a):
    """independent reading of the static rules: [(mod value text, multiplier, [targets])]"""
    out = []
    for m in (a._static_mods or []):
        mm = re.fullmatch(r'((?:\[.*\](?:\^\d+)?)+)@([A-Za-z,\-]+)', str(m.val))
        if not mm:
            raise ValueError('unreadable static rule ' + str(m.val))
        targets = [t.strip() for t in mm.group(2).split(',')]
        for body, mult in re.findall(r'\[((?:[^\[\]]|\[[^\]]*\])*)\](?:\^(\d+))?', mm.group(1)):
            out.append((body, int(mult) if mult else 1, targets))
    return out


def ref_piece(a, s, e):
    """what a fragment covering residues s..e-1 must carry: the mods on its residues, the terminal mods of the termini it contains,
    static rules written out on exactly those places; isotope labels are global"""
    n = len(a.sequence)
    rules = static_rules(a)
    internal = {}
    for k in range(s, e):
        mods = [(_norm_val(m.val), m.mult) for m in (a._internal_mods or {}).get(k, [])]
        mods += [(_norm_val(b), mu) for b, mu, ts in rules if a.sequence[k] in ts]
        if mods:
            internal[k - s] = sorted(mods, key=repr)
    nterm = ([(_norm_val(m.val), m.mult) for m in (a._nterm_mods or [])] + [(_norm_val(b), mu) for b, mu, ts in rules if 'N-Term' in ts]) \
        if s == 0 else []
    cterm = ([(_norm_val(m.val), m.mult) for m in (a._cterm_mods or [])] + [(_norm_val(b), mu) for b, mu, ts in rules if 'C-Term' in ts]) \
        if e == n else []
    return {'seq': a.sequence[s:e], 'nterm': sorted(nterm, key=repr), 'cterm': sorted(cterm, key=repr), 'internal': internal,
            'isotope': _norm_mods(a._isotope_mods)}


def got_piece(fa):
    return {'seq': fa.sequence, 'nterm': _norm_mods(fa._nterm_mods), 'cterm': _norm_mods(fa._cterm_mods),
            'internal': {k: _norm_mods(v) for k, v in (fa._internal_mods or {}).items() if v},
            'isotope': _norm_mods(fa._isotope_mods)}


def all_rules(req):
    rules = [tuple(r) for r in rule_list(req)]
    if req['water_loss']:
        rules.append(('[STED]', -18.01056))
    if req['ammonia_loss']:
        rules.append(('[RKNQ]', -17.02655))
    return rules


def has_terminal_static(a):
    for m in (a._static_mods or []):
        v = str(m.val)
        if '@' in v and any(t.strip() in ('N-Term', 'C-Term') for t in v.split('@')[-1].split(',')):
            return True
    return False


def rhe(x, p):
    """round-half-even of the exact rational x at p decimal places (independent of the library and of float round())"""
    import math
    sc = Fraction(10) ** p
    y = Fraction(x) * sc
    f = math.floor(y)
    d = y - f
    r = f if d < Fraction(1, 2) else (f + 1 if d > Fraction(1, 2) else (f if f % 2 == 0 else f + 1))
    return Fraction(r) / sc


def rounding_error(value, exact, p):
    """None if `value` is `exact` rounded half-even at p places (p None: unrounded); one unit in the last place is accepted only
    when `exact` lies within 1e-9 of a tie; otherwise a description"""
    import math
    v = Fraction(value)
    x = Fraction(exact)
    if p is None:
        return None if abs(v - x) <= Fraction(1, 10 ** 9) else f'{value!r} is not the unrounded {float(x)!r}'
    unit = Fraction(1) / Fraction(10) ** p
    if abs(v / unit - round(v / unit)) > Fraction(1, 10 ** 6):
        return f'{value!r} is not rounded to {p} decimal places (exact value {float(x)!r})'
    exp = rhe(x, p)
    if abs(v - exp) <= Fraction(1, 10 ** 9):
        return None
    y = x / unit
    near_tie = abs((y - math.floor(y)) - Fraction(1, 2)) <= Fraction(1, 10 ** 9) / unit
    if near_tie and abs(v - exp) <= unit + Fraction(1, 10 ** 9):
        return None
    return f'{value!r} is not round-half-even({float(x)!r}, {p}) = {float(exp)!r}'


def oracle_mz_rounding(case):
    """every precision x charge x return type carrying m/z: mass_p is the unrounded mass rounded at p, m/z is mass_p / charge
    rounded at p - with a rounding that is independent of mass_calc"""
    import peptacular as pt
    dump, ions, iso, charge, prec = case[:5]
    with warnings.catch_warnings():
        warnings.simplefilter('ignore')
        def call(rt, p):
            return pt.fragment(annot.undump(dump), ions, charge, isotopes=iso, return_type=rt, precision=p, water_loss=True)
        raw = call('mass', None)
        masses = call('mass', prec)
        mzs = call('mz', prec)
        mzl = call('mz-label', prec)
        mal = call('mass-label', prec)
        frs = call('fragment', prec)
        if not (len(raw) == len(masses) == len(mzs) == len(mzl) == len(mal) == len(frs)):
            return 'ROUND return types of different lengths'
        for i, m0 in enumerate(raw):
            where = f'ion {frs[i].label} charge {charge} precision {prec}'
            e = rounding_error(masses[i], m0, prec)
            if e:
                return f'ROUND {where}: mass {e}'
            e = rounding_error(mzs[i], Fraction(masses[i]) / charge, prec)
            if e:
                return f'ROUND {where}: return_type mz {e} (mass {masses[i]!r} / {charge})'
            for name, v, w in (('mz-label', mzl[i][0], mzs[i]), ('Fragment.mz', frs[i].mz, mzs[i]), ('mass-label', mal[i][0], masses[i]),
                               ('Fragment.mass', frs[i].mass, masses[i])):
                if v != w:
                    return f'ROUND {where}: {name} {v!r} differs from the scalar return type {w!r}'
            e = rounding_error(frs[i].neutral_mass, Fraction(frs[i].neutral_mass), None)
            if e:
                return f'ROUND {where}: {e}'
    return None


MASS_BUDGET = [None]      # quick tier: at most this many fragments per case get the three mass-calculator calls (evenly spread)


def oracle_case(case):
    """the property itself on the real implementation; returns None or a description"""
    import peptacular as pt
    dump, req = case[0], case[1]
    a0 = annot.undump(dump)
    n = len(a0.sequence)
    req = dict(req)
    kw = call_kwargs(dict(req, return_type='fragment'))
    with warnings.catch_warnings():
        warnings.simplefilter('ignore')
        a = copy.deepcopy(a0)
        try:
            frs = pt.fragment(a, **kw)
        except ValueError as e:
            if type(e) is ValueError and (a0._intervals is not None or a0._unknown_mods is not None):
                return None
            return f'unexpected {type(e).__name__}: {e}'
        if a0._intervals is not None or a0._unknown_mods is not None:
            return 'ambiguous sequence accepted'
        parent = prepared(a0)
        ions = req['ion_types'] if isinstance(req['ion_types'], list) else [req['ion_types']]
        charges = req['charges'] if isinstance(req['charges'], list) else [req['charges']]
        isos = req['isotopes'] if isinstance(req['isotopes'], list) else [req['isotopes']]
        mono, prec = req['monoisotopic'], req['precision']
        rules = all_rules(req)
        # ---- exactly one ion per requested key
        want = {}
        for t in dict.fromkeys(ions):
            for (s, e) in ref_spans(t, n):
                for L in ref_losses(parent.sequence[s:e], rules, req['max_losses']):
                    for iso in isos:
                        for c in charges:
                            want[(t, s, e, c, iso, round(L, 7))] = 0
        for f in frs:
            k = (f.ion_type, f.start, f.end, f.charge, f.isotope, round(float(f.loss), 7))
            if k not in want:
                return f'unrequested ion {k}'
            want[k] += 1
            if want[k] > 1:
                return f'ion {k} returned more than once'
        miss = [k for k, v in want.items() if v == 0]
        if miss:
            return f'missing ion {miss[0]} ({len(miss)} missing)'
        # ---- the number of cleavage positions per ion type
        for t in dict.fromkeys(ions):
            sp = {(f.start, f.end) for f in frs if f.ion_type == t}
            exp = n if t in FORWARD + BACKWARD + ('i',) else ((n - 1) * (n - 2) // 2 if t in INTERNAL else 0)
            if len(sp) != exp:
                return f'ion type {t}: {len(sp)} cleavage positions, expected {exp} for length {n}'
        # ---- per fragment: masses, sequence, label
        tol = 1e-7 if prec is None else 10.0 ** (-prec) * (1 + 1e-9) + 1e-9
        step = 1 if not MASS_BUDGET[0] else max(1, len(frs) // MASS_BUDGET[0])
        # the model's formula evaluated on the implementation's own data (tables read where they are defined): components_sum
        tabs = mass_tables(mono) if a0._isotope_mods is None else (None, None, None, None)
        comps = split_masses(a0, mono) if tabs[0] is not None and tabs[1] is not None else None
        piece_ok = {}
        for idx, f in enumerate(frs):
            s, e = f.start, f.end
            key = (f.ion_type, s, e, f.charge, f.isotope, f.loss)
            if (s, e, f.sequence) not in piece_ok:
                exp = ref_piece(a0, s, e)
                try:
                    fa = pt.parse(f.sequence)
                except Exception as ex:  # noqa
                    return f'{key}: fragment sequence {f.sequence!r} does not parse: {ex}'
                got = got_piece(fa)
                if got != exp or fa._labile_mods or fa._unknown_mods or fa._intervals or fa._charge is not None or fa._static_mods:
                    return f'{key}: sequence {f.sequence!r} does not carry exactly the modifications of residues {s}..{e}: {got} vs {exp}'
                if f.sequence != parent.slice(s, e).serialize():
                    return f'{key}: sequence {f.sequence!r} != slice().serialize() {parent.slice(s, e).serialize()!r}'
                piece_ok[(s, e, f.sequence)] = True
            if f.unmod_sequence != parent.sequence[s:e]:
                return f'{key}: unmod_sequence {f.unmod_sequence!r}'
            if f.internal != (s != 0 and e != n) or f.monoisotopic != mono:
                return f'{key}: internal/monoisotopic flag wrong'
            if f.parent_sequence is not frs[0].parent_sequence and f.parent_sequence != parent:
                return f'{key}: parent_sequence is not the prepared peptide'
            rerr = rounding_error(f.mz, Fraction(f.mass) / f.charge, prec)
            if rerr:
                return f'ROUND {key}: mz {rerr} (mass {f.mass!r} / charge {f.charge})'
            num = ref_number(f.ion_type, n, s, e)
            if str(f.number) != num:
                return f'{key}: number {f.number!r}, expected {num}'
            lab = '+' * f.charge + f.ion_type + num + (f'({f.loss})' if f.loss != 0 else '') + '*' * f.isotope
            if f.label != lab:
                return f'{key}: label {f.label!r}, expected {lab!r}'
            if idx % step:
                continue
            if comps is not None and prec is None and tabs[2] is not None and tabs[3] is not None:
                fa, io, proton, neutron = tabs
                want_m = (sum(comps[s:e]) + fa['n'] + proton * (f.charge - 1) + io[f.ion_type] + fa[f.ion_type]
                          + f.isotope * neutron + f.loss)
                if abs(want_m - f.mass) > 1e-7:
                    return (f'TABLE {key} ({"monoisotopic" if mono else "average"}): fragment mass {f.mass!r} != sum of its residue '
                            f'components + PROTON_MASS*(charge-1) + FRAGMENT_ION_ADJUSTMENTS[{f.ion_type!r}] + '
                            f'FRAGMENT_ADJUSTMENTS[{f.ion_type!r}] + isotope*NEUTRON_MASS + loss = {want_m!r}')
            m = pt.mass(f.sequence, ion_type=f.ion_type, charge=f.charge, isotope=f.isotope, loss=f.loss, monoisotopic=mono,
                        precision=prec)
            if abs(m - f.mass) > tol:
                return f'MASS {key}: fragment mass {f.mass!r} != mass({f.sequence!r}, ...) = {m!r}'
            m0 = pt.mass(f.sequence, ion_type=f.ion_type, charge=0, isotope=f.isotope, loss=f.loss, monoisotopic=mono)
            if abs(m0 - f.neutral_mass) > 1e-7:
                return f'MASS {key}: neutral_mass {f.neutral_mass!r} != mass(charge=0) {m0!r}'
            z = pt.mz(f.sequence, ion_type=f.ion_type, charge=f.charge, isotope=f.isotope, loss=f.loss, monoisotopic=mono,
                      precision=prec)
            if abs(z - f.mz) > tol:
                return f'MASS {key}: fragment mz {f.mz!r} != mz({f.sequence!r}, ...) = {z!r}'
        if frs and frs[0].parent_sequence != parent:
            return 'parent_sequence is not the prepared peptide'
        # ---- the other return types and Fragmenter are projections of the same list
        proj = {
            'mass': [f.mass for f in frs], 'mz': [f.mz for f in frs], 'label': [f.label for f in frs],
            'mass-label': [(f.mass, f.label) for f in frs], 'mz-label': [(f.mz, f.label) for f in frs],
        }
        for rt, exp in proj.items():
            got = pt.fragment(copy.deepcopy(a0), **call_kwargs(dict(req, return_type=rt)))
            if got != exp:
                i = next((i for i, (x, y) in enumerate(zip(got, exp)) if x != y), min(len(got), len(exp)))
                return (f'PROJ return_type={rt!r} is not the projection of the fragment list (lengths {len(got)}/{len(exp)}, first '
                        f'difference at {i}: {got[i] if i < len(got) else None!r} vs {exp[i] if i < len(exp) else None!r})')
        fr = pt.Fragmenter(copy.deepcopy(a0), mono)
        for rt in RTS:
            kw2 = call_kwargs(dict(req, return_type=rt))
            kw2.pop('monoisotopic')
            got = fr.fragment(**kw2)
            exp = frs if rt == 'fragment' else proj[rt]
            if got != exp:
                return f'Fragmenter.fragment(return_type={rt!r}) differs from fragment()'
    return None


# ----------------------------------------------------------------------------------------------- histories on one object

def gen_history(rng, seq):
    """3-6 related requests (random order, with repeats): each differs from a base request in the shape or value of ONE argument
    (ion types as str / list / multi-letter internal type / terminal list with the same letters, charges int vs list, ...)"""
    f, b = rng.choice('abc'), rng.choice('xyz')
    variants = {
        'ion_types': [f + b, [f, b], [f + b], [b, f], f, [f], b, [f, b, f + b], 'i', ['i'], [f, 'i'], [b + f]],
        'charges': [1, [1], 2, [2], [1, 2], [2, 1], 3],
        'isotopes': [0, [0], 1, [0, 1], [1, 0]],
        'losses': [None, ['E', -10], [['E', -10]], [['E', -10], ['[ST]', -5]], [['[ST]', -5]], ['[ST]', -5]],
        'water_loss': [False, True],
        'ammonia_loss': [False, True],
        'max_losses': [1, 2],
        'precision': [None, 3, 0],
        'return_type': ['fragment', 'mass', 'mz', 'label', 'mass-label', 'mz-label'],
    }
    base = {k: rng.choice(v) for k, v in variants.items()}
    if rng.random() < 0.6:
        base['ion_types'] = rng.choice([f + b, [f, b]])
    base['monoisotopic'] = True        # the mass mode belongs to the Fragmenter, set per object
    pool = [base]
    for _ in range(rng.randint(2, 4)):
        r = dict(rng.choice(pool))
        dim = 'ion_types' if rng.random() < 0.5 else rng.choice(list(variants))
        r[dim] = rng.choice(variants[dim])
        pool.append(r)
    steps = list(pool)
    while len(steps) < 3:
        steps.append(rng.choice(pool))
    for _ in range(rng.randint(0, 2)):
        steps.append(rng.choice(pool))          # repeats
    rng.shuffle(steps)
    return steps[:6]


def oracle_history(case):
    """ONE Fragmenter per peptide driven through a sequence of requests (two objects interleaved when two peptides are given);
    after every request the answer must be what the stateless fragment() gives for the same arguments on a fresh copy"""
    import peptacular as pt
    dumps, monos, steps = case[0], case[1], case[2]
    with warnings.catch_warnings():
        warnings.simplefilter('ignore')
        annots = [annot.undump(d) for d in dumps]
        frs = [pt.Fragmenter(copy.deepcopy(a), m) for a, m in zip(annots, monos)]
        for n, (idx, req) in enumerate(steps):
            kw = call_kwargs(req)
            kw.pop('monoisotopic')
            got = frs[idx].fragment(**kw)
            kw2 = call_kwargs(req)
            kw2['monoisotopic'] = monos[idx]
            exp = pt.fragment(copy.deepcopy(annots[idx]), **kw2)
            if got != exp:
                i = next((i for i, (x, y) in enumerate(zip(got, exp)) if x != y), min(len(got), len(exp)))

                def show(l):
                    return repr(l[i])[:160] if i < len(l) else None
                return (f'HISTORY step {n} (object {idx}, peptide {annots[idx].serialize()!r}, request {json.dumps(req)}): '
                        f'Fragmenter.fragment returned {len(got)} items, fragment() {len(exp)}; first difference at {i}: '
                        f'{show(got)} vs {show(exp)}; earlier requests on this object: '
                        f'{json.dumps([r for j, r in steps[:n] if j == idx])}')
    return None


def answer_text(dump, req):
    import peptacular as pt
    with warnings.catch_warnings():
        warnings.simplefilter('ignore')
        try:
            return repr(pt.fragment(annot.undump(dump), **call_kwargs(req)))
        except ValueError as e:
            return 'ValueError: ' + str(e)
        except Exception as e:  # noqa
            return 'EXC:' + type(e).__name__


# ----------------------------------------------------------------------------------------------- run

def corpus_cases():
    d = os.path.join(core.VERIF, 'corpus', PID)
    out = []
    if os.path.isdir(d):
        for fn in sorted(os.listdir(d)):
            if fn.endswith('.jsonl'):
                for line in open(os.path.join(d, fn)):
                    line = line.strip()
                    if line:
                        o = json.loads(line)
                        out.append((annot.dump(_pt().parse(o['sequence'])) if 'sequence' in o else o['dump'], o['request']))
    return out


def _pt():
    import peptacular as pt
    return pt


def ion_subsets(rng, tier):
    """every non-empty subset of the 16 ion types in thorough, a sample in quick"""
    if tier == 'thorough':
        for bits in range(1, 1 << 16):
            yield [ION_TYPES[i] for i in range(16) if bits >> i & 1]
    else:
        for _ in range(100):
            bits = rng.randint(1, (1 << 16) - 1)
            yield [ION_TYPES[i] for i in range(16) if bits >> i & 1]


class LineReach:
    """which lines of the modelled functions the inputs of this run executed (sys.monitoring, Python 3.12)"""
    TOOL = 3

    def __init__(self, funcs):
        import sys
        self.mon = getattr(sys, 'monitoring', None)
        self.codes = {}
        for f in funcs:
            f = getattr(f, '__wrapped__', f)
            code = getattr(f, '__code__', None)
            if code is not None:
                self.codes[code] = set()
        self.on = False

    def start(self):
        if self.mon is None:
            return
        try:
            self.mon.use_tool_id(self.TOOL, 'c04reach')
        except ValueError:
            return
        self.on = True

        def cb(code, line):
            st = self.codes.get(code)
            if st is not None:
                st.add(line)
            return self.mon.DISABLE
        self.mon.register_callback(self.TOOL, self.mon.events.LINE, cb)
        for code in self.codes:
            self.mon.set_local_events(self.TOOL, code, self.mon.events.LINE)

    def stop(self):
        if not self.on:
            return None
        missing = {}
        for code, seen in self.codes.items():
            lines = {ln for _, _, ln in code.co_lines() if ln is not None and ln > code.co_firstlineno}
            miss = sorted(lines - seen)
            if miss:
                missing[code.co_qualname] = miss
            self.mon.set_local_events(self.TOOL, code, 0)
        self.mon.register_callback(self.TOOL, self.mon.events.LINE, None)
        self.mon.free_tool_id(self.TOOL)
        self.on = False
        return missing


def run(chk):
    pt = _pt()
    import types
    del MISSING_NAMES[:]
    fr_mod = lib_name([('peptacular', 'fragmentation')])
    constants = lib_name([('peptacular', 'constants')])
    sp_mod = lib_name([('peptacular', 'spans')])
    fr_mod = fr_mod or types.SimpleNamespace(__file__=os.devnull)      # every use below is inside a guarded stage
    constants = constants or types.SimpleNamespace()
    sp_mod = sp_mod or types.SimpleNamespace()
    tier, rng = chk.tier, chk.rng
    import time
    t0 = time.time()
    # fragmentation.py -> Generated/FragCorePy.lean + Props/C04Gen.lean (GenFrag.f = Fragment.f), regenerated on change
    try:
        from .. import translate_fragcore
        gen_done, gen_unt = translate_fragcore.translate(chk)
    except Exception as e:  # noqa  (the translator itself never raises; this guards its import)
        gen_done, gen_unt = [], {'translate_fragcore': type(e).__name__}
        chk.generated_changed.append('untranslated:translate_fragcore')
    chk.lean_build(['PeptVerif.Props.C04', 'PeptVerif.Props.C04Mass', 'PeptVerif.Props.C04Gen'], DRV)
    chk.notes.append('lean build + axiom audit: %.1f s' % (time.time() - t0))
    chk.trusted += [
        'harness/translate_fragcore.py: the reading of a tiny Python subset of fragmentation.py (if/elif on ion-type sets and string '
        'literals, int arithmetic, f-string / + concatenation of label parts, tuples, list literals and comprehensions over range / '
        'span lists, calls of the span builders with the defaults read from spans.py, keyword pass-through calls, the five-loop nest '
        'and the return-type chain of _build_fragments, the accumulator loops of get_losses) into the combinators of the hand model; '
        'translated on this run: %s%s' % (', '.join(gen_done), ''.join('; NOT translated: %s (%s)' % kv for kv in gen_unt.items())),
        'masses are abstract in the Lean model: the per-residue components (mass(c, charge=0, ion_type="n") for c in split()) and the '
        'table constants (PROTON_MASS, NEUTRON_MASS, *_FRAGMENT_ADJUSTMENTS, *_FRAGMENT_ION_ADJUSTMENTS) are computed by the '
        'implementation and sent to the model as exact rationals; the clause "ion mass = mass(ion sequence, ...)" is therefore checked '
        'on the implementation only (oracle, 1e-7 / 10^-precision)',
        'regex applicability of neutral-loss patterns: character classes / single letters are modelled (counted in Lean); for any '
        'other regular expression the number of re.findall matches on every substring is computed on the Python side and sent',
        'neutral-loss order: get_losses returns a Python set of floats; the model returns a duplicate-free list and every comparison '
        'of the loss loop is order-free (sorted by value); the built-in rules [STED] / [RKNQ] and custom character classes are '
        'counted in Lean (ops builtin/count tie them to re.findall on every span)',
        'iteration order of the Python set returned by get_losses is not modelled: inside one (span, ion type, isotope) block fragments '
        'are compared after sorting by loss; the other return types are compared as sorted lists and tied to the fragment list '
        'order by the projection oracle',
        'rounding oracle: mass_p and m/z_p are compared with an independent exact round-half-even (fractions) of the unrounded mass '
        'and of mass_p / charge, for every precision None/0..6 x charge 1..4 x return type; one unit in the last place is accepted '
        'only within 1e-9 of a tie, and the value must be a multiple of 10^-p',
        'round(): modelled as round-half-even on the exact rational; implementation values may differ by exactly one unit 10^-p at '
        'ties/double rounding, which the comparison accepts',
        'Fragment.sequence (serialisation of the slice) is compared through annotation dumps; serialisation is property C01',
        'state on reused objects: the oracle fragmenter_history drives ONE Fragmenter (and two interleaved ones) through 3-6 related '
        'requests in random order with repeats and compares every answer with the stateless fragment() on a fresh copy; '
        'fragment_reissued_at_end repeats calls recorded at the start of the run after all other history',
        'argument mutation by fragment() (labile mods popped from the annotation, losses list appended to) belongs to C08: '
        'every call here gets fresh copies',
    ]
    chk.exhaustive = (tier == 'thorough')      # the 2^16-1 ion-type subsets are enumerated completely in thorough
    chk.rule = ('peptides of length 1..12 over the 20 residues with N-/C-terminal, residue, static (residue and terminal targets), '
                'isotope-label and labile mods (3% with unknown mods / intervals for the ValueError branch); ion types scalar or list '
                '(random subsets, all 2^16-1 subsets in thorough), charges within 1..4, isotopes within 0..3, water/ammonia/custom '
                'regex losses, max_losses 1..3, both mass modes, precision None/0..6, six return types, fragment and Fragmenter; '
                'non-trivial = at least two fragments returned; distinct = distinct protocol line')

    # answers of plain fragment() calls recorded before anything else has run; re-issued at the very end of the run
    first_answers = []
    for dump, req in corpus_cases():
        first_answers.append((dump, req))
    for _ in range(40 if tier == 'quick' else 300):
        a = gen_peptide(rng, max_len=8)
        first_answers.append((annot.dump(a), gen_request(rng, tier, a.sequence)))
    first_answers = [(d, r, answer_text(d, r)) for d, r in first_answers]

    _PA = lib_name([('peptacular.proforma.proforma_parser', 'ProFormaAnnotation')])
    reach_names = [(fr_mod, n) for n in ('get_number', 'get_label', 'get_losses', '_build_fragments', '_label_shift',
                                         '_get_internal_fragments', '_get_immonium_fragments', '_get_forward_fragments',
                                         '_get_backward_fragments', '_get_terminal_fragments', 'fragment')]
    reach_funcs = [getattr(m, n, None) for m, n in reach_names]
    for owner, names in ((getattr(fr_mod, 'Fragmenter', None), ('__init__', 'fragment')),
                         (_PA, ('slice', 'pop_labile_mods', 'contains_sequence_ambiguity'))):
        reach_funcs += [getattr(owner, n, None) for n in names]
    for n in ('number', 'label'):
        reach_funcs.append(getattr(getattr(getattr(fr_mod, 'Fragment', None), n, None), 'func', None))
    for (m, n), f in zip(reach_names, reach_funcs):
        if f is None and ('peptacular.fragmentation', n) not in MISSING_NAMES:
            MISSING_NAMES.append(('peptacular.fragmentation', n))
    reach = LineReach([f for f in reach_funcs if f is not None])
    reach.start()

    # ------------------------------------------------------------- (a) small pieces: tables, get_number, get_label, get_losses, spans, slice
    names = ION_TYPES + ['p', 'n', 'q', 'yb', 'ib', '', 'B']

    def cls_impl(t):
        return ''.join(str(int(b)) for b in (t in constants.FORWARD_ION_TYPES, t in constants.BACKWARD_ION_TYPES,
                                             t in constants.INTERNAL_ION_TYPES, t in constants.TERMINAL_ION_TYPES, t == 'i'))
    chk.correspond('ion_type_sets', DRV, names, lambda t: f'classify\t{t}', cls_impl)

    def consts_impl(_):
        # the two built-in loss rules, read off the BEHAVIOUR of fragment() (not off the source text: where the
        # literals live in the file is not observable and a refactor may move them)
        def probe(flag):
            val, cls = None, ''
            for aa in 'ACDEFGHIKLMNPQRSTVWY':
                frs = pt.fragment(aa, 'b', 1, **{flag: True})
                ls = sorted({f.loss for f in frs if f.loss != 0})
                if ls:
                    cls += aa
                    val = ls[0] if val is None else val
            return val, cls
        w, wc = probe('water_loss')
        a, ac = probe('ammonia_loss')
        return f'{w:.12f},{a:.12f},{"".join(sorted(wc))},{"".join(sorted(ac))}'

    def consts_cmp(im, m):
        if im.startswith('EXC') or m.count(',') != 3:
            return im == m
        a, b = im.split(','), m.split(',')
        return a[:2] == b[:2] and sorted(a[2]) == sorted(b[2]) and sorted(a[3]) == sorted(b[3])
    chk.correspond('loss_literals', DRV, [0], lambda _: 'consts', consts_impl, compare=consts_cmp)

    num_cases = [(t, n, s, e) for t in names for n in range(0, 6) for s in range(0, n + 1) for e in range(s, n + 1)]

    def num_impl(c):
        try:
            return str(fr_mod.get_number(*c))
        except ValueError:
            return 'ERR:ValueError'
    chk.correspond('get_number', DRV, num_cases, lambda c: 'number\t%s\t%d\t%d\t%d' % c, num_impl)

    lab_cases = []
    for _ in range(300 if tier == 'quick' else 5000):
        t = rng.choice(ION_TYPES)
        num = rng.choice([rng.randint(0, 40), f'{rng.randint(0, 20)}-{rng.randint(0, 30)}'])
        lab_cases.append((t, rng.randint(-1, 5), num, rng.choice([0, 0.0, -18.01056, -17.02655, 1.25, -10, 97.9769, -0.5]),
                          rng.randint(-1, 4)))

    def lab_cmp(im, m):
        p, q = parse_label(im), parse_label(m)
        return p[:3] == q[:3] and p[4] == q[4] and abs(p[3] - q[3]) < 1e-9 and (('(' in im) == ('(' in m))
    chk.correspond('get_label', DRV, lab_cases,
                   lambda c: f'label\t{c[0]}\t{c[1]}\t{str(c[2]).replace("-", "~") if isinstance(c[2], str) else c[2]}\t{rat(c[3])}\t{c[4]}',
                   lambda c: fr_mod.get_label(*c[:2], c[2], c[3], c[4]), compare=lab_cmp)

    loss_cases = [('AA', [['A', -10], ['A', -5]], k) for k in (0, 1, 2, 3, 4)]
    for _ in range(400 if tier == 'quick' else 6000):
        sq = ''.join(rng.choice('STEDRKNQAP') for _ in range(rng.randint(0, 7)))
        rules = [[rng.choice(LOSS_PATTERNS), rng.choice(DYADIC)] for _ in range(rng.randint(0, 3))]
        if rng.random() < 0.3:
            rules.append(['[STED]', -18.01056])
        if rng.random() < 0.3:
            rules.append(['[RKNQ]', -17.02655])
        loss_cases.append((sq, rules, rng.choice([-1, 0, 1, 1, 2, 2, 3, 3, 4])))

    def loss_cmp(im, m):
        # the implementation keeps a *set of floats*: the same combination of losses summed in two different orders can
        # differ in the last bit (-56.02112 vs -56.021119999999996) and then appears twice; the exact model has it once.
        # Float summation order is outside the property (losses are compared at 1e-9), so values closer than 1e-9 are one.
        def collapse(vals):
            out = []
            for v in sorted(vals):
                if not out or abs(v - out[-1]) >= 1e-9:
                    out.append(v)
            return out
        a1 = collapse(float(x) for x in im.split(',') if x)
        a2 = collapse(float(x) for x in m.split(',') if x)
        return len(a1) == len(a2) and all(abs(x - y) < 1e-9 for x, y in zip(a1, a2))
    chk.correspond('get_losses', DRV, loss_cases,
                   lambda c: f'losses\t{annot.esc(c[0])}\t{";".join(rule_wire(r, c[0]) for r in c[1])}\t{c[2]}',
                   lambda c: ','.join(repr(float(x)) for x in fr_mod.get_losses(c[0], [tuple(r) for r in c[1]], c[2])),
                   compare=loss_cmp, nontrivial_fn=lambda c, im: im.count(',') >= 2)

    # applicability of the built-in rules is computed in Lean (residue classes); of custom character classes too; any other
    # regex enters as findall counts. All three against re.findall on every span of random peptides.
    app_cases = []
    for _ in range(150 if tier == 'quick' else 1200):
        sq = ''.join(rng.choice(annot.RESIDUES20 if rng.random() < 0.7 else 'STEDRKNQ') for _ in range(rng.randint(0, 12)))
        for i in range(len(sq) + 1):
            for j in range(i, len(sq) + 1):
                app_cases.append(sq[i:j])
    app_cases = list(dict.fromkeys(app_cases))
    chk.correspond('builtin_applicability', DRV, app_cases, lambda c: f'builtin\t{annot.esc(c)}',
                   lambda c: f"{len(re.findall('[STED]', c))},{len(re.findall('[RKNQ]', c))}",
                   nontrivial_fn=lambda c, im: im != '0,0')
    pat_cases = [(p, sq) for sq in app_cases[:: (7 if tier == 'quick' else 3)] for p in rng.sample(LOSS_PATTERNS, 3)]
    chk.correspond('pattern_counts', DRV, pat_cases, lambda c: f'count\t{pat_wire(c[0], c[1])}\t{annot.esc(c[1])}',
                   lambda c: str(len(re.findall(c[0], c[1]))), nontrivial_fn=lambda c, im: im != '0')

    def spans_impl(c):
        kind, n = c
        start = (0, n, 0)
        if kind == 'forward':
            sp = [start] + list(sp_mod.build_left_semi_spans(start))
        elif kind == 'backward':
            sp = [start] + list(sp_mod.build_right_semi_spans(start))
        elif kind == 'internal':
            sp = [s for s in sp_mod.build_non_enzymatic_spans(start) if s[0] != 0 and s[1] != n]
        else:
            sp = [(i, i + 1, 0) for i in range(n)]
        return ';'.join('%d:%d:%d' % s for s in sp)
    chk.correspond('span_lists', DRV, [(k, n) for k in ('forward', 'backward', 'internal', 'immonium') for n in range(0, 25)],
                   lambda c: f'spans\t{c[0]}\t{c[1]}', spans_impl, nontrivial_fn=lambda c, im: ';' in im)

    slice_cases = []
    for _ in range(200 if tier == 'quick' else 4000):
        a = gen_peptide(rng, ambiguous_p=0.15)
        n = len(a.sequence)
        s = rng.randint(0, n)
        slice_cases.append((annot.dump(a), s, rng.randint(s, n)))
    chk.correspond('slice', DRV, slice_cases, lambda c: f'slice\t{c[0]}\t{c[1]}\t{c[2]}',
                   lambda c: annot.esc(annot.dump(annot.undump(c[0]).slice(c[1], c[2]))),
                   compare=lambda im, m: annot.canon_dump(annot.unesc(im)) == annot.canon_dump(annot.unesc(m)),
                   nontrivial_fn=lambda c, im: 'D' in annot.unesc(im) or 'L' in annot.unesc(im))

    rnd_cases = [(rng.choice([1, -1]) * rng.randint(0, 10 ** 9) / rng.choice([8, 16, 1000, 3, 7, 1024]), rng.randint(0, 6))
                 for _ in range(300)] + [(x / 8, p) for x in range(-20, 21) for p in (0, 1, 2)]
    chk.correspond('round', DRV, rnd_cases, lambda c: f'round\t{rat(c[0])}\t{c[1]}', lambda c: repr(round(c[0], c[1])),
                   compare=lambda im, m: abs(float(im) - float(m)) < 1e-9)

    # ------------------------------------------------------------- (b) fragment / Fragmenter end to end
    cases = []
    for dump, req in corpus_cases():
        cases.append(('fragment', dump, req, None))
    n_rand = 400 if tier == 'quick' else 2500
    for _ in range(n_rand):
        a = gen_peptide(rng)
        req = gen_request(rng, tier, a.sequence)
        op = 'fragmenter' if rng.random() < 0.25 else 'fragment'
        if rng.random() < 0.15:
            # str argument: the annotation the model sees is the parse of the text (typed mod values may differ from `a`)
            a = pt.parse(a.serialize())
            op += '-str'
        comps = None
        if op == 'fragment' and rng.random() < 0.08:
            comps = [rng.randint(-400, 4000) / 16 for _ in range(len(a.sequence))]    # an explicit _mass_components list
        cases.append((op, annot.dump(a), req, comps))
    # ion-type subsets (all of them in thorough) on short peptides
    n_sub0 = len(cases)
    for ions in ion_subsets(rng, tier):
        a = gen_peptide(rng, ambiguous_p=0.0, max_len=4 if tier == 'thorough' else 8)
        req = gen_request(rng, tier, a.sequence)
        req['ion_types'] = ions
        if tier == 'thorough':      # 65535 subsets: keep each call small
            req['max_losses'] = 1
            req['losses'] = None
            req['charges'] = rng.choice([1, 2, [1, 3], [2]])
            req['isotopes'] = rng.choice([0, [0, 1], 2])
        cases.append(('fragment', annot.dump(a), req, None))
    n_sub1 = len(cases)
    by_rt = {}
    for c in cases:
        by_rt.setdefault(c[2]['return_type'] + '|' + str(c[2]['precision']), []).append(c)
    for k, cs in by_rt.items():
        chk.correspond('fragment', DRV, cs, frag_line, impl_fragment, compare=compare_fragment(cs[0][2]),
                       nontrivial_fn=lambda c, im: im.count(';') >= 1)
    for c in cases:
        a = annot.undump(c[1])
        chk.count('len=%d' % len(a.sequence))
        chk.count('op=' + c[0])
        chk.count('rt=' + c[2]['return_type'])
        chk.count('precision=' + str(c[2]['precision']))
        chk.count('mono=' + str(c[2]['monoisotopic']))
        chk.count('max_losses=%d' % c[2]['max_losses'])
        for f, nm in ((a._static_mods, 'static'), (a._isotope_mods, 'isotope'), (a._nterm_mods, 'nterm'), (a._cterm_mods, 'cterm'),
                      (a._internal_mods, 'residue-mods'), (a._labile_mods, 'labile'), (a._unknown_mods, 'unknown'),
                      (a._intervals, 'intervals')):
            if f:
                chk.count('mods:' + nm)
        if c[2]['water_loss'] or c[2]['ammonia_loss'] or c[2]['losses']:
            chk.count('with-losses')

    for mod, attr in MISSING_NAMES:
        chk.disagreements.append({'op': 'library-name', 'line': f'{mod}.{attr}',
                                  'impl': 'the name is no longer provided by the library', 'model': 'modelled / read by the harness'})
    missing = reach.stop()
    if missing is not None:
        chk.notes.append('lines of the modelled functions not executed by the correspondence inputs: ' +
                         (json.dumps(missing) if missing else 'none (every line reached)'))

    # ------------------------------------------------------------- (c) oracle on the implementation
    def ocase(dump, req):
        # third component: for the reader of a replay file only
        return (dump, req, {'peptide': annot.undump(dump).serialize(),
                            'call': 'peptacular.fragment(peptide, **request) / peptacular.Fragmenter(peptide, monoisotopic).fragment(...)',
                            'rerun': './check C04 --replay <this file>'})

    if tier == 'quick' and not chk.broken():
        nc = len(corpus_cases())
        sel = cases[:nc] + cases[nc::3]
    elif tier == 'thorough' and not chk.broken():
        sel = cases[:n_sub0:2] + cases[n_sub0:n_sub1:40] + cases[n_sub1:]
    else:
        sel = cases
    ocases = [ocase(c[1], c[2]) for c in sel if c[3] is None]
    MASS_BUDGET[0] = 60 if (tier == 'quick' and not chk.broken()) else None
    # a small exhaustive family: every ion type x plain peptides of every length 1..12
    for n in range(1, 13):
        sq = ''.join(rng.choice(annot.RESIDUES20) for _ in range(n))
        for t in ION_TYPES:
            ocases.append(ocase(annot.dump(_mods_api()[1](_sequence=sq)),
                                {'ion_types': t, 'charges': [1, 2], 'monoisotopic': True, 'isotopes': [0, 1], 'water_loss': True,
                                 'ammonia_loss': False, 'losses': None, 'max_losses': 1, 'return_type': 'fragment',
                                 'precision': None}))
    if chk.broken():
        for _ in range(2000):
            a = gen_peptide(rng)
            ocases.append(ocase(annot.dump(a), gen_request(rng, tier, a.sequence)))
    chk.oracle('fragment_property', ocases, oracle_case,
               nontrivial_fn=lambda c: len(annot.undump(c[0]).sequence) >= 2, key_fn=lambda c: c[0] + json.dumps(c[1], sort_keys=True))

    # ---- rounding: every precision x charge x return type carrying a mass or m/z, against an independent round-half-even
    rcases = []
    rpeps = ['PEPTIDE'] + [''.join(rng.choice(annot.RESIDUES20) for _ in range(rng.randint(2, 9)))
                           for _ in range(4 if tier == 'quick' else 40)]
    for sq in rpeps:
        a = gen_peptide(rng, ambiguous_p=0.0) if rng.random() < 0.3 else _mods_api()[1](_sequence=sq)
        ions = rng.sample(ION_TYPES, 3) + ['b']
        for prec in [None, 0, 1, 2, 3, 4, 5, 6]:
            for charge in (1, 2, 3, 4):
                rcases.append((annot.dump(a), ions, rng.choice([0, 1]), charge, prec,
                               {'peptide': a.serialize(), 'call': 'peptacular.fragment(peptide, ion_types, charge, isotopes=.., '
                                'water_loss=True, precision=.., return_type=each of mass/mz/mass-label/mz-label/fragment)'}))
    chk.oracle('mz_rounding', rcases, oracle_mz_rounding, nontrivial_fn=lambda c: c[4] is not None and c[3] > 1,
               key_fn=lambda c: json.dumps(c[:5]))

    # ---- state kept on a reused object: one Fragmenter through a sequence of related requests; two objects interleaved
    hcases = []
    for _ in range(250 if tier == 'quick' else 3000):
        a = gen_peptide(rng, ambiguous_p=0.0, min_len=2, max_len=8)
        two = rng.random() < 0.35
        dumps = [annot.dump(a)]
        if two:
            dumps.append(annot.dump(gen_peptide(rng, ambiguous_p=0.0, min_len=2, max_len=8)))
        monos = [rng.random() < 0.7 for _ in dumps]
        reqs = gen_history(rng, a.sequence)
        if two and rng.random() < 0.5:
            reqs = reqs + gen_history(rng, a.sequence)[:3]
        steps = [[rng.randrange(len(dumps)), r] for r in reqs]
        hcases.append((dumps, monos, steps,
                       {'peptides': [annot.undump(d).serialize() for d in dumps],
                        'call': 'objects[i] = peptacular.Fragmenter(peptides[i], monoisotopic[i]); for (i, request) in steps: '
                                'objects[i].fragment(**request without monoisotopic) must equal '
                                'peptacular.fragment(peptides[i], monoisotopic=monoisotopic[i], **request)',
                        'rerun': './check C04 --replay <this file>'}))
    chk.oracle('fragmenter_history', hcases, oracle_history, nontrivial_fn=lambda c: len(c[2]) >= 3,
               key_fn=lambda c: json.dumps(c[:3], sort_keys=True))
    chk.count('history-cases', len(hcases))
    chk.count('history-steps', sum(len(c[2]) for c in hcases))
    chk.count('history-two-objects', sum(len(c[0]) == 2 for c in hcases))

    # ---- the calls recorded at the start, re-issued after all the history this run has produced
    def o_again(c):
        now = answer_text(c[0], c[1])
        if now != c[2]:
            return (f'AGAIN fragment({annot.undump(c[0]).serialize()!r}, **{json.dumps(c[1])}) answered differently at the end of the '
                    f'run than at its start: {now[:300]} vs {c[2][:300]}')
        return None
    chk.oracle('fragment_reissued_at_end', first_answers, o_again, nontrivial_fn=lambda c: len(c[2]) > 2,
               key_fn=lambda c: c[0] + json.dumps(c[1], sort_keys=True))

    chk.notes.append('correspondence + oracle: %.1f s' % (time.time() - t0))
    if tier == 'thorough':
        chk.leanchecker(['PeptVerif.Model.Fragment', 'PeptVerif.Lemmas.Fragment', 'PeptVerif.Lemmas.FragmentMass',
                         'PeptVerif.Lemmas.FragmentLabel',
                         'PeptVerif.Props.C04', 'PeptVerif.Props.C04Mass', 'PeptVerif.Generated.FragCorePy',
                         'PeptVerif.Props.C04Gen'])
    return chk.finish(classify)


def _strip_terminal_static(a):
    Mod, _ = _mods_api()
    b = copy.deepcopy(a)
    new = []
    for m in (b._static_mods or []):
        v = str(m.val)
        head, _, targets = v.rpartition('@')
        keep = [t for t in targets.split(',') if t.strip() not in ('N-Term', 'C-Term')]
        if keep:
            new.append(Mod(head + '@' + ','.join(keep), m.mult))
    b._static_mods = new or None
    return b


def classify(f):
    """known findings; only failures that structurally match (and disappear when the feature is removed)"""
    if f.get('oracle') != 'fragment_property' or not str(f.get('detail', '')).startswith('MASS '):
        return None
    dump, req = f['case'][0], f['case'][1]
    a = annot.undump(dump)
    if has_terminal_static(a):
        if oracle_case((annot.dump(_strip_terminal_static(a)), req)) is None:
            return 'KF-C04-terminal-static-per-residue'
    return None


def replay(chk, obj):
    case = obj.get('case')
    if not case:
        print(json.dumps(obj, indent=1))
        return 0
    if obj.get('oracle') == 'fragmenter_history':
        r = oracle_history(case)
        print('peptides:', case[3]['peptides'] if len(case) > 3 else case[0])
        for i, req in case[2]:
            print('  object', i, json.dumps(req))
        print('result  :', 'property holds' if r is None else r)
        return 0 if r is None else 1
    if obj.get('oracle') == 'mz_rounding':
        r = oracle_mz_rounding(case)
        print('peptide :', annot.undump(case[0]).serialize(), ' ion types', case[1], ' isotope', case[2], ' charge', case[3],
              ' precision', case[4])
        print('result  :', 'property holds' if r is None else r)
        return 0 if r is None else 1
    if obj.get('oracle') == 'fragment_reissued_at_end':
        now = answer_text(case[0], case[1])
        print('peptide :', annot.undump(case[0]).serialize())
        print('request :', json.dumps(case[1]))
        print('result  :', 'same answer as recorded' if now == case[2] else 'differs from the recorded answer')
        return 0 if now == case[2] else 1
    r = oracle_case(tuple(case))
    a = annot.undump(case[0])
    print('peptide :', a.serialize())
    print('request :', json.dumps(case[1]))
    print('result  :', 'property holds' if r is None else r)
    return 0 if r is None else 1
