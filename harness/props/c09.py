"""C09 - the parser is total: any text is either accepted or rejected with a format error; deferred validation."""
import itertools
import json
import multiprocessing
import os
import signal
import subprocess

from .. import core
from ..annot import esc
from . import c01_lib as L

PID = 'C09'
DRV = L.DRV09

REGISTRY = {
    'id': 'C09',
    'text': 'Lean theorems about the executable parser model shared with C01: every loop is a well-founded recursion on the remaining '
            'input (never hangs), the chain loop always consumes input (parseChains_never_hangs), and for EVERY input string the '
            'repaired parser returns an annotation or an error of the ValueError family (parse_total; the IndexError/TypeError of the '
            'code before the fix commit are decide-checked counter-examples); the serializer is a total function. Model tied to /repo '
            'by exhaustive correspondence over all strings of <=4 (quick) / <=5 (thorough) tokens of the notation alphabet, random '
            'strings of <=40 tokens and single-token mutations of valid strings; exception-class and deferred-validation oracles run on '
            'the real code (parse, serialize, is_sequence_valid, mass, comp). Extension (Props/C09Ext, 8 theorems): the deferred-validation '
            'clause for the fast path of mass inside Lean, over the mass model of C02 with the modification resolver as a parameter: '
            'Dispatch.reachedPlaced / reachedStatic list the fields handed to mod_mass (labile only for ion type p; static rules whether or '
            'not the target occurs); the block returns a number iff every reached field resolves, an unresolvable reached field always '
            'raises, every error is the error of a reached field or of a named stage (fastMass_error_cases); the reached list is tied to '
            '/repo by comparing it with the recorded mod_mass calls of the real mass and the predicted accept/reject decision with the '
            'real outcome (mass_resolver_dispatch). Props/C09Ion (3 theorems): parse_ion_elements (the sub-parser of every charge-adduct ion; '
            'Model/C09Ion.lean, structural recursions) returns a value or raises ValueError for EVERY text and element table '
            '(parseIon_total; TypeError before fix e1f2554 is a checked counter-example) and an accepted symbol is e or a table key '
            '(parseIon_symbol_known); tied by correspondence parse_ion_elements (grammar-built ions over the real table, every string of '
            '<=3 / <=4 tokens of a 22-token alphabet, random and mutated strings)',
    'note': 'trusted: Lean kernel, axioms propext/Classical.choice/Quot.sound, the correspondence harness; non-ASCII text and CPython\'s '
            '4300-digit int limit are outside the model; deferred-validation clause: Lean theorems only for the fast path of mass (no isotope '
            'label in force) with the resolver mod_mass and parse_static_mods as parameters; comp / the label path / mz and the resolver '
            'itself (C10) are checked by the oracles on the real code only',
    'technique': 'Lean 4 proof about executable model + differential correspondence',
}

BASE = 'PEPTIDE'
POSITIONS = {
    'labile': '{%s}PEPTIDE', 'unknown': '[%s]?PEPTIDE', 'nterm': '[%s]-PEPTIDE', 'cterm': 'PEPTIDE-[%s]',
    'internal': 'PEP[%s]TIDE', 'internal-first': 'P[%s]EPTIDE', 'internal-last': 'PEPTIDE[%s]', 'interval': 'PE(PT)[%s]IDE',
    'static-residue': '<[%s]@P>PEPTIDE', 'static-nterm': '<[%s]@N-Term>PEPTIDE', 'static-cterm': '<[%s]@C-Term>PEPTIDE',
    'multiplied': 'PEP[%s]^2TIDE', 'with-charge': 'PEP[%s]TIDE/2',
}
UNRESOLVABLE = ['NotAMod', 'UNIMOD:999999', 'U:NotAMod', 'U:999999', 'MOD:99999999', 'M:nothing', 'XLMOD:99999', 'X:nothing',
                'RESID:AA9999', 'R:nothing', 'GNO:G00000XX', 'G:nothing', 'Formula:Xx2', 'Formula:C2H3Qq', 'Formula:C2[13Qq2]',
                'Glycan:Foo', 'Glycan:Hex2Foo', 'Obs:abc', 'xyz|abc', 'NotAMod#g1', 'NotAMod|INFO:x', 'Oxidatio', 'oxidation ',
                'UNIMOD:', 'U:', 'Formula:C2H3]', 'unimod:35x', '35x', '+1.5x', 'C2H3NO']
ISOTOPE_BAD = ['13X', 'NotAMod', 'C13', '99C', '13C15N', 'Oxidation', '13c', 'x', '13', 'C-13', '13 C']
STATIC_BAD = ['a@', 'a@P', 'Oxidation@P', '@P', 'Oxidation]@P', '[Oxidation@P', '15.99@P', 'NotAMod@P,E']


# ----------------------------------------------------------------------------- bulk enumeration (multiprocess)

def _check_one(pt, seqfuncs, s):
    """implementation reply + oracle verdict for one string"""
    bad = None
    try:
        obj = pt.parse(s)
        im = L.dump_any(obj)
    except Exception as e:  # noqa
        nm = L.err_name(e)
        im = 'ERR:' + nm
        obj = None
        if not L.is_value_family(nm):
            bad = f'parse raises {type(e).__name__}: {e}'
    if obj is not None:
        for plus in (False, True):
            try:
                t = pt.serialize(obj, plus)
                if not isinstance(t, str):
                    bad = f'serialize returned {type(t).__name__}'
            except Exception as e:  # noqa
                bad = f'parse accepted the string but serialize(include_plus={plus}) raises {type(e).__name__}: {e}'
    if obj is not None and not hasattr(obj, 'annotations'):
        for name, fn in (('mass', pt.mass), ('comp', pt.comp), ('mz', pt.mz)):
            try:
                L.with_alarm(lambda: fn(s), 5.0)
            except ValueError:
                pass
            except Exception as e:  # noqa
                bad = bad or f'parse accepted the string but {name}({s!r}) raises {type(e).__name__}: {e} (not a ValueError)'
    try:
        v = seqfuncs.is_sequence_valid(s)
        single = obj is not None and not hasattr(obj, 'annotations')     # valid = parses to ONE annotation
        if v is not single:
            bad = bad or f'is_sequence_valid = {v!r} but parse {"returned a single annotation" if single else "rejected the string or returned several chains"}'
    except Exception as e:  # noqa
        bad = f'is_sequence_valid raises {type(e).__name__}: {e}'
    return im, bad


def _bulk_task(args):
    prefix, tokens, depth, exe = args
    import peptacular as pt
    from peptacular.sequence import sequence_funcs as seqfuncs
    strings = []
    for k in range(0, depth + 1):
        for t in itertools.product(tokens, repeat=k):
            strings.append(prefix + ''.join(t))
    data = ''.join('parse\t1\t' + esc(s) + '\n' for s in strings)
    p = subprocess.run([exe], input=data, capture_output=True, text=True)
    model = p.stdout.split('\n')[:-1]
    res = {'n': len(strings), 'disagree': [], 'fail': [], 'classes': {}, 'nontrivial': [], 'infra': None}
    if p.returncode != 0 or len(model) != len(strings):
        res['infra'] = f'driver failed on prefix {prefix!r}: rc={p.returncode} {p.stderr[-300:]}'
        return res

    def on_alarm(signum, frame):
        raise L.Hang()

    old = signal.signal(signal.SIGALRM, on_alarm)
    cur = None
    try:
        signal.setitimer(signal.ITIMER_REAL, 900)
        for s, m in zip(strings, model):
            cur = s
            im, bad = _check_one(pt, seqfuncs, s)
            key = im if im.startswith('ERR:') else 'ok'
            res['classes'][key] = res['classes'].get(key, 0) + 1
            if key == 'ok' and (('L' in im) or ('D' in im) or ('V' in im) or im[0] == 'M'):
                res['nontrivial'].append(s)
            if not L.same_reply(im, m) and len(res['disagree']) < 5:
                res['disagree'].append({'op': 'parse_exhaustive', 'line': 'parse\t1\t' + esc(s), 'impl': im[:500], 'model': m[:500]})
            if bad and len(res['fail']) < 5:
                res['fail'].append({'oracle': 'exception_class_exhaustive', 'case': s, 'detail': bad[:500]})
    except L.Hang:
        res['fail'].append({'oracle': 'exception_class_exhaustive', 'case': cur, 'detail': 'HANG: task exceeded its time limit at this string'})
    finally:
        signal.setitimer(signal.ITIMER_REAL, 0)
        signal.signal(signal.SIGALRM, old)
    return res


def bulk(chk, tokens, total_len, procs):
    """all strings of <= total_len tokens; tasks are split on the first min(2, total_len) tokens"""
    exe = os.path.join(core.LEAN, '.lake', 'build', 'bin', DRV)
    split = min(2, total_len)
    tasks = []
    # strings shorter than the split length
    tasks.append(('', tokens, split - 1 if split > 0 else 0, exe)) if split >= 1 else None
    for pre in itertools.product(tokens, repeat=split):
        tasks.append((''.join(pre), tokens, total_len - split, exe))
    if procs > 1:
        with multiprocessing.get_context('fork').Pool(procs) as pool:
            results = pool.map(_bulk_task, tasks, chunksize=max(1, len(tasks) // (procs * 4)))
    else:
        results = [_bulk_task(t) for t in tasks]
    st = chk.corr.setdefault('parse_exhaustive', {'evaluations': 0, 'disagreements': 0, 'samples': []})
    ost = chk.oracles.setdefault('exception_class_exhaustive', {'evaluations': 0, 'failures': 0, 'samples': []})
    for r in results:
        if r['infra']:
            raise core.InfraError(r['infra'])
        st['evaluations'] += r['n']
        ost['evaluations'] += r['n']
        chk.evaluations += 2 * r['n']
        for k, v in r['classes'].items():
            chk.count('exhaustive:' + k, v)
        for s in r['nontrivial']:
            chk.nontrivial.add('parse_exhaustive|' + s)
        for d in r['disagree']:
            st['disagreements'] += 1
            if len([x for x in chk.disagreements if x['op'] == 'parse_exhaustive']) < 5:
                chk.disagreements.append(d)
        for f in r['fail']:
            ost['failures'] += 1
            if len([x for x in chk.failures if x['oracle'] == 'exception_class_exhaustive']) < 5:
                chk.failures.append(f)
    st['samples'] = [{'line': 'parse\t1\t' + esc('[1]-P'), 'impl': L.impl_parse('[1]-P'), 'model': chk.driver(DRV, ['parse\t1\t' + esc('[1]-P')])[0]}]
    return st['evaluations']


# ----------------------------------------------------------------------------- resolver dispatch (extension, round 5)

DISPATCH_STATIC = ['[NotAMod]@P', '[Foo]@N-Term', '[Oxidation]@Q', '[UNIMOD:999999]@C-Term', '[Oxidation][Foo]@M', '[Phospho]^2@S,T',
                   '[Formula:Xx2]@W', '[Acetyl]@N-Term', '[Methyl]@C-Term,K']
DISPATCH_IONS = ['p', 'p', 'p', 'n', 'b', 'y', 'a', 'c', 'x', 'z']


def dispatch_stage(chk, quick):
    """Model/C09Dispatch.lean against the real `mass`: the list of modifications the fast path hands to `mod_mass`
    (recorded by replacing mass_calc.mod_mass with a recorder that never raises), and the accept/reject decision the
    theorems of Props/C09Ext derive from that list (raises iff a reached value is unresolvable by the real mod_mass;
    the class raised is the class mod_mass raises for the first unresolvable reached value)."""
    import warnings
    from peptacular import mass_calc
    from peptacular.proforma.proforma_parser import parse_static_mods
    from peptacular.proforma.proforma_dataclasses import Mod
    from .. import annot as A
    rng = chk.rng
    valid = A.NAMED + A.FORMULAS + A.GLYCANS + A.OTHER + A.NUMS
    pool = valid * 3 + UNRESOLVABLE
    kinds = ['labile', 'static', 'unknown', 'nterm', 'cterm', 'internal', 'intervals', 'charge']
    cases = []
    for _ in range(2500 if quick else 40000):
        a = A.gen_annotation(rng, min_len=1, max_len=9, kinds=kinds, value_pool=pool, p=rng.choice([0.15, 0.35, 0.6]))
        if a._static_mods is not None:
            rules = A.STATIC + DISPATCH_STATIC
            a._static_mods = [Mod(rng.choice(rules), 1) for _ in range(rng.randint(1, 3))]
        cases.append((a, rng.choice(DISPATCH_IONS), rng.random() < 0.6, rng.choice([None, None, 1, 2, 3])))

    def static_wire(a):
        if a._static_mods is None:
            return '-'
        d = parse_static_mods(a._static_mods)
        if not d:
            return '-'
        return ';'.join(esc(k) + '=' + '&'.join(A.show_mod(m) for m in ms) for k, ms in d.items())

    def line(c):
        a, ion, mono, charge = c
        return 'reached\t%s\t%s\t%s' % ('1' if ion == 'p' else '0', A.dump(a, sort_internal=False), static_wire(a))

    def call_mass(c):
        a, ion, mono, charge = c
        with warnings.catch_warnings():
            warnings.simplefilter('ignore')
            return mass_calc.mass(a, charge=charge, ion_type=ion, monoisotopic=mono)

    def impl(c):
        rec = []
        orig = mass_calc.mod_mass

        def recorder(mod, *args, **kw):
            rec.append(mod)
            return 0.0
        mass_calc.mod_mass = recorder
        try:
            call_mass(c)
        finally:
            mass_calc.mod_mass = orig
        calls = ';'.join(A.show_mod(m) if isinstance(m, Mod) else A.show_mod(Mod(m, 1)) for m in rec)
        try:
            v = call_mass(c)
            out = 'OK' if isinstance(v, float) else 'OK?' + type(v).__name__
        except Exception as e:  # noqa
            out = 'ERR:' + type(e).__name__ + (':VF' if isinstance(e, ValueError) else ':other')
        chk.count('dispatch outcome ' + out.split(':')[0])
        if c[1] != 'p' and c[0]._labile_mods:
            chk.count('dispatch: labile present, fragment ion type (not reached)')
        return 'R%s|%d|%s' % (calls, 1 if c[2] else 0, out)

    verdict = {}

    def resolver_verdict(wire, mono):
        k = (wire, mono)
        if k not in verdict:
            try:
                mass_calc.mod_mass(A.parse_mod(wire), mono)
                verdict[k] = None
            except Exception as e:  # noqa
                verdict[k] = type(e).__name__ + (':VF' if isinstance(e, ValueError) else ':other')
        return verdict[k]

    def compare(im, m):
        if not im.startswith('R') or not m.startswith('R') or im.count('|') != 2:
            return False
        calls, mono, out = im[1:].split('|')
        if calls != m[1:]:
            return False                 # the model's reached list is not the recorded call sequence
        expect = 'OK'
        for w in ([x for x in m[1:].split(';')] if m[1:] else []):
            v = resolver_verdict(w, mono == '1')
            if v is not None:
                expect = 'ERR:' + v      # the first unresolvable reached value decides, with its own exception class
                break
        return out == expect and (out == 'OK' or out.endswith(':VF'))

    chk.count('dispatch cases', len(cases))
    chk.correspond('mass_resolver_dispatch', DRV, cases, line, impl, compare=compare,
                   nontrivial_fn=lambda c, im: len(im) > 8 and 'ERR' in im)


# ----------------------------------------------------------------------------- parse_ion_elements (extension, round 5, goal (b))

ION_TOKENS = ['+', '-', '1', '2', '0', '_', ' ', '\t', '\x1c', 'H', 'Na', 'e', 'Mg', 'D', '13C', 'X', 'Foo', ',', '.', '[', 'n', '\x00']


def ion_stage(chk, quick):
    """Model/C09Ion.lean against the real `parse_ion_elements`: grammar-built (mostly valid) ions over the real element
    table, every string of <= 3 (quick) / <= 4 (thorough) tokens of ION_TOKENS, random longer token strings, and
    single-character mutations of valid ions. Oracle part: only ValueError may come out."""
    from peptacular.proforma import proforma_parser as pp
    from peptacular.constants import ISOTOPIC_ATOMIC_MASSES
    rng = chk.rng
    keys = list(ISOTOPIC_ATOMIC_MASSES)
    if not all(k.isascii() and ',' not in k for k in keys):
        raise core.InfraError('element table keys are not plain ASCII')
    keyarg = ','.join(esc(k) for k in keys)
    valid = []
    for _ in range(1500 if quick else 20000):
        sym = rng.choice(keys + ['e', 'e', 'H', 'Na', 'K'])
        cnt = rng.choice(['', '', '', '2', '3', '10', '01', '0'])
        sg = rng.choice(['+', '+', '-', '', '+-', '-+'])
        ch = rng.choice(['+', '+', '-', '2+', '2-', '+2', '', '1_0+', ' 2+', '+ 2 ', '02-', '+-', '10+'])
        valid.append(sg + cnt + sym + ch)
    exhaustive = ['']
    for n in range(1, (3 if quick else 4) + 1):
        exhaustive += [''.join(t) for t in itertools.product(ION_TOKENS, repeat=n)]
    rnd = [''.join(rng.choice(ION_TOKENS) for _ in range(rng.randint(4, 9))) for _ in range(3000 if quick else 60000)]
    muts = []
    for v in valid[:: 2]:
        i = rng.randint(0, len(v))
        t = rng.choice(ION_TOKENS)
        muts.append(rng.choice([v[:i] + t + v[i:], v[:i] + v[i + 1:], v[:i] + t + v[i + 1:], v[:i] + v[i:i + 1] * 2 + v[i + 1:]]))
    cases = valid + exhaustive + rnd + muts
    chk.count('ion strings: grammar-built', len(valid))
    chk.count('ion strings: exhaustive', len(exhaustive))
    chk.count('ion strings: random + mutated', len(rnd) + len(muts))

    def impl(t):
        try:
            cnt, sym, ch = pp.parse_ion_elements(t)
        except Exception as e:  # noqa
            r = 'ERR:' + L.err_name(e)
            chk.count('ion outcome ' + r)
            return r
        chk.count('ion outcome ok')
        if type(cnt) is not int or type(ch) is not int or type(sym) is not str:
            return 'TYPES:%r' % ((cnt, sym, ch),)
        return 'I%d,%s,%d' % (cnt, esc(sym), ch)

    chk.correspond('parse_ion_elements', DRV, cases, lambda t: 'ion\t1\t%s\t%s' % (esc(t), keyarg), impl,
                   nontrivial_fn=lambda t, im: im.startswith('I') and len(t) > 2)

    def o_ion(t):
        try:
            cnt, sym, ch = pp.parse_ion_elements(t)
        except ValueError:
            return None
        except Exception as e:  # noqa
            return 'parse_ion_elements(%r) raises %s: %s (not a ValueError)' % (t, type(e).__name__, e)
        if sym != 'e' and sym not in ISOTOPIC_ATOMIC_MASSES:
            return 'parse_ion_elements(%r) accepts the unknown element symbol %r' % (t, sym)
        return None

    chk.oracle('parse_ion_elements_total', cases, o_ion, nontrivial_fn=lambda t: len(t) > 2)


# ----------------------------------------------------------------------------- run

def run(chk):
    pt, pp, Mod, Interval, PFE = L._mods()
    from peptacular.sequence import sequence_funcs as seqfuncs
    tier = chk.tier
    rng = chk.rng
    quick = tier == 'quick'
    chk.lean_build(['PeptVerif.Props.C09', 'PeptVerif.Props.C09Ext', 'PeptVerif.Props.C09Ion'], DRV)
    chk.trusted += [
        'modelled: _ProFormaParser (all phases, cursor, chain loop), _is_unmodified, parse, convert_type on ASCII, the serializer; '
        'Python exception classes are values of Err (ProFormaFormatError, ValueError, IndexError, TypeError, ...); '
        'modelled (extension): which modification fields the fast path of mass hands to mod_mass, in call order (Dispatch.reachedPlaced, '
        'Dispatch.reachedStatic; correspondence mass_resolver_dispatch records the real calls); '
        'parse_ion_elements with _pop_ion_count / _pop_ion_symbol / _pop_ion_charge and int() on sign-free ASCII text (Model/C09Ion.lean; the '
        'element table is a parameter, the driver is given the real keys); '
        'not modelled: mod_mass / mod_comp / parse_static_mods / parse_isotope_mods themselves (parameters of the theorems; oracle-only), '
        'is_sequence_valid (oracle: True iff parse accepts), non-ASCII input, the 4300-digit int limit',
    ]

    chk.assumptions += [
        'input text is ASCII (CPython int()/float()/str.isdigit also accept non-ASCII digits and spaces: outside the model)',
        'strings shorter than CPython\'s 4300-digit int conversion limit',
        'deferred-validation clause: the dispatch of the fast path of mass is modelled (Model/C09Dispatch.lean over Model/Mass.lean) with '
        'mod_mass and parse_static_mods as parameters; comp, the isotope-label path and the resolver itself: real code only',
    ]

    def oracle_exc(s):
        _, bad = L.with_alarm(lambda: _check_one(pt, seqfuncs, s), 10.0)
        return bad

    # ------------------------------------------------------------------ corpus first
    corpus = [c['s'] for c in L.load_corpus(PID) if c.get('op') == 'parse']
    reach = L.Reach(serializer=False)
    reach.__enter__()
    chk.correspond('parse_corpus', DRV, corpus, lambda s: 'parse\t1\t' + esc(s), L.impl_parse, compare=L.same_reply)
    chk.oracle('exception_class', corpus, oracle_exc)

    # ------------------------------------------------------------------ exhaustive over the token alphabet
    depth = 4 if quick else 5
    procs = min(6 if quick else 16, os.cpu_count() or 1)
    n_ex = bulk(chk, L.TOKENS, depth, procs)
    chk.exhaustive = True
    chk.count('exhaustive strings', n_ex)

    # quick tier: a random sample of the 5- and 6-token strings as well
    sample = []
    if quick:
        for _ in range(12000):
            k = rng.choice([5, 5, 6])
            sample.append(''.join(rng.choice(L.TOKENS) for _ in range(k)))

    # ------------------------------------------------------------------ every short VALUE at every modification position
    # (the fully exhaustive <=5-token enumeration above reaches these only in the thorough tier: '<[@[>' has 5 tokens)
    vals1 = [''] + L.TOKENS
    vals2 = vals1 + [a + b for a in L.TOKENS for b in L.TOKENS]
    structured = []
    for v in vals2:
        structured += ['P[%s]E' % v, '{%s}PE' % v, '[%s]-PE' % v, '[%s]?PE' % v, 'PE-[%s]' % v, '(PE)[%s]' % v, 'PE/1[%s]' % v,
                       '<%s>PE' % v, 'PE/1[+Na+][%s]' % v, 'PE/%s' % v, 'PE[Oxidation]^%s' % v]
        for t in vals1:
            structured.append('<[%s]@%s>PE' % (v, t))
    if quick:
        structured = structured[:: 2] + ['<[@[>', 'PE/2[1]', 'PE/2[+Na+][+Foo+]', '<[Foo]@C>PE']
    chk.count('structured value strings', len(structured))
    chk.oracle('exception_class_structured', structured, oracle_exc, nontrivial_fn=lambda s: len(s) > 3)

    # ------------------------------------------------------------------ random <= 40 tokens, structured noise
    rnd = []
    for _ in range(6000 if quick else 150000):
        k = rng.randint(1, 40)
        alpha = L.TOKENS if rng.random() < 0.5 else L.TOKENS_WIDE
        rnd.append(''.join(rng.choice(alpha) for _ in range(k)))
    # mutations of valid strings
    gen = L.Gen(rng, chk)
    valid = [gen.proforma(rng.choice([False, True, 'mixed']))[0] for _ in range(1500 if quick else 30000)]
    valid += L.test_strings()
    muts = []
    for s in valid:
        m = L.mutate(rng, s)
        muts.append(m)
        if rng.random() < 0.3:
            muts.append(L.mutate(rng, m))
    # truncations (a bracket group that ends the input, ...)
    trunc = []
    for s in valid[:: (3 if quick else 2)]:
        i = rng.randint(0, len(s))
        trunc.append(s[:i])
        trunc.append(s[i:])
    allrand = sample + rnd + muts + trunc
    chk.count('random strings', len(rnd) + len(sample))
    chk.count('mutations', len(muts))
    chk.count('truncations', len(trunc))

    def nontriv(c, im):
        return im[:1] in 'AM' and ('L' in im or 'D' in im or 'V' in im or im[0] == 'M')

    chk.correspond('parse_random', DRV, allrand, lambda s: 'parse\t1\t' + esc(s), L.impl_parse, compare=L.same_reply,
                   nontrivial_fn=nontriv)
    reach.__exit__()
    chk.notes.append({'reach_of_modelled_parser_functions_during_corpus_and_random_correspondence': reach.report()})
    chk.oracle('exception_class', allrand, oracle_exc, nontrivial_fn=lambda s: len(s) > 3)
    # how the rejected / accepted classes are distributed in the random stream
    for s in allrand[:: 7]:
        r = L.impl_parse(s)
        chk.count('random:' + (r if r.startswith('ERR:') else 'ok'))

    # ------------------------------------------------------------------ deferred validation
    def dv_plain(tpl):
        for pat in ('[%s]^2', '[%s]?', '[%s]-', '-[%s]', '<[%s]@P>', '<[%s]@N-Term>', '<[%s]@C-Term>', '{%s}', '[%s]'):
            tpl = tpl.replace(pat, '')
        return tpl

    dv_cases = [(c['pos'], c['s'], c['plain']) for c in L.load_corpus(PID) if c.get('op') == 'deferred']
    for pos, tpl in POSITIONS.items():
        for v in UNRESOLVABLE:
            dv_cases.append((pos, tpl % v, dv_plain(tpl)))
    for v in ISOTOPE_BAD:
        dv_cases.append(('isotope', '<%s>PEPTIDE' % v, 'PEPTIDE'))
    for v in STATIC_BAD:
        dv_cases.append(('static-malformed', '<%s>PEPTIDE' % v, 'PEPTIDE'))

    def o_deferred(c):
        pos, s, plain = c
        try:
            L.with_alarm(lambda: pt.parse(s))
        except ValueError:
            return None        # rejected at parse time with a format error: nothing is counted
        except Exception as e:  # noqa
            return f'parse raises {type(e).__name__}'
        for name, fn in (('mass', pt.mass), ('comp', pt.comp)):
            try:
                got = L.with_alarm(lambda: fn(s))
            except ValueError:
                continue
            except Exception as e:  # noqa
                return f'{name}({s!r}) raises {type(e).__name__}: {e} (not a ValueError)'
            ref = fn(plain)
            if got == ref:
                return (f'{name}({s!r}) = {got!r} equals {name}({plain!r}): the unresolvable value at position {pos} is silently '
                        f'counted as zero')
        return None

    chk.oracle('deferred_validation', dv_cases, o_deferred, key_fn=lambda c: c[1])
    # sanity of the oracle itself: a resolvable value at every position changes the mass
    def o_resolvable(c):
        pos, tpl = c
        s = tpl % 'Oxidation'
        plain = dv_plain(tpl)
        if pt.mass(s) == pt.mass(plain) or pt.comp(s) == pt.comp(plain):
            return f'a resolvable modification at position {pos} does not change mass/comp: the oracle would be blind there'
        return None

    chk.oracle('deferred_validation_sensitivity', list(POSITIONS.items()), o_resolvable, key_fn=lambda c: c[0])

    # ------------------------------------------------------------------ deferred validation next to VALID neighbours
    # an unresolvable / malformed value must never be masked by valid modifications of the same kind at the same
    # position or target: 0-2 valid neighbours, every order, several rules / labels / groups
    SEQ = 'PEMTIDE'
    VALID = ['Oxidation', 'Phospho', 'Formula:C2H2O', 'UNIMOD:1', 'Acetyl', '+15.5', 'Methyl']

    def groups(mods, o='[', c=']'):
        return ''.join(o + m + c for m in mods)

    KINDS = {
        'labile': lambda ms: groups(ms, '{', '}') + SEQ,
        'unknown': lambda ms: (groups(ms) + '?' if ms else '') + SEQ,
        'nterm': lambda ms: (groups(ms) + '-' if ms else '') + SEQ,
        'cterm': lambda ms: SEQ + ('-' + groups(ms) if ms else ''),
        'residue': lambda ms: 'PEM' + groups(ms) + 'TIDE',
        'residue-first': lambda ms: 'P' + groups(ms) + 'EMTIDE',
        'residue-last': lambda ms: SEQ + groups(ms),
        'interval': lambda ms: 'PE(MT)' + groups(ms) + 'IDE',
        'static-one-rule': lambda ms: ('<' + groups(ms) + '@M>' if ms else '') + SEQ,
        'static-rules-same-target': lambda ms: ''.join('<[%s]@M>' % m for m in ms) + SEQ,
        'static-rules-nterm': lambda ms: ''.join('<[%s]@N-Term>' % m for m in ms) + SEQ,
        'static-rules-cterm': lambda ms: ''.join('<[%s]@C-Term>' % m for m in ms) + SEQ,
        'static-and-residue': lambda ms: ''.join('<[%s]@M>' % m for m in ms[:1]) + 'PEM' + groups(ms[1:]) + 'TIDE',
    }

    def arrangements(bad, r):
        v1, v2 = r.sample(VALID, 2)
        return [[bad], [v1, bad], [bad, v1], [v1, bad, v2], [v1, v2, bad], [bad, v1, v2]]

    nb_cases = []      # (kind, text, text without the bad value, text with the bad value alone)
    bads = UNRESOLVABLE if not quick else UNRESOLVABLE[:: 2] + ['NotAMod', 'Formula:C2H3Qq']
    for kind, mk in KINDS.items():
        for bad in bads:
            if kind == 'labile' and '}' in bad:
                continue
            for arr in arrangements(bad, rng):
                nb_cases.append((kind, mk(arr), mk([m for m in arr if m != bad]), mk([bad])))
    # whole global rules that are malformed, next to well-formed rules (shared target, multi-target, disjoint target)
    BAD_RULES = ['Foo@M', '@M', 'UNIMOD:99999999@M', 'Oxidation@M', 'Foo@M,T', 'Foo@N-Term', 'Foo@C-Term', '15.99@M', 'a@',
                 'Oxidation]@M']
    GOOD_RULES = ['[Oxidation]@M', '[Phospho]@M,T', '[Acetyl]@N-Term', '[Methyl]@C-Term', '[+15.5]@M', '[Oxidation]@T',
                  '[Formula:C2H2O]@M,N-Term', '[Oxidation][Methyl]@M']

    def rules(rs):
        return ''.join('<' + x + '>' for x in rs) + SEQ

    for bad in BAD_RULES:
        for g1 in GOOD_RULES:
            for arr in ([bad], [g1, bad], [bad, g1]):
                nb_cases.append(('static-malformed-rule', rules(arr), rules([x for x in arr if x != bad]), rules([bad])))
            g2 = rng.choice(GOOD_RULES)
            for arr in ([g1, bad, g2], [g1, g2, bad], [bad, g1, g2]):
                nb_cases.append(('static-malformed-rule', rules(arr), rules([x for x in arr if x != bad]), rules([bad])))
    GOOD_ISO = ['13C', '15N', '18O', 'D', '34S']
    for bad in ISOTOPE_BAD:
        for g1 in GOOD_ISO:
            g2 = rng.choice([g for g in GOOD_ISO if g != g1])
            for arr in ([bad], [g1, bad], [bad, g1], [g1, bad, g2], [g1, g2, bad], [bad, g1, g2]):
                nb_cases.append(('isotope-labels', rules(arr), rules([x for x in arr if x != bad]), rules([bad])))
    # a bad isotope label or a bad rule next to valid rules / labels of the OTHER global kind
    for bad in BAD_RULES[:4]:
        nb_cases.append(('static-malformed-rule', rules(['13C', bad]), rules(['13C']), rules([bad])))
    for bad in ISOTOPE_BAD[:4]:
        nb_cases.append(('isotope-labels', rules(['[Oxidation]@M', bad]), rules(['[Oxidation]@M']), rules([bad])))
    # charge adducts: one bracket group, comma separated ions
    GOOD_ADD = ['+H+', '+Na+', '+K+', '-H+', '+2Na+']
    BAD_ADD = ['+Foo+', 'Foo', '+2Xx+', '', '+', '2+', 'NotAnIon+', '+H+Foo', '1', '1.5', '-1', '+']

    def adducts(ions):
        return SEQ + '/2[' + ','.join(ions) + ']'

    for bad in BAD_ADD:
        for g1 in GOOD_ADD:
            g2 = rng.choice(GOOD_ADD)
            for arr in ([bad], [g1, bad], [bad, g1], [g1, bad, g2], [g1, g2, bad], [bad, g1, g2]):
                good = [x for x in arr if x is not bad]
                nb_cases.append(('adducts', adducts(arr), adducts(good) if good else SEQ + '/2', adducts([bad])))
    # several adduct GROUPS: every group counts and is validated
    def adduct_groups(ions):
        return SEQ + '/2' + ''.join('[' + x + ']' for x in ions)

    for bad in BAD_ADD:
        for g1 in GOOD_ADD[:3]:
            g2 = rng.choice(GOOD_ADD)
            for arr in ([g1, bad], [bad, g1], [g1, bad, g2], [g1, g2, bad]):
                good = [x for x in arr if x is not bad]
                nb_cases.append(('adduct-groups', adduct_groups(arr), adduct_groups(good), adduct_groups([bad])))
    # a global rule whose target residue does not occur in the sequence is resolved all the same
    for bad in bads:
        for arr in (['[%s]@C' % bad], ['[Oxidation]@M', '[%s]@C' % bad], ['[%s]@C' % bad, '[Oxidation]@C'],
                    ['[%s]@W,C' % bad], ['[Oxidation][%s]@C' % bad]):
            good = [x for x in arr if bad not in x or bad == '']
            if bad == '':
                good = [x for x in arr if x.startswith('[Oxidation]@')]
            nb_cases.append(('static-absent-target', rules(arr), rules(good), rules(['[%s]@C' % bad])))
    # targets are literal text, never patterns
    for tgt in ('.', '(', '[', 'P|E', '*', '\\', '^P', '$', '?', '+', '{2}'):
        nb_cases.append(('static-target-literal', rules(['[NotAMod]@' + tgt]), rules([]), rules(['[NotAMod]@' + tgt])))
    chk.count('deferred-validation neighbour cases', len(nb_cases))

    FUNCS = (('mass', pt.mass), ('comp', pt.comp), ('comp_mass', pt.comp_mass), ('mz', pt.mz),
             ('condense_static_mods', pt.condense_static_mods))

    def call(fn, text):
        """('ok', value) | ('ve', class name) | ('exc', description)"""
        try:
            return 'ok', L.with_alarm(lambda: fn(text))
        except ValueError as e:
            return 've', type(e).__name__
        except Exception as e:  # noqa
            return 'exc', f'{type(e).__name__}: {e}'

    def o_neighbours(c):
        kind, text, without, alone = c
        try:
            pt.parse(text)
        except ValueError:
            return None            # rejected by the parser: nothing to defer
        except Exception as e:  # noqa
            return f'parse raises {type(e).__name__}'
        for name, fn in FUNCS:
            if name == 'condense_static_mods' and (not kind.startswith('static') or kind in ('static-absent-target', 'static-target-literal')):
                continue    # a purely textual rewrite: it resolves no names, and a rule without target has nothing to rewrite
            st, val = call(fn, text)
            if st == 'exc':
                return f'{name}({text!r}) raises {val} (not a ValueError)'
            if st == 've':
                continue
            if kind == 'static-absent-target':
                # the rule must be resolved exactly as if its target occurred (comp keeps unknown element symbols of a
                # Formula: that is not an error with a target present, so it is none without)
                st_present, _ = call(fn, text.replace('@C>', '@M>').replace('@W,C>', '@W,M>'))
                if st_present == 've':
                    return (f'{name}({text!r}) = {val!r}: the rule is not resolved because its target residue does not occur '
                            f'(with the target present the call raises a ValueError)')
                continue
            st_alone, _ = call(fn, alone)
            if st_alone == 've':
                return (f'{name}({alone!r}) raises a ValueError but {name}({text!r}) = {val!r}: the unresolvable value is masked by '
                        f'its valid neighbours')
            st_ref, ref = call(fn, without)
            if st_ref == 'ok' and ref == val:
                return (f'{name}({text!r}) = {val!r} equals {name}({without!r}): the unresolvable value ({kind}) is silently '
                        f'counted as zero')
        return None

    chk.oracle('deferred_validation_neighbours', nb_cases, o_neighbours, key_fn=lambda c: c[1],
               nontrivial_fn=lambda c: c[1] != c[3])

    # where no error is expected: a second valid modification / rule / label adds exactly its own contribution
    def o_additive(c):
        kind, a_only, b_only, both_ab, both_ba, none = c
        m0, ma, mb, mab, mba = (pt.mass(x) for x in (none, a_only, b_only, both_ab, both_ba))
        if abs((mab - ma) - (mb - m0)) > 1e-6:
            return (f'mass({both_ab!r}) - mass({a_only!r}) = {mab - ma!r} but the second one alone adds {mb - m0!r} ({kind}): a valid '
                    f'neighbour changes what a modification contributes')
        if abs(mab - mba) > 1e-6:
            return f'mass depends on the order: {both_ab!r} -> {mab!r}, {both_ba!r} -> {mba!r}'
        if abs(mb - m0) < 1e-9 or abs(ma - m0) < 1e-9:
            return f'a valid modification contributes nothing ({kind}): {a_only!r} / {b_only!r}'
        try:
            cs = [pt.comp(x) for x in (none, a_only, b_only, both_ab)]
        except ValueError:
            return None            # numeric mass shifts have no composition
        keys = set().union(*cs)
        for k in keys:
            d_ab = cs[3].get(k, 0) - cs[1].get(k, 0)
            d_b = cs[2].get(k, 0) - cs[0].get(k, 0)
            if abs(d_ab - d_b) > 1e-9:
                return f'comp: element {k} changes by {d_ab} when the second modification is added to {a_only!r}, by {d_b} alone ({kind})'
        return None

    add_cases = []
    for kind, mk in KINDS.items():
        for _ in range(4 if quick else 12):
            v1, v2 = rng.sample(VALID, 2)
            add_cases.append((kind, mk([v1]), mk([v2]), mk([v1, v2]), mk([v2, v1]), mk([])))
    for g1 in GOOD_RULES:
        for g2 in GOOD_RULES:
            if g1 != g2:
                add_cases.append(('static-rules', rules([g1]), rules([g2]), rules([g1, g2]), rules([g2, g1]), rules([])))
    for g1, g2 in itertools.permutations(['13C', '15N', '18O', 'D'], 2):
        add_cases.append(('isotope-labels', rules([g1]), rules([g2]), rules([g1, g2]), rules([g2, g1]), rules([])))
    chk.oracle('valid_neighbours_additive', add_cases, o_additive, key_fn=lambda c: c[3])

    # ------------------------------------------------------------------ deferred validation x call parameters, x history
    import inspect
    SIGS = {name: set(inspect.signature(fn).parameters) for name, fn in
            (('mass', pt.mass), ('mz', pt.mz), ('comp', pt.comp), ('comp_mass', pt.comp_mass))}
    FN = {'mass': pt.mass, 'mz': pt.mz, 'comp': pt.comp, 'comp_mass': pt.comp_mass}

    def pcall(name, text, params):
        """call with the parameters the function knows; ('ok', v) | ('ve', cls) | ('exc', text)"""
        kw = {k: v for k, v in params.items() if k in SIGS[name]}
        fn = FN[name]
        try:
            return 'ok', L.with_alarm(lambda: fn(text, **kw))
        except ValueError as e:
            return 've', type(e).__name__
        except Exception as e:  # noqa
            return 'exc', f'{type(e).__name__}: {e}'

    PARAM_VALUES = {'charge': [None, -2, -1, 0, 1, 2], 'ion_type': ['p', 'n', 'b', 'y'], 'monoisotopic': [True, False],
                    'isotope': [0, 1], 'precision': [None, 3], 'use_isotope_on_mods': [False, True]}

    def one_factor_params():
        out = [{}]
        for k, vs in PARAM_VALUES.items():
            for v in vs[1:]:
                out.append({k: v})
        return out

    def random_params(r):
        return {k: r.choice(vs) for k, vs in PARAM_VALUES.items() if r.random() < 0.7}

    def with_context(text, zstr, label):
        """put a charge `/z` (if the text has none) and a global isotope label into the string"""
        t = text
        if zstr is not None and '/' not in t:
            t = t + '/%d' % zstr
        if label:
            t = '<13C>' + t
        return t

    def o_params(c):
        kind, text, without, params = c
        if kind == 'labile' and params.get('ion_type', 'p') != 'p':
            return None        # labile modifications are by definition not part of fragment ions (mass_calc: ion_type == 'p')
        try:
            pt.parse(text)
        except ValueError:
            return None
        for name in ('mass', 'mz', 'comp', 'comp_mass'):
            st, val = pcall(name, text, params)
            if st == 'exc':
                return f'{name}({text!r}, **{params}) raises {val} (not a ValueError)'
            if st == 've':
                continue
            st_ref, ref = pcall(name, without, params)
            if st_ref == 'exc':
                return f'{name}({without!r}, **{params}) raises {ref} (not a ValueError) for a VALID string'
            if st_ref == 'ok' and (ref == val or (ref != ref and val != val)):
                return (f'{name}({text!r}, **{params}) = {val!r} equals the value for {without!r}: the unresolvable value '
                        f'({kind}) is silently counted as zero for these parameters')
        return None

    pr_cases = []
    pbads = ['NotAMod', 'Formula:C2H3Qq', 'U:999999', 'Glycan:Foo', '', 'Oxidatio']
    for kind, mk in KINDS.items():
        for bad in pbads:
            if kind == 'labile' and '}' in bad:
                continue
            v1 = rng.choice(VALID)
            for arr in ([bad], [v1, bad]):
                text, without = mk(arr), mk([m for m in arr if m != bad])
                combos = one_factor_params() + [random_params(rng) for _ in range(3 if quick else 25)]
                for prm in combos:
                    zs = rng.choice([None, None, -2, -1, 0, 1, 2])
                    lab = rng.random() < 0.3
                    pr_cases.append((kind, with_context(text, zs, lab), with_context(without, zs, lab), prm))
    # the adduct group: every charge in the string x every charge argument (a boundary value must not switch validation off)
    for bad in BAD_ADD:
        for zs in (-2, -1, 0, 1, 2):
            for za in (None, -2, -1, 0, 1, 2):
                for arr in ([bad], ['+Na+', bad]):
                    good = [x for x in arr if x is not bad]
                    text = SEQ + '/%d[' % zs + ','.join(arr) + ']'
                    without = SEQ + '/%d' % zs + ('[' + ','.join(good) + ']' if good else '')
                    for extra in ({}, {'monoisotopic': False}, {'ion_type': 'b'}, {'ion_type': 'y', 'isotope': 1}):
                        lab = rng.random() < 0.25
                        prm = dict(extra)
                        if za is not None:
                            prm['charge'] = za
                        pr_cases.append(('adducts', ('<13C>' if lab else '') + text, ('<13C>' if lab else '') + without, prm))
    for bad in ISOTOPE_BAD:
        for prm in one_factor_params():
            pr_cases.append(('isotope-labels', rules(['13C', bad]), rules(['13C']), prm))
    for bad in BAD_RULES:
        for prm in one_factor_params():
            pr_cases.append(('static-malformed-rule', rules(['[Oxidation]@M', bad]), rules(['[Oxidation]@M']), prm))
    chk.count('deferred-validation parameter cases', len(pr_cases))
    chk.oracle('deferred_validation_parameters', pr_cases, o_params, key_fn=lambda c: c[1] + repr(sorted(c[3].items())),
               nontrivial_fn=lambda c: bool(c[3]))

    # a VALID adduct / label / modification contributes for every parameter combination (nothing is switched off silently)
    def o_valid_counts(c):
        kind, text, without, params = c
        if kind == 'labile' and params.get('ion_type', 'p') != 'p':
            return None
        for name in ('mass', 'mz', 'comp'):
            st, val = pcall(name, text, params)
            if st == 'exc':
                return f'{name}({text!r}, **{params}) raises {val} (not a ValueError) for a VALID string'
            if st == 've':
                continue
            st_ref, ref = pcall(name, without, params)
            if st_ref == 'ok' and ref == val:
                return f'{name}({text!r}, **{params}) = {val!r} equals the value for {without!r}: a valid {kind} is ignored'
        return None

    vc_cases = []
    for zs in (-2, -1, 0, 1, 2):
        for za in (None, -2, 0, 2):
            for ion in ('+Na+', '+K+', '+2Na+', '+D+', '+T+', '+Li+'):
                for extra in ({}, {'monoisotopic': False}):
                    prm = dict(extra)
                    if za is not None:
                        prm['charge'] = za
                    vc_cases.append(('adduct', SEQ + '/%d[%s]' % (zs, ion), SEQ + '/%d' % zs, prm))
    for kind, mk in KINDS.items():
        for prm in one_factor_params():
            v = rng.choice(['Oxidation', 'Phospho', 'Formula:C2H2O'])
            vc_cases.append((kind, mk([v]), mk([]), prm))
    for g1, g2 in itertools.permutations(['+Na+', '+K+', '+Li+', '-H+'], 2):     # a second adduct group counts
        for extra in ({}, {'monoisotopic': False}, {'charge': 1}):
            vc_cases.append(('second adduct group', SEQ + '/2[%s][%s]' % (g1, g2), SEQ + '/2[%s]' % g1, dict(extra)))
    chk.oracle('valid_values_count_for_all_parameters', vc_cases, o_valid_counts,
               key_fn=lambda c: c[1] + repr(sorted(c[3].items())))

    # non-default flags systematically: every element symbol as adduct ion, every isotope label, formulas with isotopes,
    # both mass modes: a valid string never raises outside the ValueError family
    from peptacular.constants import ISOTOPIC_ATOMIC_MASSES as _ISO
    sweep = []
    for sym in _ISO:
        if not sym[0].isdigit():
            sweep.append(SEQ + '/1[+%s+]' % sym)
            sweep.append('PEP[Formula:%s2]TIDE' % sym)
        else:
            sweep.append('PEP[Formula:[%s2]H2]TIDE' % sym)
        sweep.append('<%s>%s' % (sym, SEQ))
    if quick:
        sweep = sweep[:: 3] + [SEQ + '/1[+D+]', SEQ + '/1[+T+]', '<D>' + SEQ, 'PEP[Formula:D2]TIDE']

    def o_flags(text):
        for name in ('mass', 'mz', 'comp'):
            for prm in ({}, {'monoisotopic': False}, {'monoisotopic': False, 'charge': 2}, {'ion_type': 'b', 'charge': 1},
                        {'use_isotope_on_mods': True}, {'monoisotopic': False, 'precision': 3}):
                st, val = pcall(name, text, prm)
                if st == 'exc':
                    return f'{name}({text!r}, **{prm}) raises {val} (not a ValueError)'
        return None

    chk.oracle('valid_strings_all_flags', sweep, o_flags)

    # history: the same unresolvable values AFTER a stream of valid calls that share text with them
    PRIMES = ['#g1(0.01)', '#g1', '#', 'Oxidation#g1', 'Phospho#g1(0.5)', 'Oxidation', 'Phospho', 'UNIMOD:35', 'U:Oxidation',
              'Formula:C2H3NO', 'Glycan:Hex', '+15.5', 'Obs:+1.5', 'Oxidation|INFO:x', 'INFO:x|Oxidation', 'M:00046', 'MOD:00046']
    hist_bads = sorted(set(bads + ['', ' ', 'INFO:x', 'oxidation', 'OXIDATION', 'Oxidatio', 'UNIMOD:', 'unimod:35',
                                   'Formula:', 'formula:C2H3NO', 'glycan:Hex', 'Glycan:hex', 'obs:+1.5', 'INFO:#g1', 'X#g1',
                                   'NotAMod#g1(0.01)', '#g1x']))
    for mono in (True, False):
        for kind, mk in KINDS.items():
            for v in PRIMES:
                for name in ('mass', 'comp', 'mz'):
                    pcall(name, mk([v]), {'monoisotopic': mono})
            for v in hist_bads:                       # the valid texts the bad value shares a prefix / case with
                for name in ('mass', 'comp'):
                    pcall(name, mk([v + '#g1']), {'monoisotopic': mono})
                    pcall(name, mk(['Oxidation', v]), {'monoisotopic': mono})
    hs_cases = []
    for kind, mk in KINDS.items():
        for bad in hist_bads:
            if kind == 'labile' and '}' in bad:
                continue
            for mono in (True, False):
                hs_cases.append((kind, mk([bad]), mk([]), {'monoisotopic': mono}))
                hs_cases.append((kind, mk(['Oxidation', bad]), mk(['Oxidation']), {'monoisotopic': mono}))
    # '#'-tags and INFO legitimately weigh nothing: keep only values that raise or count in a clean interpreter
    clean = L.fresh_verdicts([(c[1], c[3]) for c in hs_cases])
    hs_cases = [c for c, ok in zip(hs_cases, clean) if ok]
    chk.count('deferred-validation history cases', len(hs_cases))
    chk.oracle('deferred_validation_after_valid_calls', hs_cases, o_params, key_fn=lambda c: c[1] + repr(c[3]))

    dispatch_stage(chk, quick)
    ion_stage(chk, quick)

    chk.rule = (f'exhaustive: every string of <= {depth} tokens over the {len(L.TOKENS)}-token notation alphabet '
                '(residues P,E; all bracket kinds; ? - + / ^ @ # | : , . ; digits 1,0; the name Oxidation; backslash; space); random strings '
                'of <= 40 tokens over that alphabet and a wider one (more residues, N-Term, e, _, inf, nan, Formula:, tab, //); single-token '
                'delete/insert/swap/duplicate/replace mutations and truncations of grammar-derived valid strings; deferred validation: every '
                'modification position x unresolvable / malformed values, alone and next to 0-2 valid modifications / rules / labels of the '
                'same kind at the same position or target in every order (never masked, never silently zero), valid pairs are additive; non-trivial = the string is accepted with at least one '
                'modification or several chains (exhaustive), longer than 3 characters (oracle)')
    if not quick:
        chk.leanchecker(['PeptVerif.Props.C09Ext', 'PeptVerif.Lemmas.C09Dispatch', 'PeptVerif.Model.C09Dispatch',
                         'PeptVerif.Props.C09Ion', 'PeptVerif.Model.C09Ion',
                         'PeptVerif.Props.C09', 'PeptVerif.Lemmas.ParserTotal', 'PeptVerif.Model.Serialize', 'PeptVerif.Model.Parser',
                         'PeptVerif.Model.ModText'])
    return chk.finish(classify)


def classify(f):
    """every C09 defect found so far was repaired in /repo (status "fixed"): nothing is suppressed"""
    return None


def replay(chk, obj):
    pt = L._mods()[0]
    print(json.dumps(obj, indent=1)[:3000])
    c = obj.get('case')
    s = c if isinstance(c, str) else (c[1] if isinstance(c, (list, tuple)) and len(c) > 1 else None)
    if isinstance(s, str):
        for name, fn in (('parse', pt.parse), ('mass', pt.mass), ('comp', pt.comp)):
            try:
                print(name, '->', fn(s))
            except Exception as e:  # noqa
                print(name, 'raises', type(e).__name__, str(e)[:200])
    return 0
