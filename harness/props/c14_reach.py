"""Line reach of the modelled Python functions (sys.monitoring, Python 3.12) - copy for the C14 check.

`Reach(funcs, outside)` records which lines of the given functions are executed between __enter__ and __exit__.
`outside` maps a function's qualified name to source-line texts (stripped) that are deliberately outside the model, each with
a reason; they are reported separately and not counted as missed.
"""
import inspect
import sys


class Reach:
    TOOL = 3

    def __init__(self, funcs, outside=None):
        self.codes = {}
        self.src = {}
        for f in funcs:
            f = getattr(f, '__wrapped__', f)
            f = getattr(f, 'fget', f)
            co = f.__code__
            lines = {ln for (_, _, ln) in co.co_lines() if ln is not None and ln != co.co_firstlineno}
            self.codes[co] = (f.__qualname__, lines)
            try:
                src, first = inspect.getsourcelines(f)
                self.src[co] = {first + i: t.strip() for i, t in enumerate(src)}
            except OSError:
                self.src[co] = {}
        self.outside = outside or {}
        self.hit = {co: set() for co in self.codes}
        self.mon = getattr(sys, 'monitoring', None)
        self.active = False

    def __enter__(self):
        m = self.mon
        if m is None:
            return self
        try:
            m.use_tool_id(self.TOOL, 'verif-reach-c14')
        except ValueError:
            return self
        self.active = True
        m.restart_events()

        def on_line(code, line):
            h = self.hit.get(code)
            if h is not None:
                h.add(line)
            return m.DISABLE

        m.register_callback(self.TOOL, m.events.LINE, on_line)
        for co in self.codes:
            m.set_local_events(self.TOOL, co, m.events.LINE)
        return self

    def __exit__(self, *a):
        if self.active:
            m = self.mon
            for co in self.codes:
                m.set_local_events(self.TOOL, co, 0)
            m.register_callback(self.TOOL, m.events.LINE, None)
            m.free_tool_id(self.TOOL)
            self.active = False

    def report(self):
        if self.mon is None or not any(self.hit.values()):
            return {'available': False}
        tot = hit = 0
        missing = {}
        outside = {}
        for co, (name, lines) in self.codes.items():
            out_texts = self.outside.get(name, {})
            for ln in sorted(lines):
                text = self.src[co].get(ln, '')
                if ln in self.hit[co]:
                    tot += 1
                    hit += 1
                elif text in out_texts:
                    outside.setdefault(name, []).append({'line': ln, 'text': text, 'why': out_texts[text]})
                else:
                    tot += 1
                    missing.setdefault(name, []).append({'line': ln, 'text': text})
        return {'available': True, 'lines_of_modelled_functions': tot, 'lines_executed': hit, 'not_executed': missing,
                'outside_the_model': outside}
