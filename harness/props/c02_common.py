"""
Shared harness helpers of the mass work package (C02, C03, C05): wire encoding of the per-modification resolution
table and of the options, structured generators, numeric comparison.  (Not a check itself: no REGISTRY.)
"""
import math
import re

from .. import annot

ION_TYPES = ['p', 'n', 'a', 'b', 'c', 'x', 'y', 'z', 'ax', 'ay', 'az', 'bx', 'by', 'bz', 'cx', 'cy', 'cz', 'i']
FRAGMENT_TYPES = [t for t in ION_TYPES if t not in ('p', 'n')]
TERMINAL = ['a', 'b', 'c', 'x', 'y', 'z']
INTERNAL = ['ax', 'ay', 'az', 'bx', 'by', 'bz', 'cx', 'cy', 'cz']
RES22 = 'ACDEFGHIKLMNPQRSTVWYUO'
RES24 = RES22 + 'XJ'


def _mods():
    from peptacular.mass_calc import mod_mass
    from peptacular.chem.chem_calc import mod_comp, _parse_mod_delta_mass_only
    from peptacular.proforma.proforma_parser import parse_static_mods
    return mod_mass, mod_comp, _parse_mod_delta_mass_only, parse_static_mods


def fnum(x):
    """exact decimal text of a Python int/float"""
    if isinstance(x, bool):
        return str(int(x))
    if isinstance(x, int):
        return str(x)
    if isinstance(x, float):
        if not math.isfinite(x):
            raise OverflowError('non-finite')
        return repr(x)
    raise TypeError(type(x).__name__)


def _guard(f, show):
    try:
        return show(f())
    except Exception as e:  # noqa
        return 'E' + type(e).__name__


def show_comp(d):
    return 'C' + '&'.join(f'{annot.esc(str(k))}:{fnum(v)}' for k, v in d.items())


def resolve(v, override=None):
    """what the library's resolver returns for one Mod.val: mono, avg, delta-only, composition"""
    mod_mass, mod_comp, delta_only, _ = _mods()
    mono = _guard(lambda: mod_mass(v, True), fnum)
    avg = _guard(lambda: mod_mass(v, False), fnum)
    if override is not None:
        mono, avg = override
    dl = _guard(lambda: delta_only(v), lambda r: 'N' if r is None else fnum(r))
    cp = _guard(lambda: mod_comp(v), show_comp)
    return f'{mono},{avg},{dl},{cp}'


def static_map(a):
    _, _, _, parse_static_mods = _mods()
    if a._static_mods is None:
        return None
    return parse_static_mods(a._static_mods)


def all_vals(a, extra=()):
    vals = []

    def add(l):
        if l:
            for m in l:
                vals.append(m.val)

    for l in (a._labile_mods, a._unknown_mods, a._nterm_mods, a._cterm_mods):
        add(l)
    if a._internal_mods:
        for l in a._internal_mods.values():
            add(l)
    if a._intervals:
        for iv in a._intervals:
            add(iv.mods)
    try:
        sm = static_map(a)
    except Exception:  # noqa
        sm = None
    if sm:
        for l in sm.values():
            add(l)
    vals += list(extra)
    seen = {}
    for v in vals:
        seen.setdefault(annot.show_val(v), v)
    return seen


def env_strings(a, overrides=None):
    """(resolution table, parsed static rules) for the wire"""
    vals = all_vals(a)
    res = ';'.join(f'{k}={resolve(v, (overrides or {}).get(k))}' for k, v in vals.items()) or '-'
    if a._static_mods is None:
        st = 'N'
    else:
        try:
            sm = static_map(a)
            st = 'S' + ';'.join(f'{annot.esc(t)}={annot.show_mods(l, "&")}' for t, l in sm.items())
        except Exception as e:  # noqa
            st = 'E' + type(e).__name__
    return res, st


def opts_str(charge=None, ion_type='p', monoisotopic=True, isotope=0, loss=0.0, charge_adducts=None, isotope_mods=None,
             use_isotope_on_mods=False, precision=None):
    ad = 'N' if charge_adducts is None else annot.show_val(charge_adducts)
    iso = 'N' if isotope_mods is None else 'L' + ';'.join(
        (annot.show_mod(m) if hasattr(m, 'mult') else annot.show_val(m) + '^1') for m in isotope_mods)
    return '\t'.join(['None' if charge is None else str(charge), annot.esc(ion_type), str(int(monoisotopic)), str(isotope),
                      fnum(loss), ad, iso, str(int(use_isotope_on_mods)), 'None' if precision is None else str(precision)])


def line(op, a, kw, overrides=None, prefix=(), concrete_rules=False):
    res, st = env_strings(a, overrides)
    if concrete_rules:
        st = 'P'
    return '\t'.join([op, *prefix, annot.dump(a), res, st, opts_str(**kw)])


def call(fn, a, kw):
    """in-process call on a private copy; 'ok <repr>' or 'ERR:<class>'"""
    try:
        r = fn(a.copy(), **kw)
    except Exception as e:  # noqa
        return 'ERR:' + type(e).__name__
    return 'ok ' + repr(r)


def cmp_float(im, m, tol):
    """'ok <float repr>' vs 'ok <decimal>' numerically; error classes textually"""
    if im.startswith('ok ') and m.startswith('ok '):
        try:
            return abs(float(im[3:]) - float(m[3:])) <= tol
        except ValueError:
            return False
    return im == m


def parse_model_comp(s):
    """'H=3/1,e=-2/1' -> dict of floats (exact fractions evaluated)"""
    from fractions import Fraction
    d = {}
    if s:
        for e in s.split(','):
            k, v = e.split('=')
            d[k] = Fraction(v)
    return d


def comp_close(py, model, rel=1e-9):
    """python dict (ints/floats) vs model dict (Fractions): same keys after dropping zeros, counts numerically equal"""
    a = {k: v for k, v in py.items() if v != 0}
    b = {k: v for k, v in model.items() if v != 0}
    if set(a) != set(b):
        return False
    return all(abs(float(b[k]) - a[k]) <= rel * max(1.0, abs(a[k])) for k in a)


# ------------------------------------------------------------------------------------------------ generators

NUMS = [1, -1, 15.995, -18.0106, 100, 0.5, 42.0106, 79.97, 1.5, -17.03, 3.14, 57.02146, 1e-3, 250.125]
FORMULAS = ['Formula:C2H3NO', 'Formula:[13C2]H4', 'Formula:C-1H2', 'Formula:H2O', 'Formula:[13C2]C-2H3N', 'Formula:C2H2O',
            'Formula:HPO3', 'Formula:[D3]C', 'Formula:[15N]N-1', 'Formula:[18O]O-1', 'Formula:C6H10O5', 'Formula:SO3',
            'Formula:CH2', 'Formula:H-1N-1O', 'Formula:[13C6][15N2]C-6N-2']
# the same element / isotope in several components, repeated inside one component, negative counts, several isotope blocks
FORMULAS += ['Formula:C2H2[13C2]H3O', 'Formula:[13C2]N[13C]H3', 'Formula:C2H2C3', 'Formula:[13C2][13C-1]H', 'Formula:C-1C-1H2',
             'Formula:[D2][D3]H-5', 'Formula:H2[15N]H-1[15N2]O', 'Formula:O[18O]O[18O2]', 'Formula:[13C]C[13C]C[13C]C',
             'Formula:S[34S]S-2[34S2]H', 'Formula:N2H[2H3]N-1H2']
GLYCANS = ['Glycan:Hex', 'Glycan:HexNAc2Hex3', 'Glycan:Hex2Fuc', 'Glycan:HexNAc', 'Glycan:Neu5Ac', 'Glycan:HexNAc2Hex3Neu5Ac1',
           'Glycan:Fuc', 'Glycan:Hex5HexNAc4']
NAMED = ['Oxidation', 'Phospho', 'Acetyl', 'Carbamidomethyl', 'Methyl', 'Deamidated', 'U:Oxidation', 'UNIMOD:21',
         'Unimod:1', 'u:Phospho', 'Amidated', 'Dimethyl', 'GG', 'Label:13C(6)15N(2)', 'TMT6plex', 'MOD:00046',
         'M:L-methionine sulfoxide']
TAGGED = ['Oxidation|INFO:ok', 'Phospho#g1', '#g1', 'Oxidation#s1(0.75)', 'Acetyl|Obs:+42.010565', 'Obs:+17.05', 'U:+15.9949',
          'INFO:note|Formula:CH2']
# '|' alternatives in every order: mass-only first, composition-bearing first, INFO first, tags, three alternatives
ALTS = ['Obs:+42.5|Acetyl', 'Acetyl|Obs:+42.5', '+42.5|Acetyl', 'Acetyl|+42.5', 'INFO:x|Acetyl', 'INFO:x|Obs:+42.5|Acetyl',
        'Obs:+42.5|INFO:x', 'Formula:C2H2O|Obs:+1', 'Obs:+1|Formula:C2H2O', 'Glycan:Hex|+5', '+5|Glycan:Hex', 'Acetyl#g1|+5',
        '+5#g1|Acetyl', 'Oxidation|U:+15.99', 'U:+15.99|Oxidation', 'INFO:a|INFO:b|Phospho', 'Phospho#s1(0.5)|Obs:+80|INFO:z',
        '-17.5|Formula:H-3N-1', 'Formula:H-3N-1|-17.5', 'INFO:q|+3.25', 'Obs:+3.25|U:Methyl|Formula:CH2']
ODD = ['INFO:note', 'Unimod:999999', 'Formula:Xx2', 'nonsense']
ISOTOPES = ['13C', '15N', '18O', 'D', 'T', '17O', '34S', '2H']
ADDUCT_IONS = [('H', '+'), ('Na', '+'), ('K', '+'), ('Li', '+'), ('Mg', '2+'), ('Ca', '2+'), ('Cl', '-'), ('I', '-'), ('e', '-')]
ADDUCT_COUNTS = [-2, -1, 1, 2, 3]
_UNIMOD = []


def unimod_entries():
    if not _UNIMOD:
        from peptacular.mods import mod_db_setup as s
        _UNIMOD.extend(s.UNIMOD_DB.id_map.values())
    return _UNIMOD


def psimod_entries():
    from peptacular.mods import mod_db_setup as s
    return list(s.PSI_MOD_DB.id_map.values())


def gen_formula(rng, isotopes=True):
    """random ProForma formula: elements may repeat across and inside components, several isotope blocks, negative counts"""
    parts = []
    k = rng.randint(1, 5)
    for _ in range(k):
        el = rng.choice(['C', 'H', 'N', 'O', 'S', 'P'])     # with replacement: repeats are wanted
        n = rng.choice([1, 2, 3, 5, 12, -1, -2])
        parts.append(f'{el}{n}' if rng.random() < 0.85 or n != 1 else el)
    if isotopes:
        for _ in range(rng.choice([0, 0, 1, 1, 2, 3])):
            iso = rng.choice(['13C', '15N', '18O', 'D', '2H', '34S', '17O', '13C', '15N'])
            n = rng.choice([1, 2, 3, 6, -1])
            parts.append('[%s%s]' % (iso, '' if n == 1 and rng.random() < 0.3 else n))
    rng.shuffle(parts)
    return 'Formula:' + ''.join(parts)


def gen_adduct(rng, counts=ADDUCT_COUNTS):
    sym, q = rng.choice(ADDUCT_IONS)
    n = rng.choice(counts)
    if rng.random() < 0.3 and q in ('2+',):
        q = '+2'
    sign = '+' if n > 0 else '-'
    cnt = '' if abs(n) == 1 else str(abs(n))
    if rng.random() < 0.1 and n > 0:
        sign = ''
    return f'{sign}{cnt}{sym}{q}'


def gen_adducts(rng, counts=ADDUCT_COUNTS):
    if rng.random() < 0.15:
        return '+H+'
    return ','.join(gen_adduct(rng, counts) for _ in range(rng.randint(1, 3)))


def gen_value(rng, kinds):
    k = rng.choice(kinds)
    if k == 'num':
        if rng.random() < 0.5:
            return rng.choice(NUMS)
        return round(rng.uniform(-50, 300), rng.randint(0, 5)) if rng.random() < 0.8 else rng.randint(-20, 200)
    if k == 'formula':
        return rng.choice(FORMULAS) if rng.random() < 0.5 else gen_formula(rng)
    if k == 'glycan':
        return rng.choice(GLYCANS)
    if k == 'named':
        return rng.choice(NAMED)
    if k == 'unimod':
        e = rng.choice(unimod_entries())
        forms = [f'UNIMOD:{e.id}', f'Unimod:{e.id}']
        if re.fullmatch(r'[A-Za-z][A-Za-z0-9_\-+()>. ]*', e.name):   # names with ':' '#' '|' brackets belong to C10
            forms += [f'U:{e.name}', e.name]
        return rng.choice(forms)
    if k == 'tagged':
        return rng.choice(TAGGED)
    if k == 'alts':
        return rng.choice(ALTS)
    if k == 'odd':
        return rng.choice(ODD)
    raise KeyError(k)


APRIORI = ['num', 'num', 'formula', 'formula', 'glycan', 'named', 'unimod', 'unimod']


def gen_annotation(rng, residues=RES24, min_len=1, max_len=15, kinds=APRIORI, p=0.3, places=None, max_mult=3, isotope_p=0.0,
                   static_p=None, charge_p=0.3):
    """ProFormaAnnotation with mods of the given kinds at every kind of position"""
    from peptacular.proforma.proforma_parser import ProFormaAnnotation
    from peptacular.proforma.proforma_dataclasses import Interval, Mod
    allp = {'labile', 'static', 'unknown', 'nterm', 'cterm', 'internal', 'intervals'}
    places = allp if places is None else set(places)
    n = rng.randint(min_len, max_len)
    seq = ''.join(rng.choice(residues) for _ in range(n))

    def mod():
        v = gen_value(rng, kinds)
        mult = rng.randint(2, max_mult) if (max_mult > 1 and rng.random() < 0.25) else 1
        return Mod(v, mult)

    def mods():
        return [mod() for _ in range(rng.choice([1, 1, 2]))]

    def has(k, pp=None):
        return k in places and rng.random() < (p if pp is None else pp)

    a = ProFormaAnnotation(_sequence=seq)
    if has('labile'):
        a._labile_mods = mods()
    if has('unknown'):
        a._unknown_mods = mods()
    if has('nterm'):
        a._nterm_mods = mods()
    if has('cterm'):
        a._cterm_mods = mods()
    if 'internal' in places:
        d = {}
        for i in range(n):
            if rng.random() < p * 0.5:
                d[i] = mods()
        if d:
            a._internal_mods = d
    if has('intervals') and n >= 2:
        ivs = []
        pos = 0
        while pos < n - 1 and len(ivs) < 3:
            s = rng.randint(pos, n - 2)
            e = rng.randint(s + 1, n)
            ivs.append(Interval(s, e, rng.random() < 0.3, mods() if rng.random() < 0.8 else None))
            pos = e
            if rng.random() < 0.5:
                break
        if ivs:
            a._intervals = ivs
    if has('static', static_p):
        rules = []
        for _ in range(rng.choice([1, 1, 2])):
            # rule targets are matched literally (repo 72c1d65: condense_static_mods no longer treats them as regular expressions)
            tg = rng.choice(['N-Term', 'C-Term'] + [c for c in set(seq) if c not in '@,[]'] + [rng.choice([c for c in residues if c.isalnum()])])
            if rng.random() < 0.3:
                tg = tg + ',' + rng.choice([c for c in residues if c.isalnum()] + ['N-Term', 'C-Term'])
            body = ''
            for _ in range(rng.choice([1, 1, 2])):
                m = mod()
                v = m.val
                vs = ('+' if isinstance(v, (int, float)) and v > 0 and rng.random() < 0.5 else '') + str(v)
                body += f'[{vs}]' + (f'^{m.mult}' if m.mult > 1 else '')
            rules.append(Mod(f'{body}@{tg}', 1))
        a._static_mods = rules
    if rng.random() < isotope_p:
        a._isotope_mods = [Mod(x, 1) for x in rng.sample(ISOTOPES, rng.choice([1, 1, 2]))]
    if rng.random() < charge_p:
        a._charge = rng.choice([1, 2, 3, -1, -2, 4])
        if rng.random() < 0.4:
            a._charge_adducts = [Mod(gen_adducts(rng), 1)]
            r = rng.random()
            if r < 0.15:      # several [..] groups: all of them count
                a._charge_adducts.append(Mod(gen_adducts(rng), 1))
            elif r < 0.2:     # a numeric group is an invalid charge adduct
                a._charge_adducts = [Mod(rng.choice([1, 2.5]), 1)]
            elif r < 0.23:
                a._charge_adducts = []
    return a


def has_mods(a):
    return bool(all_vals(a))


# ------------------------------------------------------------------------------------------------ independent formula reader

_FTOK = re.compile(r'\[(\d*[A-Z][a-z]?)(-?\d*)\]|([A-Z][a-z]?)(-?\d*)')


def formula_mass_ref(value, elem_mass):
    """mass of a 'Formula:...' value from a reference element table (symbol -> mass); None if not understood"""
    if not isinstance(value, str) or not value.lower().startswith('formula:'):
        return None
    body = value.split(':', 1)[1]
    if '#' in body or '|' in body:
        return None
    pos = 0
    total = 0.0
    for m in _FTOK.finditer(body):
        if m.start() != pos:
            return None
        pos = m.end()
        if m.group(1) is not None:
            sym, n = m.group(1), int(m.group(2)) if m.group(2) not in ('', '-') else 1
        else:
            sym, n = m.group(3), int(m.group(4)) if m.group(4) not in ('', '-') else 1
        if sym not in elem_mass:
            return None
        total += elem_mass[sym] * n
    if pos != len(body):
        return None
    return total


# ------------------------------------------------------------------------------------------------ reach of the modelled code

class Reach:
    """which lines of the MODELLED python functions the check's inputs executed (sys.monitoring, Python 3.12)"""
    TOOL = 4

    def __init__(self, funcs):
        import sys
        self.sys = sys
        self.codes = {}
        for f in funcs:
            f = getattr(f, '__wrapped__', f)
            self._add(f.__code__, f.__module__.split('.')[-1] + '.' + f.__qualname__)
        self.hit = set()
        self.on = False

    def _add(self, code, name):
        self.codes[code] = name
        for c in code.co_consts:
            if hasattr(c, 'co_code'):
                self._add(c, name)

    def start(self):
        mon = getattr(self.sys, 'monitoring', None)
        if mon is None:
            return
        try:
            mon.use_tool_id(self.TOOL, 'verif-reach')
        except ValueError:
            return
        self.on = True

        def cb(code, line):
            self.hit.add((code, line))
            return mon.DISABLE

        mon.register_callback(self.TOOL, mon.events.LINE, cb)
        for code in self.codes:
            mon.set_local_events(self.TOOL, code, mon.events.LINE)

    def stop(self):
        if not self.on:
            return
        mon = self.sys.monitoring
        for code in self.codes:
            mon.set_local_events(self.TOOL, code, 0)
        mon.register_callback(self.TOOL, mon.events.LINE, None)
        mon.free_tool_id(self.TOOL)
        self.on = False

    def report(self):
        """{function: {'lines': n, 'hit': k, 'uncovered': [line numbers]}}"""
        per = {}
        for code, name in self.codes.items():
            lines = {ln for (_, _, ln) in code.co_lines() if ln is not None and ln != code.co_firstlineno}
            got = {ln for (c, ln) in self.hit if c is code}
            d = per.setdefault(name, {'lines': set(), 'hit': set()})
            d['lines'] |= lines
            d['hit'] |= (got & lines)
        return {n: {'lines': len(d['lines']), 'hit': len(d['hit']), 'uncovered': sorted(d['lines'] - d['hit'])}
                for n, d in sorted(per.items())}


def attach_reach(chk, reach):
    reach.stop()
    rep = reach.report()
    tot = sum(v['lines'] for v in rep.values())
    hit = sum(v['hit'] for v in rep.values())
    chk.notes.append({'reach_of_modelled_functions': {'executable_lines': tot, 'executed': hit,
                                                       'uncovered': {n: v['uncovered'] for n, v in rep.items() if v['uncovered']}}})
    chk.count('modelled_lines_total', tot)
    chk.count('modelled_lines_executed', hit)
