"""
Translator for the vocabularies (C10 / C15).

ENTRY POINT FOR OTHER CHECKS (e.g. wpD's C03):   from harness import translate_vocab as TV;  TV.translate_into(chk)
  * regenerates Generated/{Unimod,PsiMod,XlMod,Mono,ElementsC15}.lean from whatever tree `import peptacular` resolves to;
  * idempotent: a file is rewritten only when its content changed (under a file lock), so calling it from several checks of
    the same run, or concurrently, is harmless; the names of rewritten modules are appended (once) to `chk.generated_changed`;
  * never raises: any exception while dumping the loaded tables (loader / data changed shape, inconsistent indexes,
    non-finite masses, ...) is recorded as a broken correspondence item `translate_vocab` in `chk.disagreements`, the tables
    generated last time stay in place, and False is returned;
  * when the run is against a scratch tree ($VERIF_REPO) and something was rewritten, the tables of /repo are put back at
    interpreter exit (atexit; only files this module writes are ever touched).
  `TV.raw_obo_safe(chk, mod)` is the guarded form of the independent mini OBO reader.

Regenerates, from the CURRENT tree of the repo under test (whatever `import peptacular` resolves to, i.e.
/repo or $VERIF_REPO), the Lean modules

    lean/PeptVerif/Generated/Unimod.lean  PsiMod.lean  XlMod.lean  Mono.lean   <- the loaded EntryDb objects
    lean/PeptVerif/Generated/ElementsC15.lean                                   <- the loaded element tables

A file is rewritten only when its content changed (lake stays incremental).
Strings are emitted as lists of code points (kernel evaluation of `String` is far too slow), numbers as exact
decimals `Dec.mk mantissa scale` of `repr(float)` (for numbers read from the OBO / chem.txt files this is the decimal
text of the source; for numbers computed at import it is the shortest decimal that reads back to the same double).
Entry lists are emitted in chunks of 100 and appended (a 1600-element literal exceeds maxRecDepth).

`raw_obo(kind)` is a second, independent mini-reader of the OBO files (id / name / mass fields only), used by the
C10 check to compare what the library loaded (and what was emitted) with the raw files.
"""
import decimal
import os
import re

VERIF = os.path.dirname(os.path.dirname(os.path.abspath(__file__)))
GEN = os.path.join(VERIF, 'lean', 'PeptVerif', 'Generated')
CHUNK = 100

DBS = [  # (lean module, python attribute, obo file, id prefix)
    ('Unimod', 'UNIMOD_DB', 'unimod.obo', 'UNIMOD:'),
    ('PsiMod', 'PSI_MOD_DB', 'psi-mod.obo', 'MOD:'),
    ('XlMod', 'XLMOD_DB', 'xlmod.obo', 'XLMOD:'),
    ('Mono', 'MONOSACCHARIDES_DB', 'monosaccharides_updated.obo', 'MONO:'),
]


class TranslateError(Exception):
    pass


def cps(s):
    return '[' + ','.join(str(ord(c)) for c in s) + ']'


def dec_of_float(x):
    """exact decimal (mantissa, scale) of repr(x)"""
    if isinstance(x, bool) or not isinstance(x, (int, float)):
        raise TranslateError(f'not a number: {x!r}')
    if isinstance(x, float) and (x != x or x in (float('inf'), float('-inf'))):
        raise TranslateError(f'non-finite number in a table: {x!r}')
    d = decimal.Decimal(repr(x))
    sign, digits, exp = d.as_tuple()
    mant = int(''.join(map(str, digits)) or '0')
    if exp > 0:
        mant *= 10 ** exp
        exp = 0
    # normalise: drop trailing zeros of the fraction
    scale = -exp
    while scale > 0 and mant % 10 == 0:
        mant //= 10
        scale -= 1
    if sign:
        mant = -mant
    return mant, scale


def lean_dec(x):
    m, s = dec_of_float(x)
    return f'⟨{m},{s}⟩' if m >= 0 else f'⟨({m}),{s}⟩'


def lean_opt_dec(x):
    return 'none' if x is None else f'(some {lean_dec(x)})'


def lean_opt_str(s):
    return 'none' if s is None else f'(some {cps(s)})'


def entries_of(db):
    """the loaded table, in id_map order; checks that the name / synonym indexes are what 'last entry wins' over this
    list gives (that is how the Lean model looks entries up)"""
    es = list(db.id_map.values())
    for e in es:
        for attr in ('id', 'name', 'mono_mass', 'avg_mass', 'composition'):
            if not hasattr(e, attr):
                raise TranslateError(f'{getattr(db, "entry_type", "?")}: entry without attribute {attr!r}: {e!r}'[:300])
        if not isinstance(e.id, str) or not isinstance(e.name, str) or not (e.composition is None or isinstance(e.composition, str)):
            raise TranslateError(f'{getattr(db, "entry_type", "?")}: id / name / composition of an entry is not text: {e!r}'[:300])
    by_name = {}
    by_syn = {}
    by_id = {}
    for e in es:
        by_id[e.id] = e
        by_name[e.name] = e
        if db.synonym_map:
            for s in (e.synonyms or []):
                by_syn[s] = e
    def same(a, b):
        return set(a) == set(b) and all(a[k] is b[k] for k in a)
    if not same(by_id, db.id_map) or not same(by_name, db.name_map):
        raise TranslateError(f'{db.entry_type}: id/name index is not "last entry wins" over the entry list')
    if db.synonym_map and not same(by_syn, db.synonym_map):
        raise TranslateError(f'{db.entry_type}: synonym index is not "last entry wins" over the entry list')
    return es, bool(db.synonym_map)


def emit_db(mod, db):
    es, use_syn = entries_of(db)
    out = [f'import PeptVerif.Model.ModDbTypes',
           f'/-! GENERATED by harness/translate_vocab.py from the loaded `{db.entry_type}` EntryDb — do not edit. -/',
           'set_option maxRecDepth 100000',
           f'namespace Gen.{mod}', 'open ModDb', '']
    nchunks = 0
    for i in range(0, len(es), CHUNK):
        rows = []
        for e in es[i:i + CHUNK]:
            syns = '[' + ','.join(cps(s) for s in (e.synonyms or [])) + ']' if use_syn else '[]'
            rows.append(f'  Entry.mk {cps(e.id)} {cps(e.name)} {syns} {lean_opt_dec(e.mono_mass)} '
                        f'{lean_opt_dec(e.avg_mass)} {lean_opt_str(e.composition)}')
        out.append(f'def c{nchunks} : List Entry := [\n' + ',\n'.join(rows) + ']')
        nchunks += 1
    out.append('')
    out.append('def chunks : List (List Entry) := [' + ', '.join(f'c{i}' for i in range(nchunks)) + ']')
    if nchunks == 0:
        out.append('def entries : List Entry := []')
    else:
        out.append('def entries : List Entry := ' + ' ++ '.join(f'c{i}' for i in range(nchunks)))
    out.append(f'def count : Nat := {len(es)}')
    out.append(f'end Gen.{mod}')
    return '\n'.join(out) + '\n'


def emit_elements(consts):
    iso = consts.ISOTOPIC_ATOMIC_MASSES
    avg = consts.AVERAGE_ATOMIC_MASSES
    hill = consts.HILL_ORDER
    extra = (set(avg) | set(hill)) - set(iso)
    if extra:
        raise TranslateError(f'average-mass / Hill keys without an isotopic mass: {sorted(extra)[:5]}')
    rows = []
    for k, m in iso.items():
        a = lean_opt_dec(avg.get(k))
        h = 'none' if k not in hill else f'(some {hill[k]})'
        rows.append(f'  Elem.mk {cps(k)} {lean_dec(m)} {a} {h}')
    out = ['import PeptVerif.Model.ModDbTypes',
           '/-! GENERATED by harness/translate_vocab.py from peptacular.constants (ISOTOPIC_ATOMIC_MASSES, '
           'AVERAGE_ATOMIC_MASSES, HILL_ORDER, particle masses) as loaded — do not edit. -/',
           'set_option maxRecDepth 100000',
           'namespace Gen.ElementsC15', 'open ModDb', '']
    n = 0
    for i in range(0, len(rows), CHUNK):
        out.append(f'def c{n} : List Elem := [\n' + ',\n'.join(rows[i:i + CHUNK]) + ']')
        n += 1
    out.append('')
    out.append('def elems : List Elem := ' + (' ++ '.join(f'c{i}' for i in range(n)) if n else '[]'))
    out.append(f'def electron : Dec := {lean_dec(consts.ELECTRON_MASS)}')
    out.append(f'def proton : Dec := {lean_dec(consts.PROTON_MASS)}')
    out.append(f'def neutron : Dec := {lean_dec(consts.NEUTRON_MASS)}')
    out.append('end Gen.ElementsC15')
    return '\n'.join(out) + '\n'


def write_if_changed(path, content):
    old = open(path).read() if os.path.exists(path) else None
    if old == content:
        return False
    os.makedirs(os.path.dirname(path), exist_ok=True)
    tmp = path + '.tmp%d' % os.getpid()
    with open(tmp, 'w') as f:
        f.write(content)
    os.replace(tmp, path)
    return True


_RESTORE_REGISTERED = [False]


def translate_into(chk):
    """guarded entry point (see the module docstring): True if the tables are current, False if the dump failed"""
    import atexit
    import traceback
    try:
        changed = translate()
    except Exception as e:  # noqa  (TranslateError or anything the loaded objects throw at us)
        tb = traceback.format_exc()
        chk.disagreements.append({'op': 'translate_vocab', 'line': 'loaded EntryDb / element tables -> Lean literals',
                                  'impl': f'{type(e).__name__}: {e}'[:600] + ' | ' + tb[-600:], 'model': 'previous generated tables kept'})
        return False
    for m in changed:
        if m not in chk.generated_changed:
            chk.generated_changed.append(m)
    if changed and os.environ.get('VERIF_REPO') and not _RESTORE_REGISTERED[0]:
        _RESTORE_REGISTERED[0] = True
        atexit.register(restore_after_scratch_run)
    return True


def raw_obo_safe(chk, mod):
    """`raw_obo` that never raises: a failure is a reported correspondence break, the result is then None"""
    try:
        return raw_obo(mod)
    except Exception as e:  # noqa
        chk.disagreements.append({'op': 'raw_obo_reader', 'line': mod, 'impl': f'{type(e).__name__}: {e}'[:600],
                                  'model': 'n/a'})
        return None


def translate():
    """regenerate; returns the list of generated modules whose content changed (may raise: use `translate_into`)"""
    import fcntl
    from peptacular.mods import mod_db_setup as S
    from peptacular import constants as K
    changed = []
    os.makedirs(os.path.join(VERIF, 'lean', '.lake'), exist_ok=True)
    with open(os.path.join(VERIF, 'lean', '.lake', 'verif-translate-vocab.lock'), 'w') as lk:
        fcntl.flock(lk, fcntl.LOCK_EX)
        for mod, attr, _, _ in DBS:
            if write_if_changed(os.path.join(GEN, mod + '.lean'), emit_db(mod, getattr(S, attr))):
                changed.append(f'PeptVerif.Generated.{mod}')
        if write_if_changed(os.path.join(GEN, 'ElementsC15.lean'), emit_elements(K)):
            changed.append('PeptVerif.Generated.ElementsC15')
    return changed


def restore_after_scratch_run():
    """A run against a scratch tree ($VERIF_REPO) rewrites the shared Generated/*.lean from that tree. Put back the
    tables of /repo afterwards (in a fresh interpreter without VERIF_REPO), so that other agents' builds and commits
    never see the scratch state for longer than the run itself."""
    import subprocess
    import sys
    if not os.environ.get('VERIF_REPO'):
        return
    env = {k: v for k, v in os.environ.items() if k not in ('VERIF_REPO', 'PYTHONPATH')}
    subprocess.run([sys.executable, '-W', 'ignore', '-m', 'harness.translate_vocab'], cwd=VERIF, env=env,
                   capture_output=True, text=True)


# --------------------------------------------------------------------------- independent mini OBO reader
_MASS_FIELDS = {
    'Unimod': (re.compile(r'^xref: delta_mono_mass "([^"]*)"'), re.compile(r'^xref: delta_avge_mass "([^"]*)"')),
    'PsiMod': (re.compile(r'^xref: DiffMono: "([^"]*)"'), re.compile(r'^xref: DiffAvg: "([^"]*)"')),
    'XlMod': (re.compile(r'^property_value: monoIsotopicMass: "([^"]*)"'), None),
    'Mono': (re.compile(r'^property_value: has_monoisotopic_mass "([^"]*)"'),
             re.compile(r'^property_value: has_average_mass "([^"]*)"')),
}


def raw_obo(mod):
    """[(id without prefix, name, mono text or None, avg text or None)] for the non-obsolete [Term] stanzas of the
    OBO file, read line by line without any of the library's code"""
    import peptacular
    fn = dict((m, f) for m, _, f, _ in DBS)[mod]
    prefix = dict((m, p) for m, _, _, p in DBS)[mod]
    path = os.path.join(os.path.dirname(peptacular.__file__), 'data', fn)
    mono_re, avg_re = _MASS_FIELDS[mod]
    res = []
    cur = None
    kind = None

    def flush():
        if cur is not None and kind == 'Term' and not cur.get('obsolete'):
            if not (mod == 'Unimod' and cur.get('name') == 'unimod root node'):
                res.append((cur.get('id'), cur.get('name'), cur.get('mono'), cur.get('avg')))

    with open(path) as f:
        for line in f:
            line = line.rstrip()
            if line.startswith('['):
                flush()
                kind = line.strip('[]')
                cur = {}
                continue
            if cur is None or kind != 'Term':
                continue
            if line.startswith('id: ') and 'id' not in cur:
                v = line[4:]
                cur['id'] = v.replace(prefix, '')
            elif line.startswith('name: ') and 'name' not in cur:
                cur['name'] = line[6:]
            elif line.startswith('is_obsolete: '):
                cur['obsolete'] = line[13:].strip() == 'true'
            else:
                m = mono_re.match(line)
                if m and 'mono' not in cur:
                    cur['mono'] = None if m.group(1).strip() == 'none' else m.group(1).strip()
                if avg_re is not None:
                    m = avg_re.match(line)
                    if m and 'avg' not in cur:
                        cur['avg'] = None if m.group(1).strip() == 'none' else m.group(1).strip()
        flush()
    return res


if __name__ == '__main__':
    import time
    t = time.time()
    print(translate(), f'{time.time()-t:.2f}s')
