"""
Translator: /repo's CURRENT src/peptacular/proforma/proforma_dataclasses.py and proforma_parser.py (read with `ast`, never
imported) -> lean/PeptVerif/Generated/EqCorePy.lean (namespace GenEq) for

    Mod.__eq__, Interval.__eq__, are_mods_equal, are_intervals_equal, ProFormaAnnotation.__eq__ (the ordered list of compared
    fields and the internal-mods key-union loop), ProFormaAnnotation.has_mods (with the has_* predicates it calls),
    ProFormaAnnotation.mod_dict (which fields, under which test), ProFormaAnnotation.strip (which fields are cleared)

and lean/PeptVerif/Props/C20Gen.lean (one theorem `GenEq.f = <hand model>` per translated function, assembled from the hand-written
scripts in harness/c20gen_template.lean, plus the transfer of the C20 theorems when everything was translated).

The Python subset is deliberately tiny:
  * chains of `if self.F != other.F: return False` / `if not g(self.F, other.F): return False` ending in `return True`, with the two
    `isinstance(other, ...)` guards of Mod.__eq__ / ProFormaAnnotation.__eq__ skipped (the model is typed);
  * the internal-mods block: `if self.has_internal_mods() or other.has_internal_mods():`, two key sets
    `set(X.internal_mods.keys()) if X.has_internal_mods() else set()`, `for k in <A.union(B) | A | B | A or B alone>:` with
    `if not are_mods_equal(self.get_internal_mods_by_index(k), other.get_internal_mods_by_index(k)): return False`;
  * `if p is None and q is not None: return <bool>` tables, an optional `if len(p) != len(q): return False`, and
    `return Counter(p) == Counter(q)` (multiset equality `msEq`) or `return set(p) == set(q)` (`setEq`);
  * `return any([self.has_a(), ...])` with every `has_a` being `return self._a is not None`, or
    `return any(getattr(self, name) is not None for name in T)` with `T` a literal tuple of field names (or a module-level one);
  * a dict literal `"name": self.prop`, a dict comprehension over its `.items()` with ONE filter (`v is not None` or `v`), the
    `if self.internal_mods[ is not None]: for index, mods in self.internal_mods.items(): result[index] = mods` loop, `return
    [copy.deepcopy(]result[)]`;
  * `if inplace: self.<prop> = None ...; return None` (also `for name in T: setattr(self, name, None)`) and `return ProFormaAnnotation(_sequence=self.sequence)`.
Anything else makes THAT function `untranslated`: no definition and no theorem for it; the hand model stays tied by correspondence
only. The translator never raises.
"""
import ast
import os
import re
import subprocess

from . import core

TARGETS = ['Mod_eq', 'are_mods_equal', 'Interval_eq', 'are_intervals_equal', 'annotation_eq', 'has_mods', 'mod_dict', 'strip']
HAND = {'Mod_eq': 'Pept.modEq', 'are_mods_equal': 'Pept.areModsEqual', 'Interval_eq': 'Pept.ivEq',
        'are_intervals_equal': 'Pept.areIntervalsEqual', 'annotation_eq': 'Pept.annEq', 'has_mods': 'Pept.hasMods',
        'mod_dict': 'Pept.modDict', 'strip': 'Pept.strip'}
PY_NAME = {'Mod_eq': 'Mod.__eq__', 'Interval_eq': 'Interval.__eq__', 'annotation_eq': 'ProFormaAnnotation.__eq__',
           'has_mods': 'ProFormaAnnotation.has_mods', 'mod_dict': 'ProFormaAnnotation.mod_dict', 'strip': 'ProFormaAnnotation.strip',
           'are_mods_equal': 'are_mods_equal', 'are_intervals_equal': 'are_intervals_equal'}

# Python attribute -> Lean field
MOD_F = {'val': 'val', 'mult': 'mult'}
IV_F = {'start': 'start', 'end': 'stop', 'ambiguous': 'ambiguous', 'mods': 'mods'}
ANN_F = {}
for _p, _l in (('sequence', 'seq'), ('isotope_mods', 'isotope'), ('static_mods', 'static'), ('labile_mods', 'labile'),
               ('unknown_mods', 'unknown'), ('nterm_mods', 'nterm'), ('cterm_mods', 'cterm'), ('internal_mods', 'internal'),
               ('intervals', 'intervals'), ('charge', 'charge'), ('charge_adducts', 'adducts')):
    ANN_F[_p] = _l
    ANN_F['_' + _p] = _l
DICT_KEYS = {'isotope': ('.isotope', '.mods', 'truthyList'), 'static': ('.static', '.mods', 'truthyList'),
             'labile': ('.labile', '.mods', 'truthyList'), 'unknown': ('.unknown', '.mods', 'truthyList'),
             'nterm': ('.nterm', '.mods', 'truthyList'), 'cterm': ('.cterm', '.mods', 'truthyList'),
             'intervals': ('.intervals', '.ivs', 'truthyList'), 'charge': ('.charge', '.charge', 'truthyInt'),
             'charge_adducts': ('.adducts', '.mods', 'truthyList')}
DICT_FIELD = {'isotope': 'isotope', 'static': 'static', 'labile': 'labile', 'unknown': 'unknown', 'nterm': 'nterm', 'cterm': 'cterm',
              'intervals': 'intervals', 'charge': 'charge', 'charge_adducts': 'adducts'}


class Untranslatable(Exception):
    pass


def body_of(fn):
    """statements without the docstring"""
    b = list(fn.body)
    if b and isinstance(b[0], ast.Expr) and isinstance(b[0].value, ast.Constant) and isinstance(b[0].value.value, str):
        b = b[1:]
    return b


def is_self_attr(e, obj='self'):
    return isinstance(e, ast.Attribute) and isinstance(e.value, ast.Name) and e.value.id == obj


def returns_const(stmts, val):
    return (len(stmts) == 1 and isinstance(stmts[0], ast.Return) and isinstance(stmts[0].value, ast.Constant) and
            stmts[0].value.value is val)


# ----------------------------------------------------------------------------- chains of comparisons (__eq__)
def field_test(test, fmap, callees):
    """one `if <test>: return False` -> ('ne', leanfield) | ('call', callee, leanfield)"""
    if isinstance(test, ast.Compare) and len(test.ops) == 1 and isinstance(test.ops[0], ast.NotEq):
        l, r = test.left, test.comparators[0]
        if is_self_attr(l, 'self') and is_self_attr(r, 'other') and l.attr == r.attr and l.attr in fmap:
            return ('ne', fmap[l.attr])
        raise Untranslatable('comparison that is not self.F != other.F: ' + ast.unparse(test))
    if isinstance(test, ast.UnaryOp) and isinstance(test.op, ast.Not) and isinstance(test.operand, ast.Call):
        c = test.operand
        if isinstance(c.func, ast.Name) and c.func.id in callees and len(c.args) == 2 and not c.keywords:
            l, r = c.args
            if is_self_attr(l, 'self') and is_self_attr(r, 'other') and l.attr == r.attr and l.attr in fmap:
                return ('call', c.func.id, fmap[l.attr])
        raise Untranslatable('call that is not g(self.F, other.F): ' + ast.unparse(test))
    raise Untranslatable('test outside the subset: ' + ast.unparse(test))


def is_has_internal(e, obj):
    return (isinstance(e, ast.Call) and not e.args and not e.keywords and isinstance(e.func, ast.Attribute) and
            e.func.attr == 'has_internal_mods' and isinstance(e.func.value, ast.Name) and e.func.value.id == obj)


def key_set(e):
    """`set(X.internal_mods.keys()) if X.has_internal_mods() else set()` -> 'a' | 'b'"""
    if not isinstance(e, ast.IfExp):
        raise Untranslatable('key set form')
    obj = None
    for o in ('self', 'other'):
        if is_has_internal(e.test, o):
            obj = o
    if obj is None:
        raise Untranslatable('key set guard')
    empty = e.orelse
    if not (isinstance(empty, ast.Call) and isinstance(empty.func, ast.Name) and empty.func.id == 'set' and not empty.args):
        raise Untranslatable('key set default')
    b = e.body
    ok = (isinstance(b, ast.Call) and isinstance(b.func, ast.Name) and b.func.id == 'set' and len(b.args) == 1 and
          isinstance(b.args[0], ast.Call) and isinstance(b.args[0].func, ast.Attribute) and b.args[0].func.attr == 'keys' and
          is_self_attr(b.args[0].func.value, obj) and b.args[0].func.value.attr in ('internal_mods', '_internal_mods'))
    if not ok:
        raise Untranslatable('key set body')
    return 'a' if obj == 'self' else 'b'


def internal_block(st):
    """the internal-mods comparison -> Lean Bool expression (true = all compared positions equal)"""
    g = st.test
    if not (isinstance(g, ast.BoolOp) and isinstance(g.op, ast.Or) and len(g.values) == 2 and
            is_has_internal(g.values[0], 'self') and is_has_internal(g.values[1], 'other')) or st.orelse:
        raise Untranslatable('guard of the internal-mods block')
    names = {}
    loop = None
    for s in st.body:
        if isinstance(s, ast.Assign) and len(s.targets) == 1 and isinstance(s.targets[0], ast.Name):
            names[s.targets[0].id] = key_set(s.value)
        elif isinstance(s, ast.For) and loop is None and not s.orelse:
            loop = s
        else:
            raise Untranslatable('statement in the internal-mods block')
    if loop is None or not isinstance(loop.target, ast.Name):
        raise Untranslatable('no key loop')
    kv = loop.target.id

    def keys(e):
        if isinstance(e, ast.Name) and e.id in names:
            return ['internalKeys ' + names[e.id]]
        if isinstance(e, ast.Call) and isinstance(e.func, ast.Attribute) and e.func.attr == 'union' and len(e.args) == 1:
            return keys(e.func.value) + keys(e.args[0])
        if isinstance(e, ast.BinOp) and isinstance(e.op, ast.BitOr):
            return keys(e.left) + keys(e.right)
        raise Untranslatable('key expression of the loop')
    ks = keys(loop.iter)
    if len(loop.body) != 1 or not isinstance(loop.body[0], ast.If) or loop.body[0].orelse or \
            not returns_const(loop.body[0].body, False):
        raise Untranslatable('loop body')
    t = loop.body[0].test
    ok = isinstance(t, ast.UnaryOp) and isinstance(t.op, ast.Not) and isinstance(t.operand, ast.Call) and \
        isinstance(t.operand.func, ast.Name) and t.operand.func.id == 'are_mods_equal' and len(t.operand.args) == 2
    if ok:
        for arg, obj in zip(t.operand.args, ('self', 'other')):
            ok = ok and isinstance(arg, ast.Call) and isinstance(arg.func, ast.Attribute) and \
                arg.func.attr == 'get_internal_mods_by_index' and isinstance(arg.func.value, ast.Name) and \
                arg.func.value.id == obj and len(arg.args) == 1 and isinstance(arg.args[0], ast.Name) and arg.args[0].id == kv
    if not ok:
        raise Untranslatable('loop test')
    keyexpr = ' ++ '.join(ks)
    return ('internal', f'(if a.internal.isSome || b.internal.isSome then\n      ({keyexpr}).all fun k => '
                        f'{{are_mods_equal}} (getInternal a k) (getInternal b k)\n    else true)')


def chain(fn, fmap, callees, kind):
    tests = []
    stmts = body_of(fn)
    if not stmts or not returns_const([stmts[-1]], True):
        raise Untranslatable('does not end in `return True`')
    for st in stmts[:-1]:
        if not isinstance(st, ast.If):
            raise Untranslatable('statement that is not an `if`: ' + ast.unparse(st)[:60])
        t = st.test
        # the two isinstance guards (typed model: skipped)
        if kind == 'Mod' and isinstance(t, ast.Call) and isinstance(t.func, ast.Name) and t.func.id == 'isinstance' and \
                ast.unparse(st.body[0]).replace(' ', '') == 'other=Mod(other,1)' and len(st.body) == 1 and not st.orelse:
            continue
        if kind == 'Ann' and ast.unparse(t).replace(' ', '') == 'notisinstance(other,ProFormaAnnotation)' and len(st.body) == 1 \
                and ast.unparse(st.body[0]).replace(' ', '') == 'returnNotImplemented' and not st.orelse:
            continue
        if kind == 'Ann' and isinstance(t, ast.BoolOp):
            tests.append(internal_block(st))
            continue
        if st.orelse or not returns_const(st.body, False):
            raise Untranslatable('`if` that does not just return False: ' + ast.unparse(t)[:60])
        tests.append(field_test(t, fmap, callees))
    return tests


def emit_chain(name, typ, tests, refs):
    lines = [f'def {name} (a b : {typ}) : Bool :=']
    first = True
    for t in tests:
        if t[0] == 'ne':
            cond = f'!(valEq a.{t[1]} b.{t[1]})' if (typ == 'Mod' and t[1] == 'val') else f'a.{t[1]} != b.{t[1]}'
        elif t[0] == 'call':
            cond = f'!({refs[t[1]]} a.{t[2]} b.{t[2]})'
        else:
            cond = '!' + t[1].replace('{are_mods_equal}', refs['are_mods_equal'])
        lines.append(('  if ' if first else '  else if ') + cond + ' then false')
        first = False
    lines.append('  else true' if not first else '  true')
    return '\n'.join(lines) + '\n'


# ----------------------------------------------------------------------------- None tables + Counter / set
def none_test(t, p, q):
    """test over `p is [not] None` / `q is [not] None` -> function(pNone, qNone) -> bool"""
    if isinstance(t, ast.BoolOp) and isinstance(t.op, ast.And):
        fs = [none_test(v, p, q) for v in t.values]
        return lambda a, b: all(f(a, b) for f in fs)
    if isinstance(t, ast.Compare) and len(t.ops) == 1 and isinstance(t.left, ast.Name) and t.left.id in (p, q) and \
            isinstance(t.comparators[0], ast.Constant) and t.comparators[0].value is None and \
            isinstance(t.ops[0], (ast.Is, ast.IsNot)):
        neg = isinstance(t.ops[0], ast.IsNot)
        first = t.left.id == p
        return lambda a, b: ((a if first else b) != neg)
    raise Untranslatable('test that is not about None: ' + ast.unparse(t))


def none_table(fn, elem_eq, lean_elem):
    a = fn.args
    if len(a.args) != 2 or a.vararg or a.kwarg or a.kwonlyargs:
        raise Untranslatable('argument form')
    p, q = a.args[0].arg, a.args[1].arg
    stmts = body_of(fn)
    table = []
    i = 0
    while i < len(stmts) and isinstance(stmts[i], ast.If):
        st = stmts[i]
        try:
            f = none_test(st.test, p, q)
        except Untranslatable:
            break
        if st.orelse or not (returns_const(st.body, True) or returns_const(st.body, False)):
            raise Untranslatable('None case that does not return a constant')
        table.append((f, st.body[0].value.value))
        i += 1
    res = {}
    for case in ((True, True), (True, False), (False, True)):
        for f, v in table:
            if f(*case):
                res[case] = v
                break
        else:
            raise Untranslatable('a None case falls through to the comparison')
    if any(f(False, False) for f, _ in table):
        raise Untranslatable('the both-present case is decided by a None test')
    rest = stmts[i:]
    lencheck = False
    if len(rest) == 2:
        st = rest[0]
        want = f'len({p})!=len({q})'
        if isinstance(st, ast.If) and not st.orelse and returns_const(st.body, False) and \
                ast.unparse(st.test).replace(' ', '') == want:
            lencheck = True
            rest = rest[1:]
    if len(rest) != 1 or not isinstance(rest[0], ast.Return):
        raise Untranslatable('tail of the function')
    r = ast.unparse(rest[0].value).replace(' ', '')
    if r == f'Counter({p})==Counter({q})':
        core_ = f'msEq {elem_eq} x y'
    elif r == f'set({p})==set({q})':
        core_ = f'setEq {elem_eq} x y'
    else:
        raise Untranslatable('final comparison: ' + r)
    if lencheck:
        core_ = f'if x.length != y.length then false\n    else {core_}'
    b = lambda v: 'true' if v else 'false'  # noqa: E731
    return (f'  | none, none => {b(res[(True, True)])}\n  | none, some _ => {b(res[(True, False)])}\n'
            f'  | some _, none => {b(res[(False, True)])}\n  | some x, some y =>\n    {core_}\n')


# ----------------------------------------------------------------------------- has_mods, mod_dict, strip
def has_pred(cls, name):
    """`def has_x(self): return self._x is not None` -> lean field"""
    fn = cls.get(name)
    if fn is None:
        raise Untranslatable(f'{name} not found')
    b = body_of(fn)
    if len(b) == 1 and isinstance(b[0], ast.Return):
        t = b[0].value
        if isinstance(t, ast.Compare) and len(t.ops) == 1 and isinstance(t.ops[0], ast.IsNot) and is_self_attr(t.left) and \
                isinstance(t.comparators[0], ast.Constant) and t.comparators[0].value is None and t.left.attr in ANN_F:
            return ANN_F[t.left.attr]
    raise Untranslatable(f'{name} is not `return self._x is not None`')


def name_list(e, consts):
    """a literal tuple/list of field names, or the name of a module-level one -> [lean field]"""
    if isinstance(e, ast.Name) and e.id in consts:
        names = consts[e.id]
    elif isinstance(e, (ast.Tuple, ast.List)) and all(isinstance(x, ast.Constant) and isinstance(x.value, str) for x in e.elts):
        names = [x.value for x in e.elts]
    else:
        raise Untranslatable('not a literal tuple of field names: ' + ast.unparse(e)[:40])
    out = []
    for n in names:
        if n not in ANN_F or ANN_F[n] == 'seq':
            raise Untranslatable('unknown field name ' + n)
        out.append(ANN_F[n])
    return out


def tr_has_mods(cls, consts=None):
    consts = consts or {}
    b = body_of(cls['has_mods'])
    if len(b) != 1 or not isinstance(b[0], ast.Return):
        raise Untranslatable('body')
    c = b[0].value
    # any(getattr(self, name) is not None for name in <tuple of field names>)
    if isinstance(c, ast.Call) and isinstance(c.func, ast.Name) and c.func.id == 'any' and len(c.args) == 1 and \
            isinstance(c.args[0], (ast.GeneratorExp, ast.ListComp)):
        g = c.args[0]
        if len(g.generators) == 1 and not g.generators[0].ifs and isinstance(g.generators[0].target, ast.Name):
            v = g.generators[0].target.id
            if ast.unparse(g.elt).replace(' ', '') == f'getattr(self,{v})isnotNone':
                fields = name_list(g.generators[0].iter, consts)
                if not fields:
                    raise Untranslatable('empty field tuple')
                return 'def has_mods (a : Annotation) : Bool :=\n  ' + ' || '.join(f'a.{f}.isSome' for f in fields) + '\n'
        raise Untranslatable('generator form of any(...)')
    if not (isinstance(c, ast.Call) and isinstance(c.func, ast.Name) and c.func.id == 'any' and len(c.args) == 1 and
            isinstance(c.args[0], (ast.List, ast.Tuple))):
        raise Untranslatable('not any([...])')
    parts = []
    for e in c.args[0].elts:
        if not (isinstance(e, ast.Call) and not e.args and is_self_attr(e.func) and e.func.attr.startswith('has_')):
            raise Untranslatable('element of any([...])')
        parts.append(f'a.{has_pred(cls, e.func.attr)}.isSome')
    if not parts:
        raise Untranslatable('empty any')
    return 'def has_mods (a : Annotation) : Bool :=\n  ' + ' || '.join(parts) + '\n'


def tr_mod_dict(cls):
    stmts = body_of(cls['mod_dict'])
    lit = None
    comp = None
    internal = False
    for st in stmts:
        if isinstance(st, ast.Assign) and len(st.targets) == 1 and isinstance(st.targets[0], ast.Name):
            v = st.value
            if isinstance(v, ast.Dict) and len(v.keys) == 1 and v.keys[0] is None and isinstance(v.values[0], ast.DictComp):
                v = v.values[0]                      # {**{comprehension}}
            if isinstance(v, ast.Dict) and all(isinstance(k, ast.Constant) for k in v.keys) and lit is None and comp is None:
                lit = (st.targets[0].id, v)
                continue
            if isinstance(v, ast.DictComp) and comp is None:
                comp = v
                continue
            raise Untranslatable('assignment in mod_dict')
        if isinstance(st, ast.If) and not st.orelse and not internal:
            t = ast.unparse(st.test).replace(' ', '')
            if t not in ('self.internal_mods', 'self.internal_modsisnotNone', 'self.has_internal_mods()'):
                raise Untranslatable('guard of the internal loop')
            ok = len(st.body) == 1 and isinstance(st.body[0], ast.For) and \
                ast.unparse(st.body[0].iter).replace(' ', '') == 'self.internal_mods.items()' and \
                isinstance(st.body[0].target, ast.Tuple) and len(st.body[0].target.elts) == 2 and len(st.body[0].body) == 1
            if ok:
                i, m = (e.id for e in st.body[0].target.elts)
                ok = ast.unparse(st.body[0].body[0]).replace(' ', '') == f'result[{i}]={m}'
            if not ok:
                raise Untranslatable('internal loop')
            internal = True
            continue
        if isinstance(st, ast.Return) and ast.unparse(st.value).replace(' ', '') in ('copy.deepcopy(result)', 'result',
                                                                                      'deepcopy(result)'):
            continue
        raise Untranslatable('statement in mod_dict: ' + ast.unparse(st)[:50])
    if comp is None or not internal:
        raise Untranslatable('no comprehension / no internal loop')
    g = comp.generators
    if len(g) != 1 or len(g[0].ifs) != 1 or not isinstance(g[0].target, ast.Tuple) or len(g[0].target.elts) != 2:
        raise Untranslatable('comprehension form')
    kn, vn = (e.id for e in g[0].target.elts)
    if not (isinstance(comp.key, ast.Name) and comp.key.id == kn and isinstance(comp.value, ast.Name) and comp.value.id == vn):
        raise Untranslatable('comprehension does not copy k: v')
    it = g[0].iter
    if not (isinstance(it, ast.Call) and isinstance(it.func, ast.Attribute) and it.func.attr == 'items' and not it.args):
        raise Untranslatable('comprehension source')
    src = it.func.value
    if isinstance(src, ast.Dict):
        d = src
    elif isinstance(src, ast.Name) and lit is not None and src.id == lit[0]:
        d = lit[1]
    else:
        raise Untranslatable('comprehension source')
    f = ast.unparse(g[0].ifs[0]).replace(' ', '')
    if f == f'{vn}isnotNone':
        truthy = False
    elif f == vn:
        truthy = True
    else:
        raise Untranslatable('filter of the comprehension: ' + f)
    segs = []
    for k, v in zip(d.keys, d.values):
        if not (isinstance(k, ast.Constant) and k.value in DICT_KEYS and is_self_attr(v) and v.attr in ANN_F and
                ANN_F[v.attr] == DICT_FIELD[k.value]):
            raise Untranslatable('entry of the field dictionary: ' + ast.unparse(k))
        fld, ctor, tr = DICT_KEYS[k.value]
        key = '.adducts' if k.value == 'charge_adducts' else '.' + k.value
        segs.append(f'optSegTruthy {key} {ctor} {tr} a{fld}' if truthy else f'optSeg {key} {ctor} a{fld}')
    return 'def mod_dict (a : Annotation) : ModDict :=\n  ' + ' ++\n  '.join(segs + ['idxSeg a.internal']) + '\n'


def tr_strip(cls, consts=None):
    consts = consts or {}
    stmts = body_of(cls['strip'])
    if len(stmts) != 2 or not isinstance(stmts[0], ast.If) or stmts[0].orelse or \
            ast.unparse(stmts[0].test).replace(' ', '') not in ('inplace', 'inplaceisTrue'):
        raise Untranslatable('shape of strip')
    cleared = []
    body = stmts[0].body
    if not body or not (isinstance(body[-1], ast.Return) and (body[-1].value is None or
                                                              (isinstance(body[-1].value, ast.Constant) and
                                                               body[-1].value.value is None))):
        raise Untranslatable('in-place branch does not end in return None')
    for st in body[:-1]:
        if isinstance(st, ast.Assign) and len(st.targets) == 1 and is_self_attr(st.targets[0]) and \
                st.targets[0].attr in ANN_F and isinstance(st.value, ast.Constant) and st.value.value is None and \
                ANN_F[st.targets[0].attr] != 'seq':
            cleared.append(ANN_F[st.targets[0].attr])
        elif isinstance(st, ast.For) and not st.orelse and isinstance(st.target, ast.Name) and len(st.body) == 1 and \
                ast.unparse(st.body[0]).replace(' ', '') == f'setattr(self,{st.target.id},None)':
            cleared += name_list(st.iter, consts)      # for name in <tuple of field names>: setattr(self, name, None)
        else:
            raise Untranslatable('statement in the in-place branch: ' + ast.unparse(st)[:50])
    r = ast.unparse(stmts[1]).replace(' ', '')
    if r not in ('returnProFormaAnnotation(_sequence=self.sequence)', 'returnProFormaAnnotation(_sequence=self._sequence)',
                 'returnProFormaAnnotation(self.sequence)', 'returnProFormaAnnotation(self._sequence)'):
        raise Untranslatable('the new annotation is not ProFormaAnnotation(_sequence=self.sequence)')
    upd = ', '.join(f'{f} := none' for f in cleared)
    return ('-- `strip(inplace=True)`: the listed fields are set to None, everything else stays\n'
            f'def strip_inplace (a : Annotation) : Annotation :=\n  {{ a with {upd} }}\n\n'
            '/-- `strip()`: a new annotation with the sequence only -/\n'
            'def strip (a : Annotation) : Annotation :=\n  { seq := a.seq }\n')


# ----------------------------------------------------------------------------- driver
def read_sources(repo):
    out = {}
    for fn in ('proforma_dataclasses.py', 'proforma_parser.py'):
        tree = ast.parse(open(os.path.join(repo, 'src', 'peptacular', 'proforma', fn)).read())
        for n in tree.body:
            if isinstance(n, ast.Assign) and len(n.targets) == 1 and isinstance(n.targets[0], ast.Name) and \
                    isinstance(n.value, (ast.Tuple, ast.List)) and n.value.elts and \
                    all(isinstance(e, ast.Constant) and isinstance(e.value, str) for e in n.value.elts):
                out.setdefault('#consts', {})[n.targets[0].id] = [e.value for e in n.value.elts]
            if isinstance(n, ast.FunctionDef):
                out.setdefault(n.name, n)
            elif isinstance(n, ast.ClassDef) and n.name in ('Mod', 'Interval', 'ProFormaAnnotation'):
                out[n.name] = {m.name: m for m in n.body if isinstance(m, ast.FunctionDef)}
    return out


HEADER = '''import PeptVerif.Model.EqCoreGen
/-! GENERATED by harness/translate_eqcore.py from src/peptacular/proforma/proforma_dataclasses.py and proforma_parser.py
- do not edit. Each definition is the literal reading of the Python function named in its comment, in the tiny subset the
translator accepts; `Props/C20Gen.lean` proves it equal to the hand-written model. -/
set_option linter.unusedVariables false
namespace GenEq
open Pept

'''


def emit(src, skip):
    unt = dict(skip)
    defs = {}

    def attempt(name, f):
        if name in unt:
            return
        try:
            defs[name] = f()
        except Untranslatable as e:
            unt[name] = str(e)
        except Exception as e:  # noqa - the translator must never crash
            unt[name] = f'{type(e).__name__}: {e}'

    def ref(name):
        return name if (name in defs and name not in unt) else HAND[name].replace('Pept.', '')

    attempt('Mod_eq', lambda: emit_chain('Mod_eq', 'Mod', chain(src['Mod']['__eq__'], MOD_F, (), 'Mod'), {}))
    attempt('are_mods_equal', lambda: 'def are_mods_equal : Option (List Mod) → Option (List Mod) → Bool\n' +
            none_table(src['are_mods_equal'], ref('Mod_eq'), 'Mod'))
    attempt('Interval_eq', lambda: emit_chain('Interval_eq', 'Interval',
                                              chain(src['Interval']['__eq__'], IV_F, ('are_mods_equal',), 'Interval'),
                                              {'are_mods_equal': ref('are_mods_equal')}))
    attempt('are_intervals_equal', lambda: 'def are_intervals_equal : Option (List Interval) → Option (List Interval) → Bool\n' +
            none_table(src['are_intervals_equal'], ref('Interval_eq'), 'Interval'))
    attempt('annotation_eq', lambda: emit_chain('annotation_eq', 'Annotation',
                                                chain(src['ProFormaAnnotation']['__eq__'], ANN_F,
                                                      ('are_mods_equal', 'are_intervals_equal'), 'Ann'),
                                                {'are_mods_equal': ref('are_mods_equal'),
                                                 'are_intervals_equal': ref('are_intervals_equal')}))
    attempt('has_mods', lambda: tr_has_mods(src['ProFormaAnnotation'], src.get('#consts', {})))
    attempt('mod_dict', lambda: tr_mod_dict(src['ProFormaAnnotation']))
    attempt('strip', lambda: tr_strip(src['ProFormaAnnotation'], src.get('#consts', {})))
    done = [n for n in TARGETS if n in defs and n not in unt]
    text = HEADER + '\n'.join(f'/-- `{PY_NAME[n]}` as read from the source -/\n' + defs[n] for n in done) + '\nend GenEq\n'
    return text, unt, done


def assemble_props(done, unt):
    tpl = open(os.path.join(os.path.dirname(__file__), 'c20gen_template.lean')).read()
    head = tpl[:tpl.index('-- BEGIN ')]
    parts = [head]
    for n in TARGETS + ['TRANSFER']:
        m = re.search(r'-- BEGIN %s\n(.*?)-- END %s\n' % (re.escape(n), re.escape(n)), tpl, re.S)
        if n == 'TRANSFER':
            if m and all(t in done for t in TARGETS):
                parts.append(m.group(1))
            else:
                parts.append('-- transfer of the C20 theorems omitted: not every function was translated on this run\n\n')
        elif n in done and m:
            body = m.group(1)
            # a callee that was not translated is referenced through the hand model: its rewrite lemma does not exist
            for c in TARGETS:
                if c not in done:
                    body = re.sub(r',?\s*%s_eq\b' % c, '', body)
            parts.append(body)
        else:
            why = re.sub(r'\s+', ' ', str(unt.get(n, 'no template'))).replace('-/', '- /')[:160]
            parts.append(f'-- {PY_NAME[n]}: not translated ({why}); the hand model is tied by correspondence only\n\n')
    parts.append('end GenEq\n')
    return ''.join(parts)


def write_if_changed(path, body):
    old = open(path).read() if os.path.exists(path) else None
    if old != body:
        os.makedirs(os.path.dirname(path), exist_ok=True)
        with open(path, 'w') as f:
            f.write(body)
        return True
    return False


def translate(chk=None, repo=None, check_compiles=True):
    """-> (translated names, {untranslated name: reason}); writes the two Lean files only when they change"""
    repo = repo or core.REPO
    gpath = os.path.join(core.LEAN, 'PeptVerif', 'Generated', 'EqCorePy.lean')
    ppath = os.path.join(core.LEAN, 'PeptVerif', 'Props', 'C20Gen.lean')
    skip = {}
    try:
        src = read_sources(repo)
        for need in ('Mod', 'Interval', 'ProFormaAnnotation', 'are_mods_equal', 'are_intervals_equal'):
            if need not in src:
                raise KeyError(need)
    except Exception as e:  # noqa
        src = {'Mod': {}, 'Interval': {}, 'ProFormaAnnotation': {}}
        skip = {n: f'source unreadable: {type(e).__name__}: {e}' for n in TARGETS}
    text, unt, done = emit(src, skip)
    old = open(gpath).read() if os.path.exists(gpath) else None
    if check_compiles and text != old:
        # a definition that does not elaborate makes its function untranslated, never the run fail
        subprocess.run(['lake', 'build', 'PeptVerif.Model.EqCoreGen'], cwd=core.LEAN, capture_output=True, text=True)
        for _ in range(len(TARGETS)):
            tmp = os.path.join(core.LEAN, 'PeptVerif', 'Generated', 'EqCorePyCandidate.lean')
            with open(tmp, 'w') as f:
                f.write(text)
            try:
                p = subprocess.run(['lake', 'env', 'lean', os.path.relpath(tmp, core.LEAN)], cwd=core.LEAN, capture_output=True,
                                   text=True, timeout=300)
                outp = p.stdout + p.stderr
            except Exception:  # noqa
                outp = ''
                p = None
            finally:
                if os.path.exists(tmp):
                    os.remove(tmp)
            errs = [int(m.group(1)) for m in re.finditer(r'EqCorePyCandidate\.lean:(\d+):\d+: error', outp)]
            if p is not None and p.returncode == 0 and not errs:
                break
            lines = text.split('\n')
            bad = set()
            for ln in errs or [len(lines)]:
                for i in range(min(ln, len(lines)) - 1, -1, -1):
                    m = re.match(r'def (\w+) ', lines[i])
                    if m:
                        bad.add('strip' if m.group(1) == 'strip_inplace' else m.group(1))
                        break
            if not bad:
                bad = set(done)
            for b in bad:
                skip[b] = 'generated definition does not elaborate'
            text, unt, done = emit(src, skip)
    changed = []
    if write_if_changed(gpath, text):
        changed.append('Generated/EqCorePy.lean')
    if write_if_changed(ppath, assemble_props(done, unt)):
        changed.append('Props/C20Gen.lean')
    if chk is not None:
        chk.generated_changed += changed
        chk.notes.append('equality / dictionary functions translated mechanically (GenEq): %s' %
                         ', '.join(PY_NAME[n] for n in done))
        if unt:
            chk.notes.append('modelled by hand only on this run: %s' % ', '.join(f'{PY_NAME[n]} ({r})' for n, r in unt.items()))
        for n in unt:
            chk.generated_changed.append(f'untranslated:{PY_NAME[n]}')
    return done, unt


if __name__ == '__main__':
    d, u = translate()
    print('translated:', d)
    print('untranslated:', u)
