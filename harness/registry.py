"""what MANIFEST.json claims; kept next to the code so the two move together"""
CHECKS = [
    {'id': 'C06',
     'text': 'Lean theorems: the enzymatic span builder equals the set specification for every n, site list, missed-cleavage bound and length bounds '
             '(mem_buildEnzymatic); the hand-written model of spans.py/digest is tied to /repo by exhaustive correspondence (n<=5 quick, n<=7 thorough) '
             'and the implementation is compared with the Lean set specification through the driver',
     'note': 'trusted: Lean kernel, axioms propext/Classical.choice/Quot.sound, the correspondence harness, regex->sites (outside the model, compared with an independent reading of each named rule)',
     'technique': 'Lean 4 proof about executable model + differential correspondence'},
]
NOT_APPLICABLE = [
    {'property_id': f'C{i:02d}', 'reason': 'check not built yet in this revision (planned at level proof, see DESIGN.md)'}
    for i in range(1, 21) if i not in (6,)
]
