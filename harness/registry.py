"""what MANIFEST.json claims: collected from the REGISTRY literal of every harness/props/cXX.py (no imports needed)"""
import ast
import glob
import os

HERE = os.path.dirname(os.path.abspath(__file__))


def _registry_of(path):
    tree = ast.parse(open(path).read())
    for node in tree.body:
        if isinstance(node, ast.Assign) and any(getattr(t, 'id', None) == 'REGISTRY' for t in node.targets):
            return ast.literal_eval(node.value)
    return None


CHECKS = []
for _p in sorted(glob.glob(os.path.join(HERE, 'props', 'c[0-9][0-9].py'))):
    _r = _registry_of(_p)
    if _r:
        CHECKS.append(_r)

# properties without a registered check; reasons may be overridden in NOT_APPLICABLE_REASONS
NOT_APPLICABLE_REASONS = {}
_claimed = {c['id'] for c in CHECKS}
NOT_APPLICABLE = [
    {'property_id': f'C{i:02d}', 'reason': NOT_APPLICABLE_REASONS.get(f'C{i:02d}', 'check not built yet in this revision (planned at level proof, see DESIGN.md)')}
    for i in range(1, 21) if f'C{i:02d}' not in _claimed
]
