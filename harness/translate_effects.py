"""
C08 translator: Python source of /repo  ->  lean/PeptVerif/Generated/Effects.lean

Reads every module of src/peptacular with `ast` (on every run), translates each function / method reachable from the public
API surface into a flat program of the effect IR of lean/PeptVerif/Model/Effects.lean, computes call summaries to a fixpoint
(with a Python mirror of the Lean transfer functions; Lean re-checks that the table is closed), and emits the Lean module.

Classification rules (this is what joins the trusted base):
  * x = y, x = y or z, x = a if c else b                  -> alias
  * y.attr, y[k], for x in y, tuple unpacking, y.get/pop  -> elem   (x may be anything reachable from y)
  * deepcopy(y), literals of immutables, str/num builtins -> fresh
  * list(y) dict(y) set(y) tuple(y) sorted(y) y[a:b] zip/enumerate/itertools/... , y.copy() on dict/list, copy.copy(y)
                                                          -> shallow (new container, same elements)
  * [a, b] (a, b) {k: v} comprehensions, C(a, b) for a class C, a + b
                                                          -> pack   (new object holding the objects themselves)
  * x[k] = v, x.attr = v (non-property), x.append/extend/insert/add/update/setdefault(v), x += v on containers
                                                          -> store  (writes x; v reachable from x)
  * x.pop/popitem/remove/clear/sort/reverse/discard(..), del x[k], random.shuffle(x)
                                                          -> write
  * random.<anything but Random>(..)                      -> gwrite RNG ; assignment / mutator on a module-level name -> gwrite of it
  * f(..) / x.m(..) resolved inside the package           -> call (by summary); methods by receiver type when inferable, else
                                                             every class defining that name (joined)
  * x.prop = v for a property with setter                 -> call of the setter
  * a call that cannot be resolved and is not in the table of known pure externals
                                                          -> write on the receiver and on every argument (conservative), logged
  * functions with an `inplace` parameter are specialised into inplace=False / inplace=True variants (conditions on
    `inplace` are folded, code after a return in a folded branch is dropped)
"""
import ast
import hashlib
import inspect
import json
import os
import re
import sys

HERE = os.path.dirname(os.path.abspath(__file__))
VERIF = os.path.dirname(HERE)
LEAN_OUT = os.path.join(VERIF, 'lean', 'PeptVerif', 'Generated', 'Effects.lean')
LEAN_DIR = os.path.join(VERIF, 'lean', 'PeptVerif', 'Generated', 'Effects')


def repo_src():
    repo = os.environ.get('VERIF_REPO', '/repo')
    return os.path.join(repo, 'src', 'peptacular')


# ------------------------------------------------------------------------------------------------ tables

MUT_STORE = {'append', 'extend', 'insert', 'add', 'update', 'setdefault', 'appendleft', 'extendleft'}
MUT_WRITE = {'pop', 'popitem', 'remove', 'clear', 'sort', 'reverse', 'discard', 'popleft', 'subtract'}
RET_ELEM = {'get', 'pop', 'setdefault', 'popitem', 'popleft', '__getitem__'}
RET_SHALLOW = {'values', 'items', 'keys', 'copy', 'most_common', 'elements', 'union', 'intersection', 'difference'}
PURE_FRESH = {'join', 'split', 'strip', 'lstrip', 'rstrip', 'startswith', 'endswith', 'replace', 'lower', 'upper', 'format',
              'count', 'index', 'find', 'rfind', 'isdigit', 'isalpha', 'isupper', 'islower', 'isnumeric', 'encode', 'decode',
              'title', 'zfill', 'rsplit', 'splitlines', 'partition', 'rpartition', 'is_integer', 'group', 'groups', 'start',
              'end', 'span', 'finditer', 'findall', 'match', 'search', 'fullmatch', 'sub', 'read', 'readlines', 'isspace',
              'capitalize', 'ljust', 'rjust', 'center', 'bit_length', 'total', 'isalnum', 'casefold', 'hex', 'as_integer_ratio',
              'with_traceback', 'groupdict', 'write', 'close', 'flush', 'seek', 'raise_for_status', 'json', 'iter_lines',
              'getvalue', 'rstrip', 'isidentifier', 'exists', 'is_file', 'open'}
PURE_FUNCS = {'len', 'str', 'int', 'float', 'round', 'sum', 'abs', 'any', 'all', 'isinstance', 'issubclass', 'repr', 'hash', 'range',
              'print', 'ord', 'chr', 'bool', 'type', 'hasattr', 'id', 'callable', 'format', 'divmod', 'pow', 'bin', 'hex', 'open',
              'super', 'ValueError', 'TypeError', 'KeyError', 'IndexError', 'Exception', 'NotImplementedError', 'RuntimeError',
              'AttributeError', 'StopIteration', 'UserWarning', 'DeprecationWarning', 'FileNotFoundError', 'object', 'bytes',
              'complex', 'frozenset', 'slice', 'input', 'vars', 'dir', 'locals', 'globals', 'staticmethod', 'classmethod', 'property',
              'iter'}
ELEM_FUNCS = {'min', 'max', 'next', 'getattr'}
SHALLOW_FUNCS = {'list', 'dict', 'set', 'tuple', 'sorted', 'reversed', 'zip', 'enumerate', 'filter', 'map', 'Counter', 'OrderedDict',
                 'defaultdict', 'deque', 'chain', 'groupby'}
PURE_MODULES = {'re', 'regex', 'itertools', 'math', 'collections', 'functools', 'typing', 'warnings', 'os', 'sys', 'json', 'gzip',
                'io', 'requests', 'urllib', 'pathlib', 'statistics', 'operator', 'string', 'dataclasses', 'enum', 'xml', 'ET',
                'numpy', 'np', 'time', 'datetime', 'shutil', 'tempfile', 'pkgutil', 'csv', 'StringIO', 'doctest'}
TRANSPARENT_DECORATORS = {'dataclass', 'property', 'setter', 'cached_property', 'wraps', 'staticmethod', 'classmethod',
                          '_validate_single_mod_multiplier', 'lru_cache', 'cache'}
RNG = 0   # global id of the module random generator
RECORD_TAGS = {'mod', 'interval', 'fragment', 'fmatch', 'enzcfg', 'modentry'}
RNG_METHODS = {'shuffle', 'seed', 'random', 'randint', 'choice', 'choices', 'sample', 'uniform', 'gauss', 'getrandbits', 'randrange'}
BUILTIN_NAMES = {'int', 'float', 'str', 'bool', 'list', 'dict', 'set', 'tuple', 'bytes', 'object', 'type', 'len', 'print', 'range',
                 'True', 'False', 'None', 'List', 'Dict', 'Tuple', 'Set', 'Union', 'Optional', 'Any', 'Callable', 'Counter',
                 'ValueError', 'TypeError', 'KeyError', 'IndexError', 'Exception', 'isinstance', 'sorted', 'sum', 'min', 'max',
                 'abs', 'round', 'enumerate', 'zip', 'map', 'filter', 'reversed', 'any', 'all', 'repr', 'NotImplemented',
                 'AttributeError', 'StopIteration', 'frozenset', 'Iterable', 'Generator', 'Literal'}


class Fn:
    def __init__(self, qual, module, cls, node, kind):
        self.qual, self.module, self.cls, self.node, self.kind = qual, module, cls, node, kind
        a = node.args
        self.params = [x.arg for x in a.posonlyargs + a.args]
        self.vararg = a.vararg.arg if a.vararg else None
        self.kwonly = [x.arg for x in a.kwonlyargs]
        self.kwarg = a.kwarg.arg if a.kwarg else None
        self.allparams = self.params + ([self.vararg] if self.vararg else []) + self.kwonly + ([self.kwarg] if self.kwarg else [])
        self.annots = {}
        for x in a.posonlyargs + a.args + a.kwonlyargs:
            self.annots[x.arg] = x.annotation
        defaults = {}
        pos = a.posonlyargs + a.args
        for x, d in zip(pos[len(pos) - len(a.defaults):], a.defaults):
            defaults[x.arg] = d
        for x, d in zip(a.kwonlyargs, a.kw_defaults):
            if d is not None:
                defaults[x.arg] = d
        self.defaults = defaults
        self.has_inplace = 'inplace' in self.allparams
        self.returns = node.returns
        self.decorators = [ast.unparse(d) for d in node.decorator_list]


class Package:
    def __init__(self, src):
        self.src = src
        self.modules = {}       # modname -> ast.Module
        self.funcs = {}         # qual -> Fn
        self.by_name = {}       # bare function name -> [qual]
        self.methods = {}       # method name -> [qual]
        self.classes = {}       # class name -> {'module':.., 'methods': {name: qual}, 'props': {name: (getter, setter)}, 'dataclass': bool}
        self.globals = {}       # (module, name) -> gid   mutable module-level objects
        self.global_names = {}  # bare name -> [gid]
        self.gnames = ['random (module generator)']
        self.imports = {}       # module -> {local name: ('mod', modname) | ('obj', modname, name)}
        self.unknown_decorators = set()
        self.type_aliases = {}  # module-level `X = Union[...]` style aliases
        self.star_imports = {}  # module -> [modules imported with *]
        self.conservative = {}  # construct -> [where]: things translated conservatively (reported in the evidence)
        self.index_errors = []
        for root, dirs, files in os.walk(src):
            dirs.sort()
            for fn in sorted(files):
                if fn.endswith('.py'):
                    path = os.path.join(root, fn)
                    rel = os.path.relpath(path, src)[:-3].replace(os.sep, '.')
                    mod = 'peptacular.' + rel if rel != '__init__' else 'peptacular'
                    mod = mod.replace('.__init__', '')
                    try:
                        self.modules[mod] = ast.parse(open(path).read())
                    except SyntaxError as e:
                        self.modules[mod] = ast.parse('')
                        self.index_errors = getattr(self, 'index_errors', []) + [f'{mod}: SyntaxError {e}']
        for mod, tree in self.modules.items():
            try:
                self._index(mod, tree)
            except Exception as e:  # noqa - a module that cannot be indexed leaves its functions unresolved (conservative calls)
                self.index_errors.append(f'{mod}: {type(e).__name__}: {e}')
        # star imports: every top-level function / class / table of the imported package module becomes visible
        for mod, srcs in self.star_imports.items():
            for m in srcs:
                for q, fn in list(self.funcs.items()):
                    if fn.module == m and fn.cls is None:
                        self.imports[mod].setdefault(fn.node.name, ('obj', m, fn.node.name))
                for (gm, gn), g in list(self.globals.items()):
                    if gm == m:
                        self.imports[mod].setdefault(gn, ('obj', m, gn))
                for cn, ci in self.classes.items():
                    if ci['module'] == m:
                        self.imports[mod].setdefault(cn, ('obj', m, cn))

    def _index(self, mod, tree, body=None):
        imp = self.imports.setdefault(mod, {})
        for node in (tree.body if body is None else body):
            if isinstance(node, (ast.If, ast.Try, ast.With)):
                # definitions guarded at module level (TYPE_CHECKING, optional imports): indexed as if unconditional
                for blk in (getattr(node, 'body', []), getattr(node, 'orelse', []), getattr(node, 'finalbody', [])):
                    self._index(mod, tree, blk)
                for h in getattr(node, 'handlers', []):
                    self._index(mod, tree, h.body)
                continue
            if isinstance(node, ast.Import):
                for a in node.names:
                    imp[(a.asname or a.name).split('.')[0]] = ('mod', a.name)
            elif isinstance(node, ast.ImportFrom):
                m = node.module or ''
                if node.level:
                    base = mod.split('.')
                    base = base[:len(base) - node.level]
                    m = '.'.join(base + ([m] if m else []))
                for a in node.names:
                    if a.name == '*':
                        self.star_imports.setdefault(mod, []).append(m)
                    else:
                        imp[a.asname or a.name] = ('obj', m, a.name)
            elif isinstance(node, (ast.FunctionDef, ast.AsyncFunctionDef)):
                self._add_fn(mod, None, node)
            elif isinstance(node, ast.ClassDef):
                info = self.classes.setdefault(node.name, {'module': mod, 'methods': {}, 'props': {}, 'bases': [ast.unparse(b) for b in node.bases],
                                                           'dataclass': any('dataclass' in ast.unparse(d) for d in node.decorator_list)})
                for sub in node.body:
                    if isinstance(sub, (ast.FunctionDef, ast.AsyncFunctionDef)):
                        self._add_fn(mod, node.name, sub)
            elif isinstance(node, (ast.Assign, ast.AnnAssign)):
                targets = node.targets if isinstance(node, ast.Assign) else [node.target]
                val = node.value
                if val is None:
                    continue
                mutable = isinstance(val, (ast.Dict, ast.List, ast.Set, ast.DictComp, ast.ListComp, ast.SetComp)) or (
                    isinstance(val, ast.Call) and isinstance(val.func, ast.Name) and
                    val.func.id in ('dict', 'list', 'set', 'EntryDb', 'defaultdict', 'Counter', 'OrderedDict', 'merge_dicts',
                                    'map_atomic_number_to_comp', 'map_atomic_number_to_comp_neutron_offset', 'get_element_info',
                                    'get_isotopic_atomic_masses', 'map_atomic_symbol_to_average_mass', 'map_atomic_number_to_symbol',
                                    'map_hill_order')) or isinstance(val, ast.BinOp) and isinstance(val.left, (ast.List, ast.Name)) and \
                    isinstance(val.op, ast.Add) and isinstance(val.right, (ast.List, ast.Name))
                for t in targets:
                    if isinstance(t, ast.Name) and not mutable and isinstance(val, ast.Subscript) and isinstance(val.value, ast.Name) \
                            and val.value.id in ('Union', 'Optional', 'List', 'Dict', 'Tuple', 'Set', 'Literal'):
                        self.type_aliases[t.id] = val
                    if isinstance(t, ast.Name) and mutable and not t.id.startswith('__'):
                        gid = len(self.gnames)
                        self.gnames.append(f'{mod}.{t.id}')
                        self.globals[(mod, t.id)] = gid
                        self.global_names.setdefault(t.id, []).append(gid)

    def _add_fn(self, mod, cls, node):
        kind = 'func' if cls is None else 'method'
        name = node.name
        for d in node.decorator_list:
            ds = ast.unparse(d)
            base = ds.split('(')[0].split('.')[-1]
            if base == 'setter':
                kind = 'setter'
            elif base in ('property', 'cached_property'):
                kind = 'getter'
            elif base == 'staticmethod':
                kind = 'static'
            if base not in TRANSPARENT_DECORATORS:
                self.unknown_decorators.add(ds)
        qual = f'{mod}.{cls}.{name}' if cls else f'{mod}.{name}'
        if kind == 'setter':
            qual += '.setter'
        fn = Fn(qual, mod, cls, node, kind)
        self.funcs[qual] = fn
        if cls is None:
            self.by_name.setdefault(name, []).append(qual)
        else:
            ci = self.classes[cls]
            if kind == 'setter':
                g, _ = ci['props'].get(name, (None, None))
                ci['props'][name] = (g, qual)
            elif kind == 'getter':
                _, s = ci['props'].get(name, (None, None))
                ci['props'][name] = (qual, s)
            else:
                ci['methods'][name] = qual
                self.methods.setdefault(name, []).append(qual)
        # nested defs (decorator wrappers) are not indexed: treated through the transparent-decorator rule

    def conservative_note(self, what, where):
        self.conservative.setdefault(what, [])
        if where not in self.conservative[what]:
            self.conservative[what].append(where)

    def memo_global(self, qual):
        """the process-wide object standing for the cache of an lru_cache / cache decorated function"""
        key = ('<memo>', qual)
        if key not in self.globals:
            self.globals[key] = len(self.gnames)
            self.gnames.append('memo cache of ' + qual)
        return self.globals[key]

    def resolve_func(self, name, mod):
        """module-level function `name` as seen from module `mod`"""
        q = f'{mod}.{name}'
        if q in self.funcs:
            return [q]
        imp = self.imports.get(mod, {}).get(name)
        if imp and imp[0] == 'obj':
            q = f'{imp[1]}.{imp[2]}'
            if q in self.funcs:
                return [q]
            # re-export through a package __init__
            cands = [c for c in self.by_name.get(imp[2], [])]
            if len(cands) >= 1 and imp[1].startswith('peptacular'):
                return cands
        return []

    def class_tag(self, cname):
        return {'ProFormaAnnotation': 'annot', 'MultiProFormaAnnotation': 'multi', 'Mod': 'mod', 'Interval': 'interval',
                'Fragment': 'fragment', 'FragmentMatch': 'fmatch', 'EntryDb': 'entrydb', 'ModEntry': 'modentry',
                'EnzymeConfig': 'enzcfg', 'Fragmenter': 'fragmenter'}.get(cname, 'cls:' + cname)


TAG_CLASS = {'annot': 'ProFormaAnnotation', 'multi': 'MultiProFormaAnnotation', 'mod': 'Mod', 'interval': 'Interval',
             'fragment': 'Fragment', 'fmatch': 'FragmentMatch', 'entrydb': 'EntryDb', 'modentry': 'ModEntry',
             'enzcfg': 'EnzymeConfig', 'fragmenter': 'Fragmenter'}
ANNOT_ATTR_TYPES = {'sequence': 'scalar', '_sequence': 'scalar', 'charge': 'scalar', '_charge': 'scalar',
                    'internal_mods': 'dict', '_internal_mods': 'dict', 'intervals': 'list:interval', '_intervals': 'list:interval'}
for _k in ('isotope', 'static', 'labile', 'unknown', 'nterm', 'cterm'):
    ANNOT_ATTR_TYPES[_k + '_mods'] = 'list:mod'
    ANNOT_ATTR_TYPES['_' + _k + '_mods'] = 'list:mod'
ANNOT_ATTR_TYPES['charge_adducts'] = 'list:mod'
ANNOT_ATTR_TYPES['_charge_adducts'] = 'list:mod'


def type_of_annotation(node, pkg, depth=0):
    """coarse type tag of a type annotation.
    'scalar' = immutable value (numbers, strings, tuples of them); 'scalars' = a mutable container whose elements are all scalar;
    'list:T' / 'dict:V' = containers with element / value type T / V; record and class tags; 'unknown'."""
    if node is None or depth > 6:
        return 'unknown'
    T = lambda n: type_of_annotation(n, pkg, depth + 1)   # noqa
    if isinstance(node, ast.Constant):
        if isinstance(node.value, str):
            try:
                return T(ast.parse(node.value, mode='eval').body)
            except SyntaxError:
                return 'unknown'
        return 'scalar'
    if isinstance(node, (ast.Name, ast.Attribute)):
        nm = node.id if isinstance(node, ast.Name) else node.attr
        if nm in pkg.classes:
            return pkg.class_tag(nm)
        if nm in ('str', 'int', 'float', 'bool', 'None', 'bytes', 'Span'):
            return 'scalar'
        if nm in ('ChemComposition',):
            return 'scalars'        # Dict[str, Union[int, float]]
        if nm in ('Dict', 'dict', 'ModDict', 'Counter', 'CounterType', 'DefaultDict'):
            return 'dict'
        if nm in ('List', 'list', 'Set', 'set', 'Iterable', 'Sequence', 'Generator', 'Iterator', 'Tuple', 'tuple'):
            return 'list:unknown'
        if nm in ('FRAGMENT_RETURN_TYPING', 'DIGEST_RETURN_TYPING', 'ModValue'):
            return 'unknown'
        if nm in pkg.type_aliases:
            return T(pkg.type_aliases[nm])
        return 'unknown'
    if isinstance(node, ast.Subscript):
        base = node.value.id if isinstance(node.value, ast.Name) else getattr(node.value, 'attr', '')
        sl = node.slice
        items = list(sl.elts) if isinstance(sl, ast.Tuple) else [sl]
        if base in ('List', 'list', 'Set', 'set', 'Iterable', 'Sequence', 'Generator', 'Iterator'):
            t = T(items[0])
            return 'scalars' if t == 'scalar' else 'list:' + t
        if base in ('Tuple', 'tuple'):
            ts = [T(i) for i in items if not (isinstance(i, ast.Constant) and i.value is Ellipsis)]
            return 'scalar' if ts and all(t == 'scalar' for t in ts) else 'list:unknown'
        if base in ('Dict', 'dict', 'DefaultDict', 'Counter'):
            vt = T(items[1]) if len(items) == 2 else 'unknown'
            return 'scalars' if vt == 'scalar' else ('dict' if vt == 'unknown' else 'dict:' + vt)
        if base == 'Optional':
            return T(items[0])
        if base == 'Union':
            ts = [T(i) for i in items]
            for pref in ('annot', 'multi'):
                if pref in ts:
                    return pref
            for t in ts:
                if t.startswith('dict'):
                    return t
            for t in ts:
                if t.startswith('list'):
                    return t
            for t in ts:
                if t not in ('scalar', 'scalars', 'unknown'):
                    return t
            if 'unknown' in ts:
                return 'unknown'
            return 'scalars' if 'scalars' in ts else 'scalar'
        if base == 'Literal':
            return 'scalar'
        return 'unknown'
    if isinstance(node, ast.BinOp):   # X | Y
        return T(ast.Subscript(value=ast.Name(id='Union'), slice=ast.Tuple(elts=[node.left, node.right])))
    return 'unknown'


def cast_of_type(ty):
    """('rec', d) if values of this static type are records at depth d (0..2), ('leaf',) for containers of scalars, else None"""
    if ty == 'scalars':
        return ('leaf',)
    parts = ty.split(':')
    d = 0
    while parts and parts[0] in ('list', 'dict', 'kv') and d < 3:
        parts = parts[1:]
        d += 1
    if parts and parts[0] in RECORD_TAGS and len(parts) == 1 and d <= 2:
        return ('rec', d)
    return None


# ------------------------------------------------------------------------------------------------ function translation

class Translator:
    def __init__(self, pkg):
        self.pkg = pkg
        self.variants = {}       # (qual, inplace) -> fid
        self.order = []          # fid -> (qual, inplace)
        self.progs = {}          # fid -> dict(stmts, nparams, ret, nvars, names)
        self.log = {'unresolved_calls': {}, 'unknown_receiver_methods': {}}
        self.pending = []

    def fid(self, qual, inplace):
        fn = self.pkg.funcs[qual]
        if not fn.has_inplace:
            inplace = None
        key = (qual, inplace)
        if key not in self.variants:
            self.variants[key] = len(self.order)
            self.order.append(key)
            self.pending.append(key)
        return self.variants[key]

    def run(self, roots):
        for qual, inplace in roots:
            self.fid(qual, inplace)
        while self.pending:
            key = self.pending.pop()
            self.progs[self.variants[key]] = FnTranslation(self, self.pkg.funcs[key[0]], key[1]).translate()


class FnTranslation:
    def __init__(self, tr, fn, inplace):
        self.tr, self.pkg, self.fn, self.inplace = tr, tr.pkg, fn, inplace
        self.stmts = []
        self.names = []
        self.cur = {}            # source name -> current version (var id); assignments outside loops/try rename (strong update)
        self.vtypes = {}         # var id -> set of type tags
        self.weak = set()        # names whose assignments must not rename (inside loops / try bodies)
        self.globals_decl = set()
        self.local_funcs = {}    # name -> (param var ids, result var)
        self.recvars = set()
        self.local_classes = set()   # classes defined inside this function: C(args) packs the arguments and runs C.__init__
        self.in_local = False    # inside a nested def / lambda body (its returns are not the function's)
        for p in fn.allparams:
            self.cur[p] = self.newvar(p, raw=True)
        self.nparams = len(fn.allparams)
        self.ret = self.newvar('<ret>', raw=True)
        for p in fn.allparams:
            t = type_of_annotation(fn.annots.get(p), self.pkg)
            if p == 'self' and fn.cls:
                t = self.pkg.class_tag(fn.cls)
            if p == fn.vararg:
                t = 'scalars' if t == 'scalar' else 'list:' + t
            self.addtype(self.cur[p], t)

    # ---- variables
    def newvar(self, hint='t', raw=False):
        v = len(self.names)
        self.names.append(hint if raw else f'<{hint}{v}>')
        return v

    def addtype(self, v, t):
        if v is not None and t and t != 'unknown':
            self.vtypes.setdefault(v, set()).add(t)

    def typeof_var(self, v):
        ts0 = self.vtypes.get(v, set())
        ts = {t for t in ts0 if t != 'scalar'} or set(ts0)
        if len(ts) == 1:
            return next(iter(ts))
        return 'unknown'

    def typeof_name(self, name):
        if name in self.cur:
            return self.typeof_var(self.cur[name])
        return 'unknown'

    def is_scalar_var(self, v):
        ts = self.vtypes.get(v, set())
        return bool(ts) and ts == {'scalar'}

    def emit(self, *s):
        self.stmts.append(tuple(s))

    def bind(self, name, v, ty):
        """assignment to a plain name: rename (strong update) unless the name is weak here"""
        if name in self.weak and name in self.cur:
            x = self.cur[name]
        else:
            x = self.newvar(name + '#', raw=False)
            self.cur[name] = x
        if v is not None:
            v = self.rec_wrap(v, ty)
            self.emit('alias', x, (v,))
        self.addtype(x, ty)
        if v is not None:
            for t in self.vtypes.get(v, ()):     # the value's own type information
                if ty in (None, 'unknown'):
                    self.addtype(x, t)
        return x

    def merge(self, pre, states):
        """join of the name tables of the live branches"""
        names = set()
        for st in states:
            names |= set(st)
        out = {}
        for n in sorted(names):
            ids = []
            for st in states:
                v = st.get(n, pre.get(n))
                if v is not None and v not in ids:
                    ids.append(v)
            if len(ids) == 1:
                out[n] = ids[0]
            elif ids:
                m = self.newvar(n + '@')
                self.emit('alias', m, tuple(ids))
                for v in ids:
                    for t in self.vtypes.get(v, ()):
                        self.addtype(m, t)
                out[n] = m
        return out

    def weaken(self, names):
        """enter a region (loop / try) in which the given names are assigned weakly: one head variable per name"""
        saved = set(self.weak)
        for n in sorted(names):
            if n in self.weak and n in self.cur:
                continue
            h = self.newvar(n + '~')
            if n in self.cur:
                self.emit('alias', h, (self.cur[n],))
                for t in self.vtypes.get(self.cur[n], ()):
                    self.addtype(h, t)
            self.cur[n] = h
            self.weak.add(n)
        return saved

    @staticmethod
    def assigned_names(nodes):
        out = set()
        for node in nodes:
            for sub in ast.walk(node):
                if isinstance(sub, ast.Name) and isinstance(sub.ctx, (ast.Store, ast.Del)):
                    out.add(sub.id)
                elif isinstance(sub, (ast.FunctionDef,)):
                    out.add(sub.name)
        return out

    # ---- entry
    def translate(self):
        for i, p in enumerate(self.fn.allparams):
            self.emit('param', i, i)
        memo = [d for d in self.fn.decorators if d.split('(')[0].split('.')[-1] in ('lru_cache', 'cache')]
        unknown_dec = [d for d in self.fn.decorators if d.split('(')[0].split('.')[-1] not in TRANSPARENT_DECORATORS]
        if unknown_dec:
            # a decorator the translator does not know may keep state and may touch the arguments: the function is treated as
            # writing every parameter and as handing out a process-wide object
            self.pkg.conservative_note('unknown decorator ' + unknown_dec[0].split('(')[0], self.fn.qual)
            for i, _ in enumerate(self.fn.allparams):
                self.emit('write', i)
                d = self.newvar('d')
                self.emit('elem', d, i)
                self.emit('write', d)
        if (memo or unknown_dec) and type_of_annotation(self.fn.returns, self.pkg) != 'scalar':
            # a memoised function hands out the object stored in its cache: the result is a process-wide object
            # (a result annotated as number / string is immutable: benign memo, nothing shared)
            g = self.pkg.memo_global(self.fn.qual)
            m = self.newvar('memo!')
            self.emit('global', m, g)
            self.emit('alias', self.ret, (m,))
        try:
            self.block(self.fn.node.body)
        except Exception as e:  # noqa - never abort: the whole function becomes "writes everything it was given, returns anything"
            self.pkg.conservative_note(f'translator exception {type(e).__name__}', self.fn.qual)
            allv = list(range(self.nparams))
            for v in allv:
                self.emit('write', v)
                d = self.newvar('d')
                self.emit('elem', d, v)
                self.emit('write', d)
            self.emit('alias', self.ret, tuple(allv))
            self.emit('gwrite', RNG)
        return {'stmts': self.dedup(self.stmts), 'nparams': self.nparams, 'ret': self.ret, 'names': self.names,
                'qual': self.fn.qual, 'inplace': self.inplace, 'params': list(self.fn.allparams)}

    @staticmethod
    def dedup(stmts):
        seen, out = set(), []
        for s in stmts:
            k = repr(s)
            if k not in seen:
                seen.add(k)
                out.append(s)
        return out

    # ---- conservative fallback for constructs the translator has no rule for
    def conservative_node(self, node, what):
        """every name the construct mentions may be written (itself and what it holds); the value may be any of them"""
        self.pkg.conservative_note(what, self.fn.qual)
        vs = []
        for sub in ast.walk(node):
            if isinstance(sub, ast.Name) and isinstance(sub.ctx, ast.Load):
                v = self.lookup(sub.id)
                if v is not None and v not in vs:
                    vs.append(v)
        for v in vs:
            self.emit('write', v)
            d = self.newvar('d')
            self.emit('elem', d, v)
            self.emit('write', d)
        t = self.newvar('cons')
        self.emit('pack', t, tuple(vs))
        for sub in ast.walk(node):
            if isinstance(sub, ast.Name) and isinstance(sub.ctx, (ast.Store, ast.Del)):
                self.bind(sub.id, t, 'unknown')
        return t

    # ---- statements
    def fold(self, test):
        """truth value of a condition on `inplace`, or None"""
        if self.inplace is None:
            return None
        if isinstance(test, ast.Name) and test.id == 'inplace':
            return self.inplace
        if isinstance(test, ast.UnaryOp) and isinstance(test.op, ast.Not):
            v = self.fold(test.operand)
            return None if v is None else (not v)
        if isinstance(test, ast.Compare) and len(test.ops) == 1 and isinstance(test.left, ast.Name) and test.left.id == 'inplace' \
                and isinstance(test.comparators[0], ast.Constant) and isinstance(test.comparators[0].value, bool):
            c = test.comparators[0].value
            if isinstance(test.ops[0], (ast.Is, ast.Eq)):
                return self.inplace == c
            if isinstance(test.ops[0], (ast.IsNot, ast.NotEq)):
                return self.inplace != c
        return None

    def block(self, body):
        """returns True if the block certainly ends (return / raise on the folded path)"""
        for st in body:
            if self.stmt(st):
                return True
        return False

    def stmt(self, st):
        if isinstance(st, ast.Return):
            if st.value is not None:
                v = self.expr(st.value)
                rt = type_of_annotation(self.fn.returns, self.pkg) if not self.in_local else 'unknown'
                if v is not None and rt != 'scalar':        # a function annotated to return a number / string returns nothing shared
                    v = self.rec_wrap(v, rt)
                    self.emit('alias', self.ret, (v,))
            return True
        if isinstance(st, ast.Raise):
            if st.exc is not None:
                self.expr(st.exc)
            return True
        if isinstance(st, ast.Expr):
            if isinstance(st.value, (ast.Yield, ast.YieldFrom)):
                if st.value.value is not None:
                    v = self.expr(st.value.value)
                    if v is not None:
                        if isinstance(st.value, ast.YieldFrom):
                            self.emit('alias', self.ret, (v,))
                        else:
                            t = self.newvar('gen')
                            self.emit('pack', t, (v,))
                            self.emit('alias', self.ret, (t,))
                return False
            self.expr(st.value)
            return False
        if isinstance(st, ast.Assign):
            v = self.expr(st.value)
            ty = self.typeof(st.value)
            for t in st.targets:
                self.assign(t, v, ty, st.value)
            return False
        if isinstance(st, ast.AnnAssign):
            if st.value is not None:
                v = self.expr(st.value)
                self.assign(st.target, v, type_of_annotation(st.annotation, self.pkg), st.value)
            return False
        if isinstance(st, ast.AugAssign):
            v = self.expr(st.value)
            tgt = st.target
            if isinstance(tgt, ast.Name):
                ty = self.typeof_name(tgt.id)
                x = self.lookup(tgt.id)
                if x is None or ty == 'scalar' or (ty == 'unknown' and self.typeof(st.value) == 'scalar'):
                    self.bind(tgt.id, self.join(x, v), 'scalar' if ty == 'scalar' else 'unknown')
                else:
                    if v is None:
                        self.emit('write', x)
                    else:
                        self.emit('store', x, v)
                    self.global_write_check(tgt.id)
            else:
                base = self.expr(tgt.value)
                if base is not None:
                    if v is None:
                        self.emit('write', base)
                    else:
                        self.emit('store', base, v)
                self.global_target_check(tgt.value)
            return False
        if isinstance(st, ast.Delete):
            for t in st.targets:
                if isinstance(t, (ast.Subscript, ast.Attribute)):
                    b = self.expr(t.value)
                    if b is not None:
                        self.emit('write', b)
                    self.global_target_check(t.value)
            return False
        if isinstance(st, ast.If):
            f = self.fold(st.test)
            if f is True:
                return self.block(st.body)
            if f is False:
                return self.block(st.orelse)
            self.expr(st.test)
            pre = dict(self.cur)
            self.narrow(st.test)
            a = self.block(st.body)
            s1 = self.cur
            self.cur = dict(pre)
            b = self.block(st.orelse) if st.orelse else False
            s2 = self.cur
            live = [x for x, t in ((s1, a), (s2, b)) if not t]
            if not live:
                self.cur = s1
                return True
            self.cur = self.merge(pre, live)
            return False
        if isinstance(st, (ast.For, ast.AsyncFor)):
            it = self.expr(st.iter)
            ety = self.untrunc(self.elemtype(self.typeof(st.iter)))
            saved = self.weaken(self.assigned_names([st.target] + st.body + st.orelse))
            if it is not None and ety != 'scalar':
                e = self.newvar('it')
                self.emit('elem', e, it)
                self.assign(st.target, e, ety, None, unpack_elem=True)
            else:
                self.assign(st.target, None, ety, None)
            self.block(st.body)
            self.block(st.orelse)
            self.weak = saved
            return False
        if isinstance(st, ast.While):
            saved = self.weaken(self.assigned_names(st.body + st.orelse))
            self.expr(st.test)
            self.block(st.body)
            self.block(st.orelse)
            self.weak = saved
            return False
        if isinstance(st, (ast.With, ast.AsyncWith)):
            for item in st.items:
                v = self.expr(item.context_expr)
                if item.optional_vars is not None:
                    self.assign(item.optional_vars, v, 'unknown', None)
            return self.block(st.body)
        if isinstance(st, ast.Try):
            saved = self.weaken(self.assigned_names(st.body + st.handlers + st.orelse))
            pre = dict(self.cur)
            t0 = self.block(st.body)
            t0 = self.block(st.orelse) or t0
            terms = [t0]
            for h in st.handlers:
                self.cur = dict(pre)
                if h.name:
                    self.bind(h.name, None, 'scalar')
                terms.append(self.block(h.body))
            self.cur = dict(pre)       # weak names: every version is the head variable, the table is the same on every path
            self.weak = saved
            tf = self.block(st.finalbody)
            return tf or all(terms)
        if isinstance(st, (ast.FunctionDef, ast.ClassDef, ast.Import, ast.ImportFrom, ast.Pass, ast.Break, ast.Continue, ast.Nonlocal)):
            if isinstance(st, ast.FunctionDef):
                self.local_function(st.name, st.args, st.body)
            elif isinstance(st, ast.ClassDef):
                for sub in st.body:
                    if isinstance(sub, (ast.FunctionDef, ast.AsyncFunctionDef)):
                        self.local_function(st.name + '.' + sub.name, sub.args, sub.body)
                self.local_classes.add(st.name)
            return False
        if isinstance(st, ast.Global):
            for n in st.names:
                self.globals_decl.add(n)
            return False
        if isinstance(st, ast.Assert):
            self.expr(st.test)
            return False
        if isinstance(st, ast.Match):
            subj = self.expr(st.subject)
            pre = dict(self.cur)
            states, terms = [], []
            for c in st.cases:
                self.cur = dict(pre)
                # names captured by the pattern may be the subject or anything inside it
                for sub in ast.walk(c.pattern):
                    nm = getattr(sub, 'name', None) if isinstance(sub, (ast.MatchAs, ast.MatchStar)) else \
                        (getattr(sub, 'rest', None) if isinstance(sub, ast.MatchMapping) else None)
                    if nm:
                        if subj is not None:
                            e = self.newvar('m')
                            self.emit('alias', e, (subj,))
                            self.emit('elem', e, subj)
                            self.bind(nm, e, 'unknown')
                        else:
                            self.bind(nm, None, 'unknown')
                    if isinstance(sub, ast.MatchValue):
                        self.expr(sub.value)
                if c.guard is not None:
                    self.expr(c.guard)
                terms.append(self.block(c.body))
                states.append(self.cur)
            live = [x for x, t in zip(states, terms) if not t] + [pre]
            self.cur = self.merge(pre, live)
            return False
        if isinstance(st, (ast.AsyncFunctionDef,)):
            self.local_function(st.name, st.args, st.body)
            return False
        self.conservative_node(st, 'statement ' + type(st).__name__)
        return False

    def narrow(self, test):
        """`if isinstance(x, Mod):` - inside the branch x is a record"""
        if isinstance(test, ast.Call) and isinstance(test.func, ast.Name) and test.func.id == 'isinstance' and len(test.args) == 2 \
                and isinstance(test.args[0], ast.Name) and isinstance(test.args[1], ast.Name):
            nm, cls = test.args[0].id, test.args[1].id
            if cls in self.pkg.classes and nm in self.cur and self.cur[nm] is not None:
                tag = self.pkg.class_tag(cls)
                if tag in RECORD_TAGS:
                    v = self.rec_wrap(self.cur[nm], tag)
                    self.cur[nm] = v

    def global_write_check(self, name):
        if name in self.globals_decl:
            for g in self.pkg.global_names.get(name, []):
                self.emit('gwrite', g)

    def global_target_check(self, node):
        pass   # writes through a name bound by a `global` statement are found by the points-to sets (name -> glob g)

    def assign(self, target, v, ty, value_node, unpack_elem=False):
        if isinstance(target, ast.Name):
            if isinstance(value_node, ast.Lambda):
                self.local_function(target.id, value_node.args, [ast.Return(value=value_node.body)])
                return
            self.bind(target.id, v, ty)
            self.global_write_check(target.id)
            return
        if isinstance(target, (ast.Tuple, ast.List)):
            if value_node is not None and isinstance(value_node, (ast.Tuple, ast.List)) and len(value_node.elts) == len(target.elts):
                for t, e in zip(target.elts, value_node.elts):
                    self.assign(t, self.expr(e), self.typeof(e), e)
                return
            subtypes = ['unknown'] * len(target.elts)
            if ty and ty.startswith('kv') and len(target.elts) == 2:      # (key, value) of dict.items(): keys are hashable values
                subtypes = ['scalar', self.untrunc(ty.split(':', 1)[1]) if ':' in ty else 'unknown']
            for t, sty in zip(target.elts, subtypes):
                if isinstance(t, ast.Starred):
                    t = t.value
                if v is not None and sty != 'scalar':
                    e = self.newvar('un')
                    self.emit('elem', e, v)
                    self.assign(t, e, sty, None)
                else:
                    self.assign(t, None, sty, None)
            return
        if isinstance(target, ast.Attribute):
            base = self.expr(target.value)
            bty = self.typeof(target.value)
            cls = TAG_CLASS.get(bty) or (bty[4:] if bty.startswith('cls:') else None)
            setters = []
            if cls and cls in self.pkg.classes:
                g, s = self.pkg.classes[cls]['props'].get(target.attr, (None, None))
                if s:
                    setters = [s]
            elif bty == 'unknown':
                for cn, ci in self.pkg.classes.items():
                    g, s = ci['props'].get(target.attr, (None, None))
                    if s:
                        setters.append(s)
            if setters and base is not None:
                for s in setters:
                    r = self.newvar('r')
                    self.emit('call', r, self.tr.fid(s, None), (base, v))
                if bty == 'unknown' and v is not None:
                    self.emit('store', base, v)
            elif base is not None:
                if v is None:
                    self.emit('write', base)
                else:
                    self.emit('store', base, v)
            return
        if isinstance(target, ast.Subscript):
            base = self.expr(target.value)
            self.expr(target.slice)
            if base is not None:
                if v is None:
                    self.emit('write', base)
                else:
                    self.emit('store', base, v)
            return
        if isinstance(target, ast.Starred):
            return self.assign(target.value, v, ty, value_node)
        self.conservative_node(target, 'assignment target ' + type(target).__name__)

    # ---- names
    def lookup(self, name, define=False):
        """var id of a name read here; None for names that denote nothing mutable (builtins, scalars, modules)"""
        if name in self.cur:
            return self.cur[name]
        if name in BUILTIN_NAMES:
            return None
        gids = []
        g = self.pkg.globals.get((self.fn.module, name))
        if g is not None:
            gids = [g]
        else:
            imp = self.pkg.imports.get(self.fn.module, {}).get(name)
            if imp and imp[0] == 'obj':
                g = self.pkg.globals.get((imp[1], imp[2]))
                if g is not None:
                    gids = [g]
                elif imp[1].startswith('peptacular') and imp[2] in self.pkg.global_names:
                    gids = self.pkg.global_names[imp[2]]
        if name == 'random' and self.pkg.imports.get(self.fn.module, {}).get('random') == ('mod', 'random'):
            gids = [RNG]
        if not gids:
            return None
        x = self.newvar(name + '!')
        self.cur[name] = x
        for g in gids:
            self.emit('global', x, g)
        return x

    def local_function(self, name, args, body):
        """nested def / lambda bound to a name: parameters are weak variables, calls alias the arguments into them"""
        params = []
        shared = sorted(n for n in self.assigned_names(body) if n in self.cur and self.cur[n] is not None)
        if shared:
            self.weaken(shared)        # closure / nonlocal writes: one variable for the rest of the enclosing function
        saved_cur, saved_ret = dict(self.cur), self.ret
        for a in list(getattr(args, 'posonlyargs', [])) + list(args.args) + list(args.kwonlyargs) + \
                ([args.vararg] if args.vararg else []) + ([args.kwarg] if args.kwarg else []):
            v = self.newvar(name + '.' + a.arg)
            params.append(v)
            self.cur[a.arg] = v
        res = self.newvar(name + '.ret')
        self.ret = res
        self.local_funcs[name] = (params, res)
        saved_local, self.in_local = self.in_local, True
        try:
            self.block(body)
        finally:
            self.in_local = saved_local
            self.ret = saved_ret
            self.cur = saved_cur
            self.cur[name] = None

    # ---- types of expressions
    def elemtype(self, t):
        if t == 'scalars':
            return 'scalar'
        return t.split(':', 1)[1] if t.startswith('list:') else 'unknown'

    @staticmethod
    def untrunc(t):
        """type tags are cut after one level of nesting: a bare 'list' / 'dict' element tag means a container of unknown content"""
        return {'list': 'list:unknown'}.get(t, t)

    def typeof(self, e):
        if e is None:
            return 'unknown'
        if isinstance(e, ast.Name):
            return self.typeof_name(e.id)
        if isinstance(e, (ast.Constant, ast.JoinedStr, ast.Compare)):
            return 'scalar'
        if isinstance(e, ast.BoolOp):
            ts = {self.typeof(v) for v in e.values}
            return ts.pop() if len(ts) == 1 else 'unknown'
        if isinstance(e, ast.UnaryOp):
            return 'scalar'
        if isinstance(e, ast.BinOp):
            l, r = self.typeof(e.left), self.typeof(e.right)
            if l == 'scalar' or r == 'scalar':
                return 'scalar'
            if l.startswith('list') or r.startswith('list'):
                return 'list:unknown'
            return 'unknown'
        if isinstance(e, (ast.List, ast.ListComp, ast.Set, ast.SetComp, ast.Tuple, ast.GeneratorExp)):
            if isinstance(e, (ast.ListComp, ast.SetComp, ast.GeneratorExp)):
                t = self.typeof(e.elt)
                return 'scalars' if t == 'scalar' else 'list:' + t
            return 'list:unknown'
        if isinstance(e, (ast.Dict, ast.DictComp)):
            return 'dict'
        if isinstance(e, ast.IfExp):
            a, b = self.typeof(e.body), self.typeof(e.orelse)
            if a == b:
                return a
            if a in ('scalar', 'unknown'):
                return b if a == 'scalar' and isinstance(e.body, ast.Constant) and e.body.value is None else 'unknown'
            if b in ('scalar',) and isinstance(e.orelse, ast.Constant) and e.orelse.value is None:
                return a
            return 'unknown'
        if isinstance(e, ast.Attribute):
            bt = self.typeof(e.value)
            if bt == 'annot':
                return ANNOT_ATTR_TYPES.get(e.attr, 'unknown')
            if bt == 'multi' and e.attr == 'annotations':
                return 'list:annot'
            if bt == 'interval' and e.attr == 'mods':
                return 'list:mod'
            if bt == 'fmatch' and e.attr == 'fragment':
                return 'fragment'
            if bt == 'fragment' and e.attr == 'parent_sequence':
                return 'annot'
            if bt == 'fragmenter' and e.attr == 'annotation':
                return 'annot'
            if bt in ('mod', 'fragment', 'interval', 'fmatch', 'modentry', 'enzcfg'):
                return 'scalar' if e.attr not in ('regex', 'synonyms', 'entries') else 'unknown'
            return 'unknown'
        if isinstance(e, ast.Subscript):
            if isinstance(e.slice, ast.Slice):
                return self.typeof(e.value)
            bt = self.typeof(e.value)
            if bt.startswith('list:'):
                return self.untrunc(self.elemtype(bt))
            if bt.startswith('dict:'):
                return self.untrunc(bt.split(':', 1)[1])
            if bt == 'scalars':
                return 'scalar'
            return 'unknown'
        if isinstance(e, ast.Call):
            f = e.func
            if isinstance(f, ast.Name):
                if f.id in ('deepcopy',) and e.args:
                    return self.typeof(e.args[0])
                if f.id in ('list', 'sorted', 'tuple', 'set', 'reversed', 'zip', 'enumerate', 'range', 'filter', 'map'):
                    if f.id == 'range':
                        return 'scalars'
                    if f.id in ('list', 'sorted', 'tuple', 'set', 'reversed') and e.args:
                        t = self.typeof(e.args[0])
                        if t == 'scalars':
                            return 'scalars'
                        return t if t.startswith('list:') else 'list:unknown'
                    return 'list:unknown'
                if f.id in ('dict', 'Counter', 'defaultdict', 'OrderedDict'):
                    return 'dict'
                if f.id in ('len', 'str', 'int', 'float', 'round', 'sum', 'abs', 'any', 'all', 'isinstance', 'repr', 'bool', 'min', 'max'):
                    return 'scalar' if f.id not in ('min', 'max') else 'unknown'
                if f.id in self.pkg.classes:
                    return self.pkg.class_tag(f.id)
                quals = self.pkg.resolve_func(f.id, self.fn.module)
                ts = {type_of_annotation(self.pkg.funcs[q].returns, self.pkg) for q in quals}
                return ts.pop() if len(ts) == 1 else 'unknown'
            if isinstance(f, ast.Attribute):
                if isinstance(f.value, ast.Name) and f.value.id == 'copy' and f.attr in ('deepcopy', 'copy') and e.args:
                    return self.typeof(e.args[0])
                rt = self.typeof(f.value)
                if f.attr == 'copy' and rt != 'unknown':
                    return rt
                if f.attr == 'get' and len(e.args) == 2 and isinstance(e.args[1], ast.Constant) and \
                        isinstance(e.args[1].value, (int, float)) and not isinstance(e.args[1].value, bool):
                    return 'scalar'      # d.get(k, 0): a table of numbers
                cls = TAG_CLASS.get(rt)
                if cls and f.attr in self.pkg.classes[cls]['methods']:
                    return type_of_annotation(self.pkg.funcs[self.pkg.classes[cls]['methods'][f.attr]].returns, self.pkg)
                if rt in ('scalar',):
                    return 'scalar' if f.attr not in ('split', 'splitlines', 'rsplit', 'partition') else 'list:scalar'
                if (rt.startswith('dict') or rt == 'scalars') and f.attr in ('items', 'values', 'keys'):
                    vt = 'scalar' if rt == 'scalars' else (rt.split(':', 1)[1] if ':' in rt else 'unknown')
                    if f.attr == 'keys':
                        return 'scalars'
                    if f.attr == 'items':
                        return 'list:kv:' + vt
                    return 'scalars' if vt == 'scalar' else 'list:' + vt
                if rt == 'scalars' and f.attr in ('get', 'pop', 'setdefault', 'index', 'count'):
                    return 'scalar'
                if f.attr in ('join', 'format', 'serialize', 'strip' if rt == 'scalar' else 'join', 'lower', 'upper', 'replace'):
                    return 'scalar'
            return 'unknown'
        return 'unknown'

    # ---- expressions: returns a var id holding the value (or None for values that denote nothing mutable)
    def expr(self, e):
        v = self._expr(e)
        if v is None or isinstance(e, (ast.Lambda, ast.Starred)):
            return v
        return self.rec_wrap(v, self.typeof(e))

    def rec_wrap(self, v, ty):
        """cast by static type: a record (or container of records) handed in by the caller is seen as `recd i` from the record
        level down; a container of scalars has nothing mutable below it"""
        c = cast_of_type(ty or 'unknown')
        if v is None or c is None or (v, c) in self.recvars:
            return v
        t = self.newvar('cast')
        if c[0] == 'leaf':
            self.emit('leaf', t, v)
        else:
            self.emit('asRec', t, v, c[1])
        self.addtype(t, ty)
        self.recvars.add((t, c))
        return t

    def _expr(self, e):
        if e is None:
            return None
        if isinstance(e, ast.Name):
            if e.id in ('True', 'False', 'None'):
                return None
            v = self.lookup(e.id)
            if v is not None and self.is_scalar_var(v):
                return None
            return v
        if isinstance(e, ast.Constant):
            return None
        if isinstance(e, ast.JoinedStr):
            for v in e.values:
                if isinstance(v, ast.FormattedValue):
                    self.expr(v.value)
            return None
        if isinstance(e, ast.FormattedValue):
            self.expr(e.value)
            return None
        if isinstance(e, ast.Compare):
            self.expr(e.left)
            for c in e.comparators:
                self.expr(c)
            return None
        if isinstance(e, ast.BoolOp):
            vs = [self.expr(v) for v in e.values]
            vs = [v for v in vs if v is not None]
            if not vs:
                return None
            t = self.newvar('or')
            self.emit('alias', t, tuple(vs))
            return t
        if isinstance(e, ast.UnaryOp):
            self.expr(e.operand)
            return None
        if isinstance(e, ast.BinOp):
            l, r = self.expr(e.left), self.expr(e.right)
            if self.typeof(e) == 'scalar':
                return None
            vs = [v for v in (l, r) if v is not None]
            if not vs:
                return None
            t = self.newvar('bin')
            self.emit('shallow', t, tuple(vs))     # a + b on lists: new list with the elements of both
            return t
        if isinstance(e, ast.IfExp):
            self.expr(e.test)
            vs = [self.expr(e.body), self.expr(e.orelse)]
            vs = [v for v in vs if v is not None]
            if not vs:
                return None
            t = self.newvar('if')
            self.emit('alias', t, tuple(vs))
            return t
        if isinstance(e, ast.Attribute):
            if isinstance(e.value, ast.Name) and e.value.id not in self.cur:
                imp = self.pkg.imports.get(self.fn.module, {}).get(e.value.id)
                if imp and imp[0] == 'mod' or (imp and imp[0] == 'obj' and (imp[1] + '.' + imp[2]) in self.pkg.modules):
                    modname = imp[1] if imp[0] == 'mod' else imp[1] + '.' + imp[2]
                    g = self.pkg.globals.get((modname, e.attr))
                    if g is None and modname.startswith('peptacular'):
                        gl = self.pkg.global_names.get(e.attr, [])
                        g = gl[0] if len(gl) == 1 else None
                    if g is not None:
                        t = self.newvar('g')
                        self.emit('global', t, g)
                        return t
                    return None
            b = self.expr(e.value)
            if b is None:
                return None
            if self.typeof(e) == 'scalar':
                return None
            t = self.newvar('at')
            self.emit('elem', t, b)
            return t
        if isinstance(e, ast.Subscript):
            b = self.expr(e.value)
            if isinstance(e.slice, ast.Slice):
                for part in (e.slice.lower, e.slice.upper, e.slice.step):
                    self.expr(part)
                if b is None or self.typeof(e.value) == 'scalar':
                    return None
                t = self.newvar('sl')
                self.emit('shallow', t, (b,))
                return t
            self.expr(e.slice)
            if b is None or self.typeof(e.value) == 'scalar' or self.typeof(e) == 'scalar':
                return None
            t = self.newvar('ix')
            self.emit('elem', t, b)
            return t
        if isinstance(e, (ast.List, ast.Tuple, ast.Set)):
            vs = []
            for x in e.elts:
                if isinstance(x, ast.Starred):
                    sv = self.expr(x.value)
                    if sv is not None:
                        el = self.newvar('st')
                        self.emit('elem', el, sv)
                        vs.append(el)
                else:
                    v = self.expr(x)
                    if v is not None:
                        vs.append(v)
            t = self.newvar('lit')
            self.emit('pack', t, tuple(vs))
            return t
        if isinstance(e, ast.Dict):
            vs = []
            for k, v in zip(e.keys, e.values):
                if k is None:        # {**d}
                    sv = self.expr(v)
                    if sv is not None:
                        el = self.newvar('st')
                        self.emit('elem', el, sv)
                        vs.append(el)
                    continue
                self.expr(k)
                x = self.expr(v)
                if x is not None:
                    vs.append(x)
            t = self.newvar('dict')
            self.emit('pack', t, tuple(vs))
            return t
        if isinstance(e, (ast.ListComp, ast.SetComp, ast.GeneratorExp, ast.DictComp)):
            saved_cur, saved_weak = dict(self.cur), set(self.weak)
            for g in e.generators:
                for n in sorted(self.assigned_names([g.target])):
                    self.cur.pop(n, None)
                    self.weak.discard(n)
                it = self.expr(g.iter)
                ety = self.untrunc(self.elemtype(self.typeof(g.iter)))
                if it is not None and ety != 'scalar':
                    el = self.newvar('it')
                    self.emit('elem', el, it)
                    self.assign(g.target, el, ety, None)
                else:
                    self.assign(g.target, None, ety, None)
                for c in g.ifs:
                    self.expr(c)
            if isinstance(e, ast.DictComp):
                self.expr(e.key)
                v = self.expr(e.value)
            else:
                v = self.expr(e.elt)
            t = self.newvar('comp')
            self.emit('pack', t, (v,) if v is not None else ())
            self.cur, self.weak = saved_cur, saved_weak
            return t
        if isinstance(e, ast.Lambda):
            saved = dict(self.cur)
            for a in list(e.args.args) + list(e.args.kwonlyargs) + ([e.args.vararg] if e.args.vararg else []) + \
                    ([e.args.kwarg] if e.args.kwarg else []):
                self.cur[a.arg] = self.newvar('lam.' + a.arg)
            self.expr(e.body)
            self.cur = saved
            return None
        if isinstance(e, ast.Starred):
            return self.expr(e.value)
        if isinstance(e, (ast.Yield, ast.YieldFrom)):
            if e.value is not None:
                v = self.expr(e.value)
                if v is not None:
                    self.emit('alias', self.ret, (v,))
            return None
        if isinstance(e, ast.NamedExpr):
            v = self.expr(e.value)
            self.assign(e.target, v, self.typeof(e.value), e.value)
            return v
        if isinstance(e, ast.Call):
            return self.call(e)
        if isinstance(e, ast.Slice):
            return None
        if isinstance(e, ast.Await):
            return self.expr(e.value)
        return self.conservative_node(e, 'expression ' + type(e).__name__)

    # ---- calls
    def argvals(self, e):
        pos = []
        for a in e.args:
            if isinstance(a, ast.Starred):
                sv = self.expr(a.value)
                el = None
                if sv is not None:
                    el = self.newvar('st')
                    self.emit('elem', el, sv)
                pos.append(('*', el))
            else:
                pos.append((None, self.expr(a)))
        kw = {}
        for k in e.keywords:
            v = self.expr(k.value)
            if k.arg is None:
                el = None
                if v is not None:
                    el = self.newvar('kw')
                    self.emit('elem', el, v)
                kw['**'] = el
            else:
                kw[k.arg] = v
        return pos, kw

    def shallow_of(self, vals, hint='sh'):
        t = self.newvar(hint)
        self.emit('shallow', t, tuple(v for v in vals if v is not None))
        return t

    def const_inplace(self, callee, e, recv_offset):
        """the constant value passed for `inplace`, 'default', or None if not constant"""
        if not callee.has_inplace:
            return None
        for k in e.keywords:
            if k.arg == 'inplace':
                if isinstance(k.value, ast.Constant) and isinstance(k.value.value, bool):
                    return k.value.value
                if isinstance(k.value, ast.Name) and k.value.id == 'inplace' and self.inplace is not None:
                    return self.inplace
                return 'both'
        idx = callee.params.index('inplace') - recv_offset if 'inplace' in callee.params else None
        if idx is not None and 0 <= idx < len(e.args):
            a = e.args[idx]
            if isinstance(a, ast.Constant) and isinstance(a.value, bool):
                return a.value
            if isinstance(a, ast.Name) and a.id == 'inplace' and self.inplace is not None:
                return self.inplace
            return 'both'
        d = callee.defaults.get('inplace')
        if isinstance(d, ast.Constant) and isinstance(d.value, bool):
            return d.value
        return 'both'

    def emit_call(self, quals, e, recv, pos, kw):
        """call every candidate; returns the var holding the (joined) result"""
        ret = self.newvar('r')
        for q in quals:
            callee = self.pkg.funcs[q]
            off = 1 if recv is not None else 0
            ip = self.const_inplace(callee, e, off)
            variants = [None] if not callee.has_inplace else ([False, True] if ip == 'both' else [ip])
            args = [None] * len(callee.allparams)
            slots = list(callee.params)
            if recv is not None and slots:
                args[0] = recv
            i = off
            extra = []
            for star, v in pos:
                if star:
                    # *xs spreads over all remaining positional parameters
                    for j in range(i, len(slots)):
                        args[j] = self.join(args[j], v)
                    if callee.vararg:
                        extra.append(v)
                    continue
                if i < len(slots):
                    args[i] = v
                    i += 1
                else:
                    extra.append(v)
            if callee.vararg:
                vi = callee.allparams.index(callee.vararg)
                t = self.newvar('va')
                self.emit('pack', t, tuple(v for v in extra if v is not None))
                args[vi] = t
            for k, v in kw.items():
                if k == '**':
                    for j in range(len(callee.allparams)):
                        args[j] = self.join(args[j], v)
                elif k in callee.allparams:
                    args[callee.allparams.index(k)] = v
                elif callee.kwarg:
                    ki = callee.allparams.index(callee.kwarg)
                    args[ki] = self.join(args[ki], v)
            for var in variants:
                self.emit('call', ret, self.tr.fid(q, var), tuple(args))
        return ret

    def join(self, a, b):
        if a is None:
            return b
        if b is None:
            return a
        t = self.newvar('j')
        self.emit('alias', t, (a, b))
        return t

    def conservative(self, what, recv, pos, kw):
        self.tr.log['unresolved_calls'].setdefault(what, set()).add(self.fn.qual)
        self.pkg.conservative_note('unresolved call: ' + what, self.fn.qual)
        vals = ([recv] if recv is not None else []) + [v for _, v in pos] + list(kw.values())
        vals = [v for v in vals if v is not None]
        for v in vals:
            self.emit('write', v)
            d = self.newvar('d')
            self.emit('elem', d, v)
            self.emit('write', d)
        t = self.newvar('u')
        self.emit('pack', t, tuple(vals))
        return t

    def call(self, e):
        f = e.func
        pkg = self.pkg
        # ------------------------------------------------ plain names
        if isinstance(f, ast.Name):
            name = f.id
            if name in self.local_classes:
                pos, kw = self.argvals(e)
                t = self.newvar('obj')
                self.emit('pack', t, tuple(v for _, v in pos if v is not None) + tuple(v for v in kw.values() if v is not None))
                init = self.local_funcs.get(name + '.__init__')
                if init:
                    for pv, v in zip(init[0], [t] + [v for _, v in pos]):
                        if v is not None:
                            self.emit('alias', pv, (v,))
                return t
            if name in self.local_funcs:
                pos, kw = self.argvals(e)
                params, res = self.local_funcs[name]
                for pv, (_, v) in zip(params, pos):
                    if v is not None:
                        self.emit('alias', pv, (v,))
                return res
            if name in self.cur and self.cur[name] is not None and name not in pkg.by_name and name not in pkg.classes:
                # a local holding a callable (decorator argument, key function)
                pos, kw = self.argvals(e)
                return self.conservative('local callable ' + name, None, pos, kw)
            if name == 'deepcopy':
                pos, kw = self.argvals(e)
                t = self.newvar('dc')
                self.emit('fresh', t)
                return t
            if name in PURE_FUNCS:
                self.argvals(e)
                return None
            if name in ELEM_FUNCS:
                pos, kw = self.argvals(e)
                t = self.newvar('el')
                for _, v in pos:
                    if v is not None:
                        self.emit('elem', t, v)
                return t
            if name in SHALLOW_FUNCS:
                pos, kw = self.argvals(e)
                return self.shallow_of([v for _, v in pos] + list(kw.values()))
            if name in pkg.classes:
                return self.construct(name, e)
            quals = pkg.resolve_func(name, self.fn.module)
            pos, kw = self.argvals(e)
            if quals:
                return self.emit_call(quals, e, None, pos, kw)
            imp = pkg.imports.get(self.fn.module, {}).get(name)
            if imp and imp[0] == 'obj' and imp[1].split('.')[0] in PURE_MODULES:
                return self.shallow_of([v for _, v in pos] + list(kw.values()))
            if imp and imp[0] == 'obj' and imp[1] == 'copy':
                if imp[2] == 'deepcopy':
                    t = self.newvar('dc')
                    self.emit('fresh', t)
                    return t
                return self.shallow_of([v for _, v in pos])
            if imp and imp[0] == 'obj' and imp[1] == 'random':
                self.emit('gwrite', RNG)
                if imp[2] == 'shuffle':
                    for _, v in pos:
                        if v is not None:
                            self.emit('write', v)
                return self.shallow_of([v for _, v in pos])
            if name[:1].isupper() and name.endswith(('Error', 'Exception', 'Warning')):
                return None
            return self.conservative('function ' + name, None, pos, kw)
        # ------------------------------------------------ attribute calls
        if isinstance(f, ast.Attribute):
            m = f.attr
            # module.function
            if isinstance(f.value, ast.Name) and f.value.id not in self.cur:
                root = f.value.id
                imp = pkg.imports.get(self.fn.module, {}).get(root)
                modname = None
                if imp and imp[0] == 'mod':
                    modname = imp[1]
                elif imp and imp[0] == 'obj' and (imp[1] + '.' + imp[2]) in pkg.modules:
                    modname = imp[1] + '.' + imp[2]
                if modname is not None or root in PURE_MODULES or root in ('copy', 'random'):
                    modname = modname or root
                    pos, kw = self.argvals(e)
                    if modname == 'copy':
                        if m == 'deepcopy':
                            t = self.newvar('dc')
                            self.emit('fresh', t)
                            return t
                        return self.shallow_of([v for _, v in pos])
                    if modname == 'random':
                        if m == 'Random':
                            t = self.newvar('rng')
                            self.emit('fresh', t)
                            return t
                        self.emit('gwrite', RNG)
                        if m == 'shuffle':
                            for _, v in pos:
                                if v is not None:
                                    self.emit('write', v)
                        return self.shallow_of([v for _, v in pos])
                    if modname.startswith('peptacular'):
                        q = f'{modname}.{m}'
                        if q in pkg.funcs:
                            return self.emit_call([q], e, None, pos, kw)
                        if m in pkg.classes:
                            return self.construct(m, e)
                        return self.conservative(f'{modname}.{m}', None, pos, kw)
                    if modname.split('.')[0] in PURE_MODULES:
                        return self.shallow_of([v for _, v in pos] + list(kw.values()))
                    return self.conservative(f'{modname}.{m}', None, pos, kw)
                if root in pkg.classes:      # ClassName.method(...)
                    ci = pkg.classes[root]
                    pos, kw = self.argvals(e)
                    if m in ci['methods']:
                        return self.emit_call([ci['methods'][m]], e, None, pos, kw)
                    return self.shallow_of([v for _, v in pos])
            # super().__init__ etc.
            if isinstance(f.value, ast.Call) and isinstance(f.value.func, ast.Name) and f.value.func.id == 'super':
                self.argvals(e)
                return None
            recv = self.expr(f.value)
            rty = self.typeof(f.value)
            pos, kw = self.argvals(e)
            vals = [v for _, v in pos] + list(kw.values())
            if recv is None:
                # method of an immutable value (str, number, None)
                if m in ('join',):
                    return None
                return None if m in PURE_FRESH or rty == 'scalar' else self.shallow_of(vals)
            cls = TAG_CLASS.get(rty) or (rty[4:] if rty.startswith('cls:') else None)
            if cls and cls in pkg.classes:
                ci = pkg.classes[cls]
                if m in ci['methods']:
                    return self.emit_call([ci['methods'][m]], e, recv, pos, kw)
                if cls in ('Counter',):
                    pass
                # inherited / dataclass-generated / unknown method of a known package class
                return self.builtin_method(m, recv, vals, known=False, what=f'{cls}.{m}', pos=pos, kw=kw)
            if rty in ('scalar', 'scalars') or rty.startswith('dict') or rty.startswith('list'):
                return self.builtin_method(m, recv, vals, known=True, what=f'{rty}.{m}', pos=pos, kw=kw)
            # unknown receiver: every package class defining the name, joined with the builtin meaning
            cands = pkg.methods.get(m, [])
            res = []
            if cands:
                self.tr.log['unknown_receiver_methods'].setdefault(m, set()).add(self.fn.qual)
                res.append(self.emit_call(cands, e, recv, pos, kw))
            if m in MUT_STORE or m in MUT_WRITE or m in RET_ELEM or m in RET_SHALLOW or m in PURE_FRESH or m in RNG_METHODS or not cands:
                res.append(self.builtin_method(m, recv, vals, known=False, what=f'?.{m}', pos=pos, kw=kw))
            res = [r for r in res if r is not None]
            if not res:
                return None
            if len(res) == 1:
                return res[0]
            t = self.newvar('j')
            self.emit('alias', t, tuple(res))
            return t
        # ------------------------------------------------ an immediately applied lambda: parameters are the arguments
        if isinstance(f, ast.Lambda):
            pos, kw = self.argvals(e)
            saved = dict(self.cur)
            allv = [v for _, v in pos if v is not None] + [v for v in kw.values() if v is not None]
            for a, (_, v) in zip(f.args.args, pos):
                self.cur[a.arg] = v
            for a in f.args.args[len(pos):] + list(f.args.kwonlyargs):
                self.cur[a.arg] = kw.get(a.arg)
            for a in ([f.args.vararg] if f.args.vararg else []) + ([f.args.kwarg] if f.args.kwarg else []):
                t = self.newvar('va')
                self.emit('pack', t, tuple(allv))
                self.cur[a.arg] = t
            r = self.expr(f.body)
            self.cur = saved
            return r
        # ------------------------------------------------ anything else (call of a call result, subscript ...)
        fv = self.expr(f)
        pos, kw = self.argvals(e)
        return self.conservative('computed callee ' + ast.unparse(f)[:40], fv, pos, kw)

    def builtin_method(self, m, recv, vals, known, what, pos, kw):
        if m in MUT_STORE:
            if m in ('setdefault', 'insert') and pos:
                vals = [v for _, v in pos[1:]] + list(kw.values())     # the key / index is not stored as a value
            vs = [v for v in vals if v is not None]
            if vs:
                for v in vs:
                    self.emit('store', recv, v)
            else:
                self.emit('write', recv)
            if m == 'setdefault':
                t = self.newvar('el')
                self.emit('elem', t, recv)
                return t
            return None
        if m in MUT_WRITE:
            self.emit('write', recv)
            if m in RET_ELEM:
                t = self.newvar('el')
                self.emit('elem', t, recv)
                return t
            return None
        if m in RET_ELEM:
            t = self.newvar('el')
            self.emit('elem', t, recv)
            for v in vals:          # d.get(k, default)
                if v is not None:
                    self.emit('alias', t, (v,))
            return t
        if m in RET_SHALLOW:
            return self.shallow_of([recv] + vals)
        if m in PURE_FRESH:
            return None
        if m in RNG_METHODS:
            # a generator object: local random.Random(..) or the module itself
            self.emit('write', recv)
            if m == 'shuffle':
                for v in vals:
                    if v is not None:
                        self.emit('write', v)
            return self.shallow_of(vals)
        return self.conservative('method ' + what, recv, pos, kw)

    def construct(self, cname, e):
        """C(args): a new object holding the arguments; __init__ / __post_init__ of package classes are called"""
        pos, kw = self.argvals(e)
        vals = [v for _, v in pos] + list(kw.values())
        ci = self.pkg.classes[cname]
        if any(b.endswith(('Error', 'Exception')) or b in ('Enum', 'str, Enum', 'Warning') for b in ci['bases']) or cname.endswith('Error'):
            return None
        t = self.newvar('obj')
        self.emit('pack', t, tuple(v for v in vals if v is not None))
        for special in ('__init__', '__post_init__'):
            q = ci['methods'].get(special)
            if q:
                if special == '__init__':
                    self.emit_call([q], e, t, pos, kw)
                else:
                    self.emit_call([q], ast.Call(func=e.func, args=[], keywords=[]), t, [], {})
        return t


# ------------------------------------------------------------------------------------------------ Python mirror of the Lean analysis

def _union(a, b):
    out = list(a)
    for o in b:
        if o not in out:
            out.append(o)
    return out


class Mirror:
    """same transfer functions as Effects.step / Effects.targets (objects are tuples ('root', i) ...; cells (top, kids, deep))"""

    E = ([], [], [])

    def __init__(self, summaries):
        self.S = summaries

    @staticmethod
    def get(P, x):
        return P[x] if x < len(P) else Mirror.E

    @staticmethod
    def add(P, x, c):
        while len(P) <= x:
            P.append(Mirror.E)
        d = P[x]
        P[x] = (_union(d[0], c[0]), _union(d[1], c[1]), _union(d[2], c[2]))

    @staticmethod
    def norm(o):
        return ('inner', o[1]) if o[0] == 'recd' else (('root', o[1]) if o[0] == 'recTop' else o)

    @staticmethod
    def torec(o):
        return ('recTop', o[1]) if o[0] == 'root' else (('recd', o[1]) if o[0] == 'inner' else o)

    @staticmethod
    def link(P, tgt, a, b):
        ntgt = {Mirror.norm(o) for o in tgt}
        for i, c in enumerate(P):
            t = any(Mirror.norm(o) in ntgt for o in c[0])
            r = any(Mirror.norm(o) in ntgt for o in c[1] + c[2])
            if t or r:
                P[i] = (c[0], _union(c[1], a if t else []), _union(_union(c[2], b if t else []), (a + b) if r else []))

    def argcell(self, P, args, j):
        v = args[j] if j < len(args) else None
        return self.get(P, v) if v is not None else Mirror.E

    def sel(self, P, args, ret, src):
        if src[0] == 'top':
            return self.argcell(P, args, src[1])[0]
        if src[0] == 'below':
            c = self.argcell(P, args, src[1])
            return c[1] + c[2]
        if src[0] == 'recs':
            c = self.argcell(P, args, src[1])
            return [self.torec(o) for o in c[1] + c[2]]
        if src[0] == 'recTop':
            return [self.torec(o) for o in self.argcell(P, args, src[1])[0]]
        if src[0] == 'fresh':
            return [('loc', ret)]
        return [('glob', src[1])]

    def step(self, s, P):
        """returns the new table (statements read the table they are applied to)"""
        Q = list(P)
        k = s[0]
        if k == 'param':
            self.add(Q, s[1], ([('root', s[2])], [('inner', s[2])], [('inner', s[2])]))
        elif k == 'global':
            self.add(Q, s[1], ([('glob', s[2])], [('glob', s[2])], [('glob', s[2])]))
        elif k == 'alias':
            for y in s[2]:
                self.add(Q, s[1], self.get(P, y))
        elif k == 'elem':
            c = self.get(P, s[2])
            self.add(Q, s[1], (c[1], c[2], c[2]))
        elif k == 'asRec':
            c = self.get(P, s[2])
            d = s[3]
            self.add(Q, s[1], tuple([self.torec(o) for o in part] if lvl >= min(d, 2) else list(part) for lvl, part in enumerate(c)))
        elif k == 'leaf':
            self.add(Q, s[1], (list(self.get(P, s[2])[0]), [], []))
        elif k == 'fresh':
            self.add(Q, s[1], ([('loc', s[1])], [], []))
        elif k == 'shallow':
            kd, dp = [], []
            for y in s[2]:
                c = self.get(P, y)
                kd = kd + c[1]
                dp = dp + c[2]
            self.add(Q, s[1], ([('loc', s[1])], kd, dp))
        elif k == 'pack':
            kd, dp = [], []
            for y in s[2]:
                c = self.get(P, y)
                kd = kd + c[0]
                dp = dp + c[1] + c[2]
            self.add(Q, s[1], ([('loc', s[1])], kd, dp))
        elif k == 'store':
            c = self.get(P, s[2])
            self.link(Q, self.get(P, s[1])[0], c[0], c[1] + c[2])
        elif k == 'call':
            ret, f, args = s[1], s[2], s[3]
            sm = self.S[f]
            for (j, kid, src) in sm['links']:
                v = self.sel(P, args, ret, src)
                self.link(Q, self.argcell(P, args, j)[0], v if kid else [], [] if kid else v)
            top, kids, deep = [], [], []
            for src in sm['retTop']:
                top = top + self.sel(P, args, ret, src)
            for src in sm['retKids']:
                kids = kids + self.sel(P, args, ret, src)
            for src in sm['retDeep']:
                deep = deep + self.sel(P, args, ret, src)
            self.add(Q, ret, (top, kids, deep))
        return Q

    def targets(self, s, P):
        k = s[0]
        if k in ('store', 'write'):
            return list(self.get(P, s[1])[0])
        if k == 'gwrite':
            return [('glob', s[1])]
        if k == 'call':
            ret, f, args = s[1], s[2], s[3]
            sm = self.S[f]
            out = []
            for (j, d) in sm['writes']:
                c = self.argcell(P, args, j)
                out += (c[1] + c[2]) if d else c[0]
            out += [('glob', g) for g in sm['globals']]
            return out
        return []

    def analyse(self, prog):
        """iterate passes to a fixpoint; returns (table, passes used)"""
        P = []
        n = 0
        while True:
            before = list(P)
            for s in prog:
                P = self.step(s, P)
            n += 1
            if self.same(before, P):
                return P, n
            if n > 200:
                raise RuntimeError('no fixpoint')

    @staticmethod
    def same(A, B):
        if len(A) != len(B):
            return False
        return all(set(a[i]) == set(b[i]) for a, b in zip(A, B) for i in range(3))

    def summarize(self, info):
        P, n = self.analyse(info['stmts'])
        w = []
        for s in info['stmts']:
            w = _union(w, self.targets(s, P))

        def src(o):
            return {'root': ('top', o[1]), 'inner': ('below', o[1]), 'recd': ('recs', o[1]), 'recTop': ('recTop', o[1]), 'glob': ('glob', o[1]),
                    'loc': ('fresh',)}[o[0]]

        def dedup(l):
            out = []
            for x in l:
                if x not in out:
                    out.append(x)
            return out
        rc = self.get(P, info['ret'])
        links = []
        for j in range(info['nparams']):
            c = self.get(P, j)
            for o in c[1]:
                if o != ('inner', j):
                    links.append((j, True, src(o)))
            for o in c[2]:
                if o != ('inner', j):
                    links.append((j, False, src(o)))
        lv = {'root': [False], 'inner': [True], 'recd': [True], 'recTop': [False]}
        return {'writes': dedup([(o[1], b) for o in w for b in lv.get(o[0], [])]),
                'globals': dedup([o[1] for o in w if o[0] == 'glob']),
                'retTop': dedup([src(o) for o in rc[0]]), 'retKids': dedup([src(o) for o in rc[1]]),
                'retDeep': dedup([src(o) for o in rc[2]]), 'links': dedup(links)}, n


def verdict_of(m, info, P):
    """what the Lean side reads off the table: written parameters / globals, parameters / globals the result may share"""
    w = []
    for st in info['stmts']:
        w = _union(w, m.targets(st, P))
    rc = m.get(P, info['ret'])
    objs = rc[0] + rc[1] + rc[2]

    def ded(l):
        out = []
        for x in l:
            if x not in out:
                out.append(x)
        return sorted(out)
    return {'writes': ded([o[1] for o in w if o[0] in ('root', 'inner', 'recd', 'recTop')]),
            'globals': ded([o[1] for o in w if o[0] == 'glob']),
            'share': ded([o[1] for o in objs if o[0] in ('root', 'inner')]),
            'shareGlobals': ded([o[1] for o in objs if o[0] == 'glob'])}


def solve(progs):
    n = len(progs)
    S = [{'writes': [], 'globals': [], 'retTop': [], 'retKids': [], 'retDeep': [], 'links': []} for _ in range(n)]
    fuel = [1] * n
    changed = True
    rounds = 0
    while changed:
        changed = False
        rounds += 1
        m = Mirror(S)
        for f in range(n):
            sm, k = m.summarize(progs[f])
            for key in S[f]:
                for x in sm[key]:
                    if x not in S[f][key]:
                        S[f][key].append(x)
                        changed = True
        if rounds > 100:
            raise RuntimeError('summaries do not converge')
    m = Mirror(S)
    tables = []
    for f in range(n):
        P, k = m.analyse(progs[f]['stmts'])
        fuel[f] = k
        tables.append(P)
    return S, fuel, tables


# ------------------------------------------------------------------------------------------------ API surface and emission

def api_members():
    """public API surface with the qualified name of the implementing function (import + inspect, as the design says)"""
    from . import c08_dyn as D
    import peptacular as pt
    from peptacular.proforma.proforma_parser import ProFormaAnnotation
    out = []
    for name, params in D.api_surface(all_public=True):
        if name.startswith('ProFormaAnnotation.'):
            parts = name.split('.')
            if parts[-1] == 'setter':
                qual = f'peptacular.proforma.proforma_parser.ProFormaAnnotation.{parts[1]}.setter'
            else:
                qual = f'peptacular.proforma.proforma_parser.ProFormaAnnotation.{parts[1]}'
        elif name.startswith('Fragmenter.'):
            qual = f'peptacular.fragmentation.{name}'
        else:
            o = getattr(pt, name, None)
            try:
                o = inspect.unwrap(o)
            except Exception:
                pass
            qual = f"{getattr(o, '__module__', '?')}.{getattr(o, '__qualname__', name)}"
        out.append((name, params, qual))
    out.append(('Fragmenter', [('sequence', 'A')], 'peptacular.fragmentation.Fragmenter.__init__'))
    return out


def lean_str(s):
    return '"' + s.replace('\\', '\\\\').replace('"', '\\"') + '"'


def lean_opt(v):
    return 'none' if v is None else f'some {v}'


def lean_stmt(s):
    k = s[0]
    if k in ('param', 'global'):
        return f'.{k} {s[1]} {s[2]}'
    if k in ('alias', 'shallow', 'pack'):
        return f'.{k} {s[1]} [{", ".join(map(str, s[2]))}]'
    if k in ('elem', 'store', 'leaf'):
        return f'.{k} {s[1]} {s[2]}'
    if k == 'asRec':
        return f'.asRec {s[1]} {s[2]} {s[3]}'
    if k in ('fresh', 'write', 'gwrite'):
        return f'.{k} {s[1]}'
    if k == 'call':
        return f'.call {s[1]} {s[2]} [{", ".join(lean_opt(a) for a in s[3])}]'
    raise ValueError(s)


def lean_obj(o):
    return f'.{o[0]} {o[1]}'


def lean_cell(c):
    if not (c[0] or c[1] or c[2]):
        return '{}'
    return ('{ top := [' + ', '.join(lean_obj(o) for o in c[0]) + '], kids := [' + ', '.join(lean_obj(o) for o in c[1]) +
            '], deep := [' + ', '.join(lean_obj(o) for o in c[2]) + '] }')


def lean_src(x):
    if x[0] == 'fresh':
        return '.fresh'
    return f'.{x[0]} {x[1]}'


def lean_summary(sm):
    return ('{ writes := [' + ', '.join(f'({j}, {"true" if d else "false"})' for j, d in sm['writes']) + '], globals := [' +
            ', '.join(map(str, sm['globals'])) + '], retTop := [' + ', '.join(lean_src(x) for x in sm['retTop']) +
            '], retKids := [' + ', '.join(lean_src(x) for x in sm['retKids']) +
            '], retDeep := [' + ', '.join(lean_src(x) for x in sm['retDeep']) + '], links := [' +
            ', '.join(f'({j}, {"true" if kd else "false"}, {lean_src(x)})' for j, kd, x in sm['links']) + '] }')


def chunked(name, typ, items, size=40):
    out = []
    names = []
    for i in range(0, max(1, len(items)), size):
        nm = f'{name}_{i // size}'
        names.append(nm)
        out.append(f'def {nm} : List {typ} := [\n  ' + ',\n  '.join(items[i:i + size]) + ']\n')
    out.append(f'def {name} : List {typ} := ' + ' ++ '.join(names) + '\n')
    return '\n'.join(out)


def codes(s):
    return '[' + ', '.join(str(ord(c)) for c in s) + ']'


def generate():
    from . import c08_dyn as D
    pkg = Package(repo_src())
    members = api_members()
    tr = Translator(pkg)
    roots = []
    entries = []
    missing = []
    for name, params, qual in members:
        if qual not in pkg.funcs:
            missing.append(name)
            continue
        fn = pkg.funcs[qual]
        if fn.has_inplace:
            roots.append((qual, False))
            roots.append((qual, True))
        else:
            roots.append((qual, None))
    # property getters are read as field access by the translator: analyse them too so that Lean can check they are pure
    getters = []
    for cn, ci in pkg.classes.items():
        for pn, (g, s) in ci['props'].items():
            if g:
                roots.append((g, None))
                getters.append(g)
    # implicitly invoked special methods (==, len(), in, hash(), str(), iteration, <) are not visible as calls: they are analysed
    # as well and held to the same obligation as the getters (no parameter write, no global write)
    for cn, ci in pkg.classes.items():
        for mn, q in ci['methods'].items():
            if mn.startswith('__') and mn.endswith('__') and mn not in ('__init__', '__post_init__'):
                roots.append((q, None))
                getters.append(q)
    # explicit database editors (no annotation/dict/list parameter, so not part of the surface): analysed to show that the
    # analysis does see writes to the EntryDb objects
    db_editor_quals = [q for q in ('peptacular.mods.mod_db_setup.reload_all_databases', 'peptacular.mods.mod_db_setup.reset_all_databases')
                       if q in pkg.funcs]
    for q in db_editor_quals:
        roots.append((q, None))
    tr.run(roots)
    n = len(tr.order)
    # stable numbering: by source module, then qualified name, then variant - a changed body does not move any id, and the
    # functions of one source module are a contiguous block
    old_order = list(tr.order)
    new_order = sorted(old_order, key=lambda k: (pkg.funcs[k[0]].module, k[0], {None: 0, False: 1, True: 2}[k[1]]))
    perm = {tr.variants[k]: i for i, k in enumerate(new_order)}
    progs = [None] * n
    for k in old_order:
        pr = tr.progs[tr.variants[k]]
        pr['stmts'] = [(st[0], st[1], perm[st[2]], st[3]) if st[0] == 'call' else st for st in pr['stmts']]
        pr['module'] = pkg.funcs[k[0]].module
        progs[perm[tr.variants[k]]] = pr
    variants = {k: perm[v] for k, v in tr.variants.items()}
    S, fuel, tables = solve(progs)
    verdicts = [verdict_of(Mirror(S), progs[f], tables[f]) for f in range(n)]
    for name, params, qual in members:
        if qual not in pkg.funcs:
            continue
        fn = pkg.funcs[qual]
        outside = name in D.DECLARED_OUTSIDE
        rnd = name in ('shuffle', 'ProFormaAnnotation.shuffle')
        # a constructor writes the object under construction (parameter 0): held to the editor obligation (only parameter 0)
        ed = D.is_declared_editor(name, '') or qual.endswith('.__init__')
        if fn.has_inplace:
            entries.append((name, variants[(qual, False)], ed, rnd, fn.allparams, outside))
            entries.append((name + '[inplace]', variants[(qual, True)], True, rnd, fn.allparams, outside))
        else:
            entries.append((name, variants[(qual, None)], ed, rnd, fn.allparams, outside))
    getter_ids = [variants[(g, None)] for g in getters]

    def tag_of(p):
        return p['qual'] + ('' if p['inplace'] is None else f'[inplace={p["inplace"]}]')

    # ---- Core: everything small and global (summaries, verdicts, API entries, names)
    core = []
    core.append('import PeptVerif.Model.Effects')
    core.append('/-! GENERATED by harness/translate_effects.py from the current /repo source - do not edit.\n'
                'Global tables: call summaries, the verdict claimed for every function (checked against its program in the\n'
                'per-module files), API entries. -/')
    core.append('namespace Gen')
    core.append('open Effects')
    core.append('set_option maxRecDepth 100000')
    core.append(chunked('summaries', 'Summary', [lean_summary(x) for x in S]))
    core.append(chunked('verdicts', 'Verdict', [
        '{ writes := [' + ', '.join(map(str, v['writes'])) + '], globals := [' + ', '.join(map(str, v['globals'])) +
        '], share := [' + ', '.join(map(str, v['share'])) + '], shareGlobals := [' + ', '.join(map(str, v['shareGlobals'])) + '] }'
        for v in verdicts]))
    core.append(chunked('fnNames', 'String', [lean_str(tag_of(p)) for p in progs]))
    core.append('structure ApiEntry where\n  name : String\n  code : List Nat\n  fid : Nat\n  editor : Bool\n  random : Bool\n'
                '  params : List String\n')
    core.append(chunked('api', 'ApiEntry', [
        f'{{ name := {lean_str(nm)}, code := {codes(nm.replace("[inplace]", ""))}, fid := {fid}, editor := {"true" if ed else "false"}, '
        f'random := {"true" if rnd else "false"}, params := [{", ".join(lean_str(p) for p in ps)}] }}'
        for nm, fid, ed, rnd, ps, outside in entries]))
    core.append('/-- every public callable that accepts an annotation / dict / list (name as code points, parameter kinds) -/')
    core.append(chunked('apiSurface', '(List Nat × List String)',
                        [f'({codes(nm)}, [{", ".join(lean_str(pn + ":" + k) for pn, k in ps)}])' for nm, ps, _ in members]))
    core.append(chunked('analysed', '(List Nat)', [codes(nm) for nm, _, q in members if q in pkg.funcs]))
    core.append(chunked('apiSurfaceNames', 'String', [lean_str(nm) for nm, _, _ in members]))
    core.append('/-- property getters and implicitly invoked special methods (__eq__, __len__, __iter__, ...) -/')
    core.append('def getters : List Nat := [' + ', '.join(map(str, getter_ids)) + ']')
    core.append(chunked('globalNames', 'String', [lean_str(g) for g in pkg.gnames]))
    db_ids = [g for (m, nm), g in sorted(pkg.globals.items(), key=lambda kv: kv[1]) if m == 'peptacular.mods.mod_db_setup' and nm.endswith('_DB')]
    core.append('/-- the module-level EntryDb objects (modification databases) -/')
    core.append('def dbGlobals : List Nat := [' + ', '.join(map(str, db_ids)) + ']')
    core.append('/-- explicit database editors (reload / reset), analysed for non-vacuity -/')
    core.append('def dbEditors : List Nat := [' + ', '.join(str(variants[(q, None)]) for q in db_editor_quals) + ']')
    core.append('end Gen')
    files = {'Effects/Core.lean': '\n'.join(core) + '\n'}

    # ---- one file per source module: programs, tables, and the kernel check of exactly these functions
    modules = []
    for f, p in enumerate(progs):
        if not modules or modules[-1][0] != p['module']:
            modules.append((p['module'], []))
        modules[-1][1].append(f)
    mod_ns = []
    for mod, fids in modules:
        ns = 'M_' + re.sub(r'[^A-Za-z0-9]', '_', mod.replace('peptacular.', '').replace('peptacular', 'root'))
        mod_ns.append(ns)
        ml = []
        ml.append('import PeptVerif.Generated.Effects.Core')
        ml.append(f'/-! GENERATED by harness/translate_effects.py - do not edit.  Source module: {mod} ({len(fids)} functions).\n'
                  '`ok` is the kernel check of these functions against the global summary / verdict tables: every table is closed\n'
                  'under its program, the summary the program induces is within the summary table, and the write / sharing sets\n'
                  'read off the table are the claimed verdict. -/')
        ml.append(f'namespace Gen.{ns}')
        ml.append('open Effects')
        ml.append('set_option maxRecDepth 100000')
        for f in fids:
            p = progs[f]
            body = ',\n  '.join(lean_stmt(x) for x in p['stmts'])
            ml.append(f'/-- {tag_of(p)} -/\ndef prog_{f} : List Stmt := [\n  {body}]\n')
            ml.append(f'def table_{f} : Pts := [\n  ' + ',\n  '.join(lean_cell(c) for c in tables[f]) + ']\n')
        ml.append(chunked('fns', '(Nat × FnInfo)', [
            f'({f}, {{ prog := prog_{f}, nparams := {progs[f]["nparams"]}, ret := {progs[f]["ret"]}, fuel := {fuel[f]}, table := table_{f} }})'
            for f in fids]))
        ml.append('theorem ok : fns.all (fun p => entryOK Gen.summaries Gen.verdicts p.1 p.2) = true := by\n  decide +kernel\n')
        ml.append(f'end Gen.{ns}')
        files[f'Effects/{ns}.lean'] = '\n'.join(ml) + '\n'

    # ---- assembly
    top = []
    for ns in mod_ns:
        top.append(f'import PeptVerif.Generated.Effects.{ns}')
    top.append('/-! GENERATED by harness/translate_effects.py - do not edit.  Assembly of the per-module files. -/')
    top.append('namespace Gen')
    top.append('open Effects')
    top.append('/-- all translated functions with their ids, module by module -/')
    def nest(items, fmt):
        out = items[-1]
        for x in reversed(items[:-1]):
            out = fmt(x, out)
        return out
    top.append('def fnsIdx : List (Nat × FnInfo) := ' + nest([f'{ns}.fns' for ns in mod_ns], lambda a, b: f'{a} ++ ({b})'))
    top.append('def fns : List FnInfo := fnsIdx.map (·.2)')
    top.append('def moduleNames : List String := [' + ', '.join(lean_str(m) for m, _ in modules) + ']')
    top.append('/-- every function passed its module\'s kernel check -/')
    top.append('theorem all_ok : fnsIdx.all (fun p => entryOK summaries verdicts p.1 p.2) = true :=\n  ' +
               nest([f'{ns}.ok' for ns in mod_ns], lambda a, b: f'all_append_of {a} ({b})') + '\n')
    top.append('end Gen')
    files['Effects.lean'] = '\n'.join(top) + '\n'
    text = files['Effects/Core.lean']
    info = {'functions': n, 'api_members': len(members), 'missing': missing, 'statements': sum(len(p['stmts']) for p in progs),
            'unresolved_calls': {k: sorted(v)[:6] for k, v in sorted(tr.log['unresolved_calls'].items())},
            'unknown_receiver_methods': {k: sorted(v)[:6] for k, v in sorted(tr.log['unknown_receiver_methods'].items())},
            'unknown_decorators': sorted(pkg.unknown_decorators), 'max_fuel': max(fuel), 'entries': entries,
            'conservative_constructs': {k: v[:8] for k, v in sorted(pkg.conservative.items())}, 'index_errors': pkg.index_errors,
            'summaries': S, 'progs': progs, 'gnames': pkg.gnames, 'tables': tables, 'files': files, 'verdicts': verdicts}
    return text, info


def write_generated():
    """writes Generated/Effects.lean, Generated/Effects/Core.lean and one Generated/Effects/M_<module>.lean per source module;
    only files whose content changed are rewritten (lake rebuilds only what depends on them), stale module files are removed"""
    text, info = generate()
    base = os.path.join(VERIF, 'lean', 'PeptVerif', 'Generated')
    os.makedirs(LEAN_DIR, exist_ok=True)
    changed = []
    for rel, content in info['files'].items():
        path = os.path.join(base, rel)
        old = open(path).read() if os.path.exists(path) else None
        if old != content:
            with open(path, 'w') as f:
                f.write(content)
            changed.append(rel)
    keep = {os.path.basename(r) for r in info['files'] if r.startswith('Effects/')}
    for fn in os.listdir(LEAN_DIR):
        if fn.endswith('.lean') and fn not in keep:
            os.remove(os.path.join(LEAN_DIR, fn))
            changed.append('removed Effects/' + fn)
    info['changed'] = bool(changed)
    info['changed_files'] = changed
    return info


if __name__ == '__main__':
    text, info = generate()
    if '--write' in sys.argv:
        write_generated()
    S = info['summaries']
    print(json.dumps({k: v for k, v in info.items() if k not in ('entries', 'summaries', 'progs', 'gnames', 'tables')}, indent=1, default=str)[:6000])
    for nm, fid, ed, rnd, ps, outside in info['entries']:
        c = Mirror.get(info['tables'][fid], info['progs'][fid]['ret'])
        objs = c[0] + c[1] + c[2]
        sh = sorted({ps[o[1]] if o[1] < len(ps) else o[1] for o in objs if o[0] in ('root', 'inner')})
        lv = [k for k, part in zip(('top', 'kids', 'deep'), c) if any(o[0] in ('root', 'inner') for o in part)]
        gl = sorted({info['gnames'][o[1]] for o in objs if o[0] == 'glob'})
        if (sh or gl) and not ed and not outside:
            print('SHARE  ' + nm, sh, lv, gl)
    for nm, fid, ed, rnd, ps, outside in info['entries']:
        sm = S[fid]
        if sm['writes'] or sm['globals']:
            print(('EDITOR ' if ed else 'QUERY  ') + nm, 'writes', [(ps[j] if j < len(ps) else j, 'below' if d else 'top') for j, d in sm['writes']],
                  'globals', [info['gnames'][g] for g in sm['globals']])


def blame(info, name):
    """debug: which statements of API member `name` may write a parameter / global (and through which callee)"""
    S, progs = info['summaries'], info['progs']
    ent = [e for e in info['entries'] if e[0] == name]
    seen = set()

    def rec(fid, depth):
        if fid in seen or depth > 6:
            return
        seen.add(fid)
        p = progs[fid]
        m = Mirror(S)
        A, _ = m.analyse(p['stmts'])
        for s in p['stmts']:
            t = [o for o in m.targets(s, A) if o[0] in ('root', 'inner', 'glob')]
            if t:
                print('  ' * depth + p['qual'], s[:3] if s[0] == 'call' else s,
                      [p['names'][v] if isinstance(v, int) and v < len(p['names']) else v for v in (s[1:2] if s[0] != 'call' else [])],
                      ('-> ' + progs[s[2]]['qual']) if s[0] == 'call' else '', t[:4])
                if s[0] == 'call':
                    rec(s[2], depth + 1)
    for e in ent:
        rec(e[1], 0)
