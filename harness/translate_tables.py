"""
Translator for the mass tables (owned by work package C02/C03/C05; imported read-only by C04, C12, C14, C18).

Reads /repo's CURRENT working tree and regenerates

  lean/PeptVerif/Generated/Constants.lean   from src/peptacular/constants.py   (Python `ast`, literals only)
  lean/PeptVerif/Generated/Elements.lean    from src/peptacular/data/chem.txt  (own text reader, independent of element_setup.py)

Files are rewritten only if their content changed, so lake stays incremental.  Derived Python tables
(`*_ADJUSTMENTS`, residue masses, ISOTOPIC/AVERAGE_ATOMIC_MASSES) are NOT copied: the Lean model recomputes them
from these literals; only the *recipes* `merge_dicts(TABLE[k1], TABLE[k2])` of the two derived composition tables
are transcribed (which source table / key feeds which entry), so that an edit of a recipe is seen as well.

String keys (element symbols, residue letters, ion types) are emitted as `Nat`: the big-endian base-256 packing of
their ASCII bytes ('H' = 72, 'Na' = 78*256+97, '13C' = 0x313343) - kernel evaluation over `Nat` is fast, over
`String`/`Char` it is not.  Adduct strings are emitted as lists of code points.
Numbers are emitted as exact decimals of the SOURCE TEXT into `Rat`.

usage:   from harness import translate_tables;  changed = translate_tables.translate()
"""
import ast
import os
import re
from decimal import Decimal
from fractions import Fraction

from . import core

GEN_DIR = os.path.join(core.LEAN, 'PeptVerif', 'Generated')


def key(s):
    """base-256 packing of an ASCII string"""
    return int.from_bytes(s.encode('ascii'), 'big')


def unkey(n):
    return n.to_bytes((n.bit_length() + 7) // 8, 'big').decode('ascii')


def rat(text):
    """exact decimal text -> Lean Rat term"""
    d = Decimal(str(text).strip())
    sign, digits, exp = d.as_tuple()
    n = int(''.join(map(str, digits))) * (-1 if sign else 1)
    if exp >= 0:
        return f'({n * 10 ** exp} : Rat)'
    return f'(({n} : Rat) / {10 ** (-exp)})'


def _k(s):
    return f'{key(s)} /-{s if s else "empty"}-/'


def _comp(d):
    """{'C': 2, 'H': 3} -> [(67, 2), (72, 3)] as List (Nat x Rat)"""
    return '[' + ', '.join(f'({_k(k)}, {rat(v)})' for k, v in d) + ']'


class ConstReader:
    """literal dicts / numbers of constants.py, by `ast` (nothing is imported or executed)"""

    def __init__(self, path):
        self.src = open(path).read()
        self.tree = ast.parse(self.src)
        self.assign = {}
        for node in self.tree.body:
            tgt = None
            if isinstance(node, ast.Assign) and len(node.targets) == 1 and isinstance(node.targets[0], ast.Name):
                tgt, val = node.targets[0].id, node.value
            elif isinstance(node, ast.AnnAssign) and isinstance(node.target, ast.Name) and node.value is not None:
                tgt, val = node.target.id, node.value
            if tgt:
                self.assign[tgt] = val

    def seg(self, node):
        return ast.get_source_segment(self.src, node)

    def number(self, name):
        node = self.assign[name]
        if isinstance(node, ast.UnaryOp) and isinstance(node.op, ast.USub):
            return '-' + self.seg(node.operand)
        if not (isinstance(node, ast.Constant) and isinstance(node.value, (int, float))):
            raise core.InfraError(f'translator: {name} is not a numeric literal')
        return self.seg(node).replace('_', '')

    def num_node(self, node):
        if isinstance(node, ast.UnaryOp) and isinstance(node.op, ast.USub):
            return '-' + self.num_node(node.operand)
        if isinstance(node, ast.Constant) and isinstance(node.value, (int, float)) and not isinstance(node.value, bool):
            return self.seg(node).replace('_', '')
        raise core.InfraError('translator: expected a numeric literal, got ' + ast.dump(node)[:80])

    def flat_dict(self, node):
        """{'C': 2, ...}  or a NAME bound to such a dict -> ordered list of (str, numeric text)"""
        if isinstance(node, ast.Name):
            node = self.assign[node.id]
        if not isinstance(node, ast.Dict):
            raise core.InfraError('translator: expected a dict literal, got ' + ast.dump(node)[:80])
        out = []
        for k, v in zip(node.keys, node.values):
            if not (isinstance(k, ast.Constant) and isinstance(k.value, str)):
                raise core.InfraError('translator: non-string key')
            out.append((k.value, self.num_node(v)))
        return out

    def dict_of_dicts(self, name):
        node = self.assign[name]
        if not isinstance(node, ast.Dict):
            raise core.InfraError(f'translator: {name} is not a dict literal')
        return [(k.value, self.flat_dict(v)) for k, v in zip(node.keys, node.values)]

    def dict_of_strs(self, name):
        node = self.assign[name]
        out = []
        for k, v in zip(node.keys, node.values):
            if not (isinstance(v, ast.Constant) and isinstance(v.value, str)):
                raise core.InfraError(f'translator: {name}[{k.value}] is not a string literal')
            out.append((k.value, v.value))
        return out

    def str_set(self, name):
        node = self.assign[name]
        if not isinstance(node, ast.Set):
            raise core.InfraError(f'translator: {name} is not a set literal')
        return sorted(e.value for e in node.elts)

    def recipes(self, name):
        """{'ax': merge_dicts(T1['a'], T2['x'])} -> [('ax', ('T1','a'), ('T2','x'))]"""
        node = self.assign[name]
        out = []
        for k, v in zip(node.keys, node.values):
            ok = (isinstance(v, ast.Call) and isinstance(v.func, ast.Name) and v.func.id == 'merge_dicts' and len(v.args) == 2
                  and all(isinstance(a, ast.Subscript) and isinstance(a.value, ast.Name) and isinstance(a.slice, ast.Constant)
                          for a in v.args))
            if not ok:
                raise core.InfraError(f'translator: {name}[{k.value}] is not merge_dicts(TABLE[k], TABLE[k])')
            out.append((k.value, (v.args[0].value.id, v.args[0].slice.value), (v.args[1].value.id, v.args[1].slice.value)))
        return out


TABLE_CODE = {'NEUTRAL_FRAGMENT_START_COMPOSITIONS': 0, 'NEUTRAL_FRAGMENT_END_COMPOSITIONS': 1,
              'NEUTRAL_FRAGMENT_COMPOSITION_ADJUSTMENTS': 2, 'FRAGMENT_ION_COMPOSITIONS': 3}


_RUNTIME_SNIPPET = r"""
import json, warnings
warnings.simplefilter('ignore')
from peptacular import constants as K
names = ['AA_COMPOSITIONS', 'FRAGMENT_ION_COMPOSITIONS', 'FRAGMENT_ION_BASE_CHARGE_ADDUCTS', 'NEUTRAL_FRAGMENT_START_COMPOSITIONS',
         'NEUTRAL_FRAGMENT_END_COMPOSITIONS', 'NEUTRAL_FRAGMENT_COMPOSITION_ADJUSTMENTS', 'FRAGMENT_ION_COMPOSITION_ADJUSTMENTS',
         'AVERAGINE_RATIOS', 'PROTON_MASS', 'ELECTRON_MASS', 'NEUTRON_MASS', 'C13_NEUTRON_MASS', 'PEPTIDE_AVERAGINE_NEUTRON_MASS']
out = {}
for n in names:
    v = getattr(K, n)
    if isinstance(v, dict):
        out[n] = [[k, ([[kk, repr(vv)] for kk, vv in x.items()] if isinstance(x, dict) else x)] for k, x in v.items()]
        if n == 'AVERAGINE_RATIOS':
            out[n] = [[k, repr(x)] for k, x in v.items()]
    else:
        out[n] = repr(v)
for n in ['FORWARD_ION_TYPES', 'BACKWARD_ION_TYPES', 'INTERNAL_ION_TYPES', 'IMMONIUM_ION_TYPES']:
    out[n] = sorted(getattr(K, n))
print(json.dumps(out))
"""

BY_VALUE = []      # tables emitted from the evaluated module instead of the source text, in the last translate() call


def runtime_constants(repo):
    """the tables as the tree under test computes them at import (fresh interpreter, nothing of the harness imported)"""
    import json
    import subprocess
    env = {k: v for k, v in os.environ.items() if k != 'PYTHONPATH'}
    env['PYTHONPATH'] = os.path.join(repo, 'src')
    env['PYTHONDONTWRITEBYTECODE'] = '1'
    p = subprocess.run(['/venv/bin/python', '-W', 'ignore', '-c', _RUNTIME_SNIPPET], cwd='/tmp', env=env, capture_output=True, text=True)
    if p.returncode != 0:
        raise core.InfraError('translator: the tree under test cannot be imported: ' + p.stderr[-800:])
    return json.loads(p.stdout.strip().split('\n')[-1])


def _frac(t):
    return Fraction(Decimal(str(t).strip()))


def _same_dd(a, b):
    """two dict-of-dicts given as ordered lists [(key, [(k, numtext)])]: same keys in the same order, same numbers"""
    try:
        return [(k, [(kk, _frac(v)) for kk, v in d]) for k, d in a] == [(k, [(kk, _frac(v)) for kk, v in d]) for k, d in b]
    except Exception:  # noqa
        return False


def _merge(d1, d2):
    d = {}
    for k, v in d1:
        d[k] = _frac(v)
    for k, v in d2:
        d[k] = d.get(k, 0) + _frac(v)
    return [(k, v) for k, v in d.items() if v != 0]


def gen_constants(repo):
    """source text first (ast); every table is then compared with what the module evaluates to at import and emitted BY VALUE when
    the text cannot be read literally or does not say what the module computes (comprehensions, later `.update(...)`, helper
    calls ...) - so that the kernel-evaluated obligations are always about the tables the code uses NOW"""
    del BY_VALUE[:]
    rt = runtime_constants(repo)
    try:
        cr = ConstReader(os.path.join(repo, 'src', 'peptacular', 'constants.py'))
    except Exception:  # noqa
        cr = None
    L = ['/-! GENERATED by harness/translate_tables.py from src/peptacular/constants.py - do not edit.',
         'Keys are base-256 packed ASCII strings; numbers are the exact decimals of the source text (of `repr` for a table',
         'emitted by value, see the `by value` remarks below). -/',
         'namespace Gen', '']

    def by_value(py):
        BY_VALUE.append(py)
        L.append(f'-- `{py}`: emitted BY VALUE (the source text is not a literal of the expected shape, or differs from the evaluated module)')

    for lean, py in (('protonMass', 'PROTON_MASS'), ('electronMass', 'ELECTRON_MASS'), ('neutronMass', 'NEUTRON_MASS'),
                     ('c13NeutronMass', 'C13_NEUTRON_MASS'), ('averagineNeutronMass', 'PEPTIDE_AVERAGINE_NEUTRON_MASS')):
        try:
            txt = cr.number(py)
            if _frac(txt) != _frac(rt[py]):
                raise ValueError('differs')
        except Exception:  # noqa
            by_value(py)
            txt = rt[py]
        L.append(f'/-- `{py}` -/')
        L.append(f'def {lean} : Rat := {rat(txt)}')
    L.append('')

    def dd(py):
        rv = [(k, [(kk, v) for kk, v in d]) for k, d in rt[py]]
        try:
            av = cr.dict_of_dicts(py)
            if not _same_dd(av, rv):
                raise ValueError('differs')
            return av
        except Exception:  # noqa
            by_value(py)
            return rv

    def table(lean, py, rows):
        L.append(f'/-- `{py}` -/')
        L.append(f'def {lean} : List (Nat × List (Nat × Rat)) := [')
        L.append(',\n'.join(f'  ({_k(k)}, {_comp(d)})' for k, d in rows))
        L.append(']')
        L.append('')

    tabs = {}
    for lean, py in (('aaComp', 'AA_COMPOSITIONS'), ('ionComp', 'FRAGMENT_ION_COMPOSITIONS'),
                     ('neutralStart', 'NEUTRAL_FRAGMENT_START_COMPOSITIONS'), ('neutralEnd', 'NEUTRAL_FRAGMENT_END_COMPOSITIONS')):
        tabs[py] = dd(py)
        table(lean, py, tabs[py])
    try:
        rows = cr.dict_of_strs('FRAGMENT_ION_BASE_CHARGE_ADDUCTS')
        if rows != [(k, v) for k, v in rt['FRAGMENT_ION_BASE_CHARGE_ADDUCTS']]:
            raise ValueError('differs')
    except Exception:  # noqa
        by_value('FRAGMENT_ION_BASE_CHARGE_ADDUCTS')
        rows = [(k, v) for k, v in rt['FRAGMENT_ION_BASE_CHARGE_ADDUCTS']]
    L.append('/-- `FRAGMENT_ION_BASE_CHARGE_ADDUCTS` (adduct strings as code points) -/')
    L.append('def baseAdducts : List (Nat × List Nat) := [')
    for i, (k, v) in enumerate(rows):
        if '\n' in v:
            raise core.InfraError('translator: newline in adduct string')
        L.append(f'  ({_k(k)}, [{", ".join(str(ord(c)) for c in v)}]){"," if i + 1 < len(rows) else ""}  -- {v!r}')
    L.append(']')
    L.append('')
    derived = {}
    for lean, py in (('neutralAdj', 'NEUTRAL_FRAGMENT_COMPOSITION_ADJUSTMENTS'), ('ionAdj', 'FRAGMENT_ION_COMPOSITION_ADJUSTMENTS')):
        rv = [(k, [(kk, v) for kk, v in d]) for k, d in rt[py]]
        recipe = None
        try:
            rec = cr.recipes(py)
            src = dict(tabs)
            src.update(derived)
            ev = []
            for k, (t1, k1), (t2, k2) in rec:
                if t1 not in TABLE_CODE or t2 not in TABLE_CODE:
                    raise ValueError('unknown table')
                ev.append((k, [(kk, str(v)) for kk, v in _merge(dict(src[t1])[k1], dict(src[t2])[k2])]))
            if not _same_dd(ev, rv):
                raise ValueError('differs')
            recipe = rec
        except Exception:  # noqa
            by_value(py)
        derived[py] = rv
        L.append(f'/-- `{py}`: entry = merge_dicts(table₁[k₁], table₂[k₂]); table codes 0 = NEUTRAL_FRAGMENT_START_COMPOSITIONS,')
        L.append('1 = NEUTRAL_FRAGMENT_END_COMPOSITIONS, 2 = NEUTRAL_FRAGMENT_COMPOSITION_ADJUSTMENTS, 3 = FRAGMENT_ION_COMPOSITIONS')
        L.append('(empty when the table is emitted by value) -/')
        L.append(f'def {lean}Recipe : List (Nat × (Nat × Nat) × (Nat × Nat)) := [')
        if recipe is not None:
            L.append(',\n'.join(f'  ({_k(k)}, ({TABLE_CODE[t1]}, {_k(k1)}), ({TABLE_CODE[t2]}, {_k(k2)}))' for k, (t1, k1), (t2, k2) in recipe))
        L.append(']')
        L.append(f'/-- `{py}` by value: `some` = what the module evaluates to (used instead of the recipe) -/')
        if recipe is not None:
            L.append(f'def {lean}ByValue : Option (List (Nat × List (Nat × Rat))) := none')
        else:
            L.append(f'def {lean}ByValue : Option (List (Nat × List (Nat × Rat))) := some [')
            L.append(',\n'.join(f'  ({_k(k)}, {_comp(d)})' for k, d in rv))
            L.append(']')
        L.append('')
    try:
        av = cr.flat_dict(cr.assign['AVERAGINE_RATIOS'])
        if [(k, _frac(v)) for k, v in av] != [(k, _frac(v)) for k, v in rt['AVERAGINE_RATIOS']]:
            raise ValueError('differs')
    except Exception:  # noqa
        by_value('AVERAGINE_RATIOS')
        av = [(k, v) for k, v in rt['AVERAGINE_RATIOS']]
    L.append('/-- `AVERAGINE_RATIOS` -/')
    L.append(f'def averagine : List (Nat × Rat) := {_comp(av)}')
    L.append('')
    for lean, py in (('forwardIonTypes', 'FORWARD_ION_TYPES'), ('backwardIonTypes', 'BACKWARD_ION_TYPES'),
                     ('internalIonTypes', 'INTERNAL_ION_TYPES'), ('immoniumIonTypes', 'IMMONIUM_ION_TYPES')):
        L.append(f'/-- `{py}` (sorted; evaluated module) -/')
        L.append(f'def {lean} : List Nat := [{", ".join(_k(x) for x in rt[py])}]')
    L.append('')
    L.append('end Gen')
    return '\n'.join(L) + '\n'


_num = r'([0-9]+(?:\.[0-9]*)?)'


def read_chem_txt(path):
    """own reader of the NIST text: blocks separated by blank lines -> (Z, symbol, A, mass text, abundance text)"""
    rows = []
    cur = {}

    def flush():
        if cur:
            try:
                rows.append((int(cur['Atomic Number']), cur['Atomic Symbol'], int(cur['Mass Number']),
                             cur['Relative Atomic Mass'], cur.get('Isotopic Composition', '0')))
            except KeyError as e:
                raise core.InfraError(f'translator: chem.txt block without {e}: {cur}')
            cur.clear()

    for raw in open(path):
        line = raw.strip()
        if not line:
            flush()
            continue
        m = re.match(r'^([A-Za-z ]+?)\s*=\s*(.*)$', line)
        if not m:
            raise core.InfraError('translator: chem.txt line not understood: ' + line)
        k, v = m.group(1), m.group(2).strip()
        if k in ('Relative Atomic Mass', 'Isotopic Composition'):
            if v == '':
                v = '0'
            else:
                mm = re.match('^' + _num, v)
                if not mm:
                    raise core.InfraError('translator: number not understood: ' + line)
                v = mm.group(1)
        cur[k] = v
    flush()
    return rows


def gen_elements(repo):
    rows = read_chem_txt(os.path.join(repo, 'src', 'peptacular', 'data', 'chem.txt'))
    L = ['/-! GENERATED by harness/translate_tables.py from src/peptacular/data/chem.txt - do not edit.',
         'One row per nuclide in file order: (Z, symbol, mass number, relative atomic mass, isotopic composition);',
         'symbols are base-256 packed ASCII; an empty composition is 0. -/',
         'namespace Gen', '']
    n = 0
    for i in range(0, len(rows), 50):
        L.append(f'def nuclides{n} : List (Nat × Nat × Nat × Rat × Rat) := [')
        L.append(',\n'.join(f'  ({z}, {_k(s)}, {a}, {rat(m)}, {rat(ab)})' for z, s, a, m, ab in rows[i:i + 50]))
        L.append(']')
        n += 1
    L.append('')
    L.append('def nuclides : List (Nat × Nat × Nat × Rat × Rat) := ' + ' ++ '.join(f'nuclides{i}' for i in range(n)))
    L.append('')
    L.append('end Gen')
    return '\n'.join(L) + '\n'


def gen_element_masses(repo):
    """`ISOTOPIC_ATOMIC_MASSES` / `AVERAGE_ATOMIC_MASSES` as literals, computed here with exact fractions by the same steps as
    `Model/Chem.lean` (`isotopicMasses`, `averageMasses`: write order reversed).  NOT trusted: `Lemmas/ElemTables.lean` proves by
    kernel evaluation that the Lean recomputation from `Generated/Elements.lean` equals these literals; they only exist so that
    table obligations over thousands of vocabulary entries need not re-evaluate the derivation for every look-up."""
    rows = read_chem_txt(os.path.join(repo, 'src', 'peptacular', 'data', 'chem.txt'))
    groups = {}
    for z, sym, a, m, ab in rows:
        groups.setdefault(z, []).append((sym, a, Fraction(Decimal(m)), Fraction(Decimal(ab))))
    iso, avg = [], []
    for z, g in groups.items():
        best = g[0]
        for x in g[1:]:
            if best[3] < x[3]:
                best = x
        iso.append((key(best[0]), best[2]))
        for sym, a, m, ab in g:
            iso.append((key(str(a) + sym), m))
        tot = sum((m * ab for _, _, m, ab in g), Fraction(0))
        avg.append((key(best[0]), best[2] if tot == 0 else tot))

    def last(k):
        for kk, v in reversed(iso):
            if kk == k:
                return [v]
        return []

    t, d = last(key('3T')), last(key('2D'))
    iso = iso + [(key('T'), v) for v in t] + [(key('D'), v) for v in d] + [(key('3H'), v) for v in t] + [(key('2H'), v) for v in d]
    iso.reverse()
    avg.reverse()

    def lit(fr):
        return f'(({fr.numerator} : Rat) / {fr.denominator})' if fr.denominator != 1 else f'({fr.numerator} : Rat)'

    front = []
    isod, avgd = {}, {}
    for k, v in iso:
        isod.setdefault(k, v)
    for k, v in avg:
        avgd.setdefault(k, v)
    for sym in FRONT_KEYS:
        k = key(sym)
        if k in isod:
            front.append((k, isod[k], avgd.get(k)))
    L = ['/-! GENERATED by harness/translate_tables.py from src/peptacular/data/chem.txt - do not edit.',
         'Literal copies of the two derived element-mass tables; `PeptVerif/Lemmas/ElemTables.lean` proves them equal to the',
         'recomputation in `Model/Chem.lean` (kernel evaluation), so nothing here is trusted. -/', 'namespace Gen', '']
    for name, tbl in (('isotopicLit', iso), ('averageLit', avg)):
        n = 0
        for i in range(0, len(tbl), 50):
            L.append(f'def {name}{n} : List (Nat × Rat) := [')
            L.append(',\n'.join(f'  ({k} /-{unkey(k)}-/, {lit(v)})' for k, v in tbl[i:i + 50]))
            L.append(']')
            n += 1
        L.append(f'def {name} : List (Nat × Rat) := ' + ' ++ '.join(f'{name}{i}' for i in range(n)))
        L.append('')
    L.append('/-- the keys that vocabulary compositions use most, first: (key, `ISOTOPIC_ATOMIC_MASSES[key]`, `AVERAGE_ATOMIC_MASSES.get(key)`) -/')
    L.append('def frontLit : List (Nat × Rat × Option Rat) := [')
    L.append(',\n'.join(f'  ({k} /-{unkey(k)}-/, {lit(m)}, {"none" if a is None else "some " + lit(a)})' for k, m, a in front))
    L.append(']')
    L.append('')
    L.append('end Gen')
    return '\n'.join(L) + '\n'


FRONT_KEYS = ['H', 'C', 'N', 'O', 'S', 'P', '2H', '13C', '15N', '18O', 'D', 'F', 'Cl', 'Br', 'I', 'Na', 'K', 'Se', 'Fe', 'Zn', 'Cu',
              'Mo', 'Hg', 'B', 'Si', 'Li', 'Mg', 'Ca', 'Mn', 'Co', 'Ni', 'As', 'Ag', 'Au', 'Pt', 'Al', 'Cd', 'Pd', 'Cr', 'W', 'V',
              '17O', '34S', '33S', 'T', '3H']


def _write_if_changed(path, text):
    if os.path.exists(path) and open(path).read() == text:
        return False
    os.makedirs(os.path.dirname(path), exist_ok=True)
    tmp = path + f'.tmp{os.getpid()}'
    with open(tmp, 'w') as f:
        f.write(text)
    os.replace(tmp, path)
    return True


def translate(chk=None, repo=None):
    """regenerate both modules from `repo` (default: core.REPO); returns the list of modules whose text changed"""
    import fcntl
    repo = repo or core.REPO
    changed = []
    os.makedirs(os.path.join(core.LEAN, '.lake'), exist_ok=True)
    with open(os.path.join(core.LEAN, '.lake', 'verif.lock'), 'w') as lk:
        fcntl.flock(lk, fcntl.LOCK_EX)
        for mod, fn in (('Constants', gen_constants), ('Elements', gen_elements), ('ElementMasses', gen_element_masses)):
            if _write_if_changed(os.path.join(GEN_DIR, mod + '.lean'), fn(repo)):
                changed.append('PeptVerif.Generated.' + mod)
    if changed and os.environ.get('VERIF_REPO') and os.path.realpath(repo) != os.path.realpath('/repo'):
        _restore_at_exit()
    if chk is not None:
        chk.generated_changed += changed
        if BY_VALUE:
            chk.generated_changed += ['by_value:' + x for x in BY_VALUE]
            chk.notes.append({'tables_emitted_by_value': list(BY_VALUE)})
        chk.trusted.append('harness/translate_tables.py: constants.py literals (ast) and data/chem.txt (own text reader) -> '
                           'Generated/Constants.lean, Generated/Elements.lean; derived tables are recomputed by the model')
    return changed


_RESTORE = []


def _restore_at_exit():
    """a run against a scratch tree ($VERIF_REPO) rewrites the shared Generated/*.lean from that tree: put the tables of /repo back
    when the interpreter exits, so that other agents' builds never see the scratch state for longer than the run itself"""
    if _RESTORE:
        return
    _RESTORE.append(True)
    import atexit

    def back():
        try:
            translate(None, '/repo')
        except Exception:  # noqa
            pass

    atexit.register(back)


if __name__ == '__main__':
    print(translate())
