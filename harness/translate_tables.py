"""
Translator for the mass tables (owned by work package C02/C03/C05; imported read-only by C04, C12, C14, C18).

Reads /repo's CURRENT working tree and regenerates

  lean/PeptVerif/Generated/Constants.lean   from src/peptacular/constants.py   (Python `ast`, literals only)
  lean/PeptVerif/Generated/Elements.lean    from src/peptacular/data/chem.txt  (own text reader, independent of element_setup.py)

Files are rewritten only if their content changed, so lake stays incremental.  Derived Python tables
(`*_ADJUSTMENTS`, residue masses, ISOTOPIC/AVERAGE_ATOMIC_MASSES) are NOT copied: the Lean model recomputes them
from these literals; only the *recipes* `merge_dicts(TABLE[k1], TABLE[k2])` of the two derived composition tables
are transcribed (which source table / key feeds which entry), so that an edit of a recipe is seen as well.

String keys (element symbols, residue letters, ion types) are emitted as `Nat`: the big-endian base-256 packing of
their ASCII bytes ('H' = 72, 'Na' = 78*256+97, '13C' = 0x313343) - kernel evaluation over `Nat` is fast, over
`String`/`Char` it is not.  Adduct strings are emitted as lists of code points.
Numbers are emitted as exact decimals of the SOURCE TEXT into `Rat`.

usage:   from harness import translate_tables;  changed = translate_tables.translate()
"""
import ast
import os
import re
from decimal import Decimal
from fractions import Fraction

from . import core

GEN_DIR = os.path.join(core.LEAN, 'PeptVerif', 'Generated')


def key(s):
    """base-256 packing of an ASCII string"""
    return int.from_bytes(s.encode('ascii'), 'big')


def unkey(n):
    return n.to_bytes((n.bit_length() + 7) // 8, 'big').decode('ascii')


def rat(text):
    """exact decimal text -> Lean Rat term"""
    d = Decimal(str(text).strip())
    sign, digits, exp = d.as_tuple()
    n = int(''.join(map(str, digits))) * (-1 if sign else 1)
    if exp >= 0:
        return f'({n * 10 ** exp} : Rat)'
    return f'(({n} : Rat) / {10 ** (-exp)})'


def _k(s):
    return f'{key(s)} /-{s if s else "empty"}-/'


def _comp(d):
    """{'C': 2, 'H': 3} -> [(67, 2), (72, 3)] as List (Nat x Rat)"""
    return '[' + ', '.join(f'({_k(k)}, {rat(v)})' for k, v in d) + ']'


class ConstReader:
    """literal dicts / numbers of constants.py, by `ast` (nothing is imported or executed)"""

    def __init__(self, path):
        self.src = open(path).read()
        self.tree = ast.parse(self.src)
        self.assign = {}
        for node in self.tree.body:
            tgt = None
            if isinstance(node, ast.Assign) and len(node.targets) == 1 and isinstance(node.targets[0], ast.Name):
                tgt, val = node.targets[0].id, node.value
            elif isinstance(node, ast.AnnAssign) and isinstance(node.target, ast.Name) and node.value is not None:
                tgt, val = node.target.id, node.value
            if tgt:
                self.assign[tgt] = val

    def seg(self, node):
        return ast.get_source_segment(self.src, node)

    def number(self, name):
        node = self.assign[name]
        if isinstance(node, ast.UnaryOp) and isinstance(node.op, ast.USub):
            return '-' + self.seg(node.operand)
        if not (isinstance(node, ast.Constant) and isinstance(node.value, (int, float))):
            raise core.InfraError(f'translator: {name} is not a numeric literal')
        return self.seg(node).replace('_', '')

    def num_node(self, node):
        if isinstance(node, ast.UnaryOp) and isinstance(node.op, ast.USub):
            return '-' + self.num_node(node.operand)
        if isinstance(node, ast.Constant) and isinstance(node.value, (int, float)) and not isinstance(node.value, bool):
            return self.seg(node).replace('_', '')
        raise core.InfraError('translator: expected a numeric literal, got ' + ast.dump(node)[:80])

    def flat_dict(self, node):
        """{'C': 2, ...}  or a NAME bound to such a dict -> ordered list of (str, numeric text)"""
        if isinstance(node, ast.Name):
            node = self.assign[node.id]
        if not isinstance(node, ast.Dict):
            raise core.InfraError('translator: expected a dict literal, got ' + ast.dump(node)[:80])
        out = []
        for k, v in zip(node.keys, node.values):
            if not (isinstance(k, ast.Constant) and isinstance(k.value, str)):
                raise core.InfraError('translator: non-string key')
            out.append((k.value, self.num_node(v)))
        return out

    def dict_of_dicts(self, name):
        node = self.assign[name]
        if not isinstance(node, ast.Dict):
            raise core.InfraError(f'translator: {name} is not a dict literal')
        return [(k.value, self.flat_dict(v)) for k, v in zip(node.keys, node.values)]

    def dict_of_strs(self, name):
        node = self.assign[name]
        out = []
        for k, v in zip(node.keys, node.values):
            if not (isinstance(v, ast.Constant) and isinstance(v.value, str)):
                raise core.InfraError(f'translator: {name}[{k.value}] is not a string literal')
            out.append((k.value, v.value))
        return out

    def str_set(self, name):
        node = self.assign[name]
        if not isinstance(node, ast.Set):
            raise core.InfraError(f'translator: {name} is not a set literal')
        return sorted(e.value for e in node.elts)

    def recipes(self, name):
        """{'ax': merge_dicts(T1['a'], T2['x'])} -> [('ax', ('T1','a'), ('T2','x'))]"""
        node = self.assign[name]
        out = []
        for k, v in zip(node.keys, node.values):
            ok = (isinstance(v, ast.Call) and isinstance(v.func, ast.Name) and v.func.id == 'merge_dicts' and len(v.args) == 2
                  and all(isinstance(a, ast.Subscript) and isinstance(a.value, ast.Name) and isinstance(a.slice, ast.Constant)
                          for a in v.args))
            if not ok:
                raise core.InfraError(f'translator: {name}[{k.value}] is not merge_dicts(TABLE[k], TABLE[k])')
            out.append((k.value, (v.args[0].value.id, v.args[0].slice.value), (v.args[1].value.id, v.args[1].slice.value)))
        return out


TABLE_CODE = {'NEUTRAL_FRAGMENT_START_COMPOSITIONS': 0, 'NEUTRAL_FRAGMENT_END_COMPOSITIONS': 1,
              'NEUTRAL_FRAGMENT_COMPOSITION_ADJUSTMENTS': 2, 'FRAGMENT_ION_COMPOSITIONS': 3}


def gen_constants(repo):
    cr = ConstReader(os.path.join(repo, 'src', 'peptacular', 'constants.py'))
    L = ['/-! GENERATED by harness/translate_tables.py from src/peptacular/constants.py - do not edit.',
         'Keys are base-256 packed ASCII strings; numbers are the exact decimals of the source text. -/',
         'namespace Gen', '']
    for lean, py in (('protonMass', 'PROTON_MASS'), ('electronMass', 'ELECTRON_MASS'), ('neutronMass', 'NEUTRON_MASS'),
                     ('c13NeutronMass', 'C13_NEUTRON_MASS'), ('averagineNeutronMass', 'PEPTIDE_AVERAGINE_NEUTRON_MASS')):
        L.append(f'/-- `{py}` -/')
        L.append(f'def {lean} : Rat := {rat(cr.number(py))}')
    L.append('')

    def table(lean, py, rows):
        L.append(f'/-- `{py}` -/')
        L.append(f'def {lean} : List (Nat × List (Nat × Rat)) := [')
        L.append(',\n'.join(f'  ({_k(k)}, {_comp(d)})' for k, d in rows))
        L.append(']')
        L.append('')

    table('aaComp', 'AA_COMPOSITIONS', cr.dict_of_dicts('AA_COMPOSITIONS'))
    table('ionComp', 'FRAGMENT_ION_COMPOSITIONS', cr.dict_of_dicts('FRAGMENT_ION_COMPOSITIONS'))
    table('neutralStart', 'NEUTRAL_FRAGMENT_START_COMPOSITIONS', cr.dict_of_dicts('NEUTRAL_FRAGMENT_START_COMPOSITIONS'))
    table('neutralEnd', 'NEUTRAL_FRAGMENT_END_COMPOSITIONS', cr.dict_of_dicts('NEUTRAL_FRAGMENT_END_COMPOSITIONS'))
    L.append('/-- `FRAGMENT_ION_BASE_CHARGE_ADDUCTS` (adduct strings as code points) -/')
    L.append('def baseAdducts : List (Nat × List Nat) := [')
    rows = cr.dict_of_strs('FRAGMENT_ION_BASE_CHARGE_ADDUCTS')
    for i, (k, v) in enumerate(rows):
        if '\n' in v:
            raise core.InfraError('translator: newline in adduct string')
        L.append(f'  ({_k(k)}, [{", ".join(str(ord(c)) for c in v)}]){"," if i + 1 < len(rows) else ""}  -- {v!r}')
    L.append(']')
    L.append('')
    for lean, py in (('neutralAdjRecipe', 'NEUTRAL_FRAGMENT_COMPOSITION_ADJUSTMENTS'),
                     ('ionAdjRecipe', 'FRAGMENT_ION_COMPOSITION_ADJUSTMENTS')):
        L.append(f'/-- `{py}`: entry = merge_dicts(table₁[k₁], table₂[k₂]); table codes 0 = NEUTRAL_FRAGMENT_START_COMPOSITIONS,')
        L.append('1 = NEUTRAL_FRAGMENT_END_COMPOSITIONS, 2 = NEUTRAL_FRAGMENT_COMPOSITION_ADJUSTMENTS, 3 = FRAGMENT_ION_COMPOSITIONS -/')
        L.append(f'def {lean} : List (Nat × (Nat × Nat) × (Nat × Nat)) := [')
        rows = []
        for k, (t1, k1), (t2, k2) in cr.recipes(py):
            if t1 not in TABLE_CODE or t2 not in TABLE_CODE:
                raise core.InfraError(f'translator: unknown table in recipe of {py}[{k}]')
            rows.append(f'  ({_k(k)}, ({TABLE_CODE[t1]}, {_k(k1)}), ({TABLE_CODE[t2]}, {_k(k2)}))')
        L.append(',\n'.join(rows))
        L.append(']')
        L.append('')
    L.append('/-- `AVERAGINE_RATIOS` -/')
    L.append(f'def averagine : List (Nat × Rat) := {_comp(cr.flat_dict(cr.assign["AVERAGINE_RATIOS"]))}')
    L.append('')
    for lean, py in (('forwardIonTypes', 'FORWARD_ION_TYPES'), ('backwardIonTypes', 'BACKWARD_ION_TYPES'),
                     ('internalIonTypes', 'INTERNAL_ION_TYPES'), ('immoniumIonTypes', 'IMMONIUM_ION_TYPES')):
        L.append(f'/-- `{py}` (sorted) -/')
        L.append(f'def {lean} : List Nat := [{", ".join(_k(s) for s in cr.str_set(py))}]')
    L.append('')
    L.append('end Gen')
    return '\n'.join(L) + '\n'


_num = r'([0-9]+(?:\.[0-9]*)?)'


def read_chem_txt(path):
    """own reader of the NIST text: blocks separated by blank lines -> (Z, symbol, A, mass text, abundance text)"""
    rows = []
    cur = {}

    def flush():
        if cur:
            try:
                rows.append((int(cur['Atomic Number']), cur['Atomic Symbol'], int(cur['Mass Number']),
                             cur['Relative Atomic Mass'], cur.get('Isotopic Composition', '0')))
            except KeyError as e:
                raise core.InfraError(f'translator: chem.txt block without {e}: {cur}')
            cur.clear()

    for raw in open(path):
        line = raw.strip()
        if not line:
            flush()
            continue
        m = re.match(r'^([A-Za-z ]+?)\s*=\s*(.*)$', line)
        if not m:
            raise core.InfraError('translator: chem.txt line not understood: ' + line)
        k, v = m.group(1), m.group(2).strip()
        if k in ('Relative Atomic Mass', 'Isotopic Composition'):
            if v == '':
                v = '0'
            else:
                mm = re.match('^' + _num, v)
                if not mm:
                    raise core.InfraError('translator: number not understood: ' + line)
                v = mm.group(1)
        cur[k] = v
    flush()
    return rows


def gen_elements(repo):
    rows = read_chem_txt(os.path.join(repo, 'src', 'peptacular', 'data', 'chem.txt'))
    L = ['/-! GENERATED by harness/translate_tables.py from src/peptacular/data/chem.txt - do not edit.',
         'One row per nuclide in file order: (Z, symbol, mass number, relative atomic mass, isotopic composition);',
         'symbols are base-256 packed ASCII; an empty composition is 0. -/',
         'namespace Gen', '']
    n = 0
    for i in range(0, len(rows), 50):
        L.append(f'def nuclides{n} : List (Nat × Nat × Nat × Rat × Rat) := [')
        L.append(',\n'.join(f'  ({z}, {_k(s)}, {a}, {rat(m)}, {rat(ab)})' for z, s, a, m, ab in rows[i:i + 50]))
        L.append(']')
        n += 1
    L.append('')
    L.append('def nuclides : List (Nat × Nat × Nat × Rat × Rat) := ' + ' ++ '.join(f'nuclides{i}' for i in range(n)))
    L.append('')
    L.append('end Gen')
    return '\n'.join(L) + '\n'


def gen_element_masses(repo):
    """`ISOTOPIC_ATOMIC_MASSES` / `AVERAGE_ATOMIC_MASSES` as literals, computed here with exact fractions by the same steps as
    `Model/Chem.lean` (`isotopicMasses`, `averageMasses`: write order reversed).  NOT trusted: `Lemmas/ElemTables.lean` proves by
    kernel evaluation that the Lean recomputation from `Generated/Elements.lean` equals these literals; they only exist so that
    table obligations over thousands of vocabulary entries need not re-evaluate the derivation for every look-up."""
    rows = read_chem_txt(os.path.join(repo, 'src', 'peptacular', 'data', 'chem.txt'))
    groups = {}
    for z, sym, a, m, ab in rows:
        groups.setdefault(z, []).append((sym, a, Fraction(Decimal(m)), Fraction(Decimal(ab))))
    iso, avg = [], []
    for z, g in groups.items():
        best = g[0]
        for x in g[1:]:
            if best[3] < x[3]:
                best = x
        iso.append((key(best[0]), best[2]))
        for sym, a, m, ab in g:
            iso.append((key(str(a) + sym), m))
        tot = sum((m * ab for _, _, m, ab in g), Fraction(0))
        avg.append((key(best[0]), best[2] if tot == 0 else tot))

    def last(k):
        for kk, v in reversed(iso):
            if kk == k:
                return [v]
        return []

    t, d = last(key('3T')), last(key('2D'))
    iso = iso + [(key('T'), v) for v in t] + [(key('D'), v) for v in d] + [(key('3H'), v) for v in t] + [(key('2H'), v) for v in d]
    iso.reverse()
    avg.reverse()

    def lit(fr):
        return f'(({fr.numerator} : Rat) / {fr.denominator})' if fr.denominator != 1 else f'({fr.numerator} : Rat)'

    front = []
    isod, avgd = {}, {}
    for k, v in iso:
        isod.setdefault(k, v)
    for k, v in avg:
        avgd.setdefault(k, v)
    for sym in FRONT_KEYS:
        k = key(sym)
        if k in isod:
            front.append((k, isod[k], avgd.get(k)))
    L = ['/-! GENERATED by harness/translate_tables.py from src/peptacular/data/chem.txt - do not edit.',
         'Literal copies of the two derived element-mass tables; `PeptVerif/Lemmas/ElemTables.lean` proves them equal to the',
         'recomputation in `Model/Chem.lean` (kernel evaluation), so nothing here is trusted. -/', 'namespace Gen', '']
    for name, tbl in (('isotopicLit', iso), ('averageLit', avg)):
        n = 0
        for i in range(0, len(tbl), 50):
            L.append(f'def {name}{n} : List (Nat × Rat) := [')
            L.append(',\n'.join(f'  ({k} /-{unkey(k)}-/, {lit(v)})' for k, v in tbl[i:i + 50]))
            L.append(']')
            n += 1
        L.append(f'def {name} : List (Nat × Rat) := ' + ' ++ '.join(f'{name}{i}' for i in range(n)))
        L.append('')
    L.append('/-- the keys that vocabulary compositions use most, first: (key, `ISOTOPIC_ATOMIC_MASSES[key]`, `AVERAGE_ATOMIC_MASSES.get(key)`) -/')
    L.append('def frontLit : List (Nat × Rat × Option Rat) := [')
    L.append(',\n'.join(f'  ({k} /-{unkey(k)}-/, {lit(m)}, {"none" if a is None else "some " + lit(a)})' for k, m, a in front))
    L.append(']')
    L.append('')
    L.append('end Gen')
    return '\n'.join(L) + '\n'


FRONT_KEYS = ['H', 'C', 'N', 'O', 'S', 'P', '2H', '13C', '15N', '18O', 'D', 'F', 'Cl', 'Br', 'I', 'Na', 'K', 'Se', 'Fe', 'Zn', 'Cu',
              'Mo', 'Hg', 'B', 'Si', 'Li', 'Mg', 'Ca', 'Mn', 'Co', 'Ni', 'As', 'Ag', 'Au', 'Pt', 'Al', 'Cd', 'Pd', 'Cr', 'W', 'V',
              '17O', '34S', '33S', 'T', '3H']


def _write_if_changed(path, text):
    if os.path.exists(path) and open(path).read() == text:
        return False
    os.makedirs(os.path.dirname(path), exist_ok=True)
    tmp = path + f'.tmp{os.getpid()}'
    with open(tmp, 'w') as f:
        f.write(text)
    os.replace(tmp, path)
    return True


def translate(chk=None, repo=None):
    """regenerate both modules from `repo` (default: core.REPO); returns the list of modules whose text changed"""
    import fcntl
    repo = repo or core.REPO
    changed = []
    os.makedirs(os.path.join(core.LEAN, '.lake'), exist_ok=True)
    with open(os.path.join(core.LEAN, '.lake', 'verif.lock'), 'w') as lk:
        fcntl.flock(lk, fcntl.LOCK_EX)
        for mod, fn in (('Constants', gen_constants), ('Elements', gen_elements), ('ElementMasses', gen_element_masses)):
            if _write_if_changed(os.path.join(GEN_DIR, mod + '.lean'), fn(repo)):
                changed.append('PeptVerif.Generated.' + mod)
    if chk is not None:
        chk.generated_changed += changed
        chk.trusted.append('harness/translate_tables.py: constants.py literals (ast) and data/chem.txt (own text reader) -> '
                           'Generated/Constants.lean, Generated/Elements.lean; derived tables are recomputed by the model')
    return changed


if __name__ == '__main__':
    print(translate())
