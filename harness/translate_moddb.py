"""
Mechanical translator  src/peptacular/mods/mod_db.py  (+ the dispatch chains of mass_calc._parse_mod_mass and
chem_calc._parse_mod_comp)  ->  lean/PeptVerif/Generated/ModDbPy.lean  and  lean/PeptVerif/Props/C10Gen.lean.

It reads the CURRENT source of the tree under test with Python `ast` and understands a deliberately tiny subset:

  expressions   x (parameter / local), 'literal', x.lower(), x.startswith('lit'), x.startswith(('a', 'b')),
                a or b, a and b, not a, 'lit' in x, x.split(':', 1)[1], x.split(':')[1], x[len('lit'):],
                DB.contains_id(x), DB.contains_name(x) (DB one of the module-level EntryDb objects),
                is_*_str(x) (call of another translated predicate; dispatch chains only)
  statements    docstring, v = expr, if test: return expr [else …], return expr

Every top-level function of mod_db.py named is_*_str / _strip_*_str is attempted. Anything outside the subset (a compiled
regex, a loop, a new method …) makes THAT function `untranslated` (with the reason; recorded in the evidence notes; no
equality theorem is generated for it; the hand model stays tied to it by correspondence and the oracle). Never raises.

The emitted Lean definitions use the SAME combinators as the hand model (`lower`, `startsWith`, `afterColon`, `splitColon1`,
`byId`, `byName`, …), so that  GenModDb.f = <hand model of f>  is provable by one fixed `simp only` script
(`Props/C10Gen.lean`, generated from a fixed template: one equality theorem per translated function that has a hand
counterpart, plus the transfer of `strip_prefix_key` to the generated strippers).

Entry point:  translate_into(chk) -> report dict  (never raises; files rewritten only on change).
"""
import ast
import os

VERIF = os.path.dirname(os.path.dirname(os.path.abspath(__file__)))
GEN_PATH = os.path.join(VERIF, 'lean', 'PeptVerif', 'Generated', 'ModDbPy.lean')
PROPS_PATH = os.path.join(VERIF, 'lean', 'PeptVerif', 'Props', 'C10Gen.lean')

DB_FIELDS = {'UNIMOD_DB': 'unimod', 'PSI_MOD_DB': 'psimod', 'XLMOD_DB': 'xlmod', 'RESID_DB': 'resid', 'GNO_DB': 'gno',
             'MONOSACCHARIDES_DB': 'mono'}

# hand-model counterpart of each Python function (fixed; a function without an entry gets a definition but no theorem)
HAND = {
    'is_unimod_str': ('fun T s => isDbStr pUnimod T.unimod s', ['isDbStr', 'hasPrefix', 'pUnimod']),
    'is_psi_mod_str': ('fun T s => isDbStr pPsi T.psimod s', ['isDbStr', 'hasPrefix', 'pPsi']),
    'is_xlmod_str': ('fun _ s => hasPrefix pXlmod s', ['hasPrefix', 'pXlmod']),
    'is_resid_str': ('fun _ s => hasPrefix pResid s', ['hasPrefix', 'pResid']),
    'is_gno_str': ('fun _ s => hasPrefix pGno s', ['hasPrefix', 'pGno']),
    '_strip_unimod_str': ('fun _ s => stripPrefix pUnimod s', ['stripPrefix', 'hasPrefix', 'pUnimod']),
    '_strip_psi_str': ('fun _ s => stripPrefix pPsi s', ['stripPrefix', 'hasPrefix', 'pPsi']),
    '_strip_xlmod_str': ('fun _ s => stripPrefix pXlmod s', ['stripPrefix', 'hasPrefix', 'pXlmod']),
    '_strip_resid_str': ('fun _ s => stripPrefix pResid s', ['stripPrefix', 'hasPrefix', 'pResid']),
    '_strip_gno_str': ('fun _ s => stripPrefix pGno s', ['stripPrefix', 'hasPrefix', 'pGno']),
}
STRIP_FAMILY = {'_strip_unimod_str': 'pUnimod', '_strip_psi_str': 'pPsi', '_strip_xlmod_str': 'pXlmod',
                '_strip_resid_str': 'pResid', '_strip_gno_str': 'pGno'}

MASS_ACTIONS = {'_parse_glycan_mass_from_proforma_str': 'glycan', 'parse_gno_mass': 'gno', 'parse_xlmod_mass': 'xlmod',
                'parse_resid_mass': 'resid', 'parse_psi_mass': 'psi', 'parse_unimod_mass': 'unimod',
                '_parse_chem_mass_from_proforma_str': 'formula', '_parse_obs_mass_from_proforma_str': 'obs'}
COMP_ACTIONS = {'_parse_glycan_comp': 'glycan', 'parse_gno_comp': 'gno', 'parse_xlmod_comp': 'xlmod', 'parse_resid_comp': 'resid',
                'parse_psi_comp': 'psi', 'parse_unimod_comp': 'unimod'}


class Untranslatable(Exception):
    pass


def lean_lit(s):
    if not all(32 <= ord(c) < 127 for c in s):
        raise Untranslatable(f'non-ASCII / control character in literal {s!r}')
    return '(str% "' + s.replace('\\', '\\\\').replace('"', '\\"') + '")'


class Fn:
    """translation of one function body"""

    def __init__(self, param, known_preds=()):
        self.env = {param: 'str'}
        self.known_preds = set(known_preds)

    def ident(self, name):
        # Lean identifiers: python names are fine except a few keywords
        return name + '_' if name in ('from', 'end', 'at', 'do', 'then', 'else', 'if', 'fun', 'let', 'have', 'show', 'open', 'in') else name

    def expr(self, e):
        """-> (lean text, type)"""
        if isinstance(e, ast.Name):
            if e.id in self.env:
                return self.ident(e.id), self.env[e.id]
            raise Untranslatable(f'unknown name {e.id}')
        if isinstance(e, ast.Constant):
            if isinstance(e.value, str):
                return lean_lit(e.value), 'str'
            if e.value is True:
                return 'true', 'bool'
            if e.value is False:
                return 'false', 'bool'
            raise Untranslatable(f'constant {e.value!r}')
        if isinstance(e, ast.BoolOp):
            op = '||' if isinstance(e.op, ast.Or) else '&&'
            parts = []
            for v in e.values:
                t, ty = self.expr(v)
                if ty != 'bool':
                    raise Untranslatable('non-boolean operand of or/and')
                parts.append(t)
            out = parts[0]
            for p in parts[1:]:
                out = f'({out} {op} {p})'
            return out, 'bool'
        if isinstance(e, ast.UnaryOp) and isinstance(e.op, ast.Not):
            t, ty = self.expr(e.operand)
            if ty != 'bool':
                raise Untranslatable('not of a non-boolean')
            return f'(!{t})', 'bool'
        if isinstance(e, ast.Compare) and len(e.ops) == 1 and isinstance(e.ops[0], ast.In) and \
                isinstance(e.left, ast.Constant) and isinstance(e.left.value, str):
            t, ty = self.expr(e.comparators[0])
            if ty != 'str':
                raise Untranslatable('`in` on a non-string')
            return f'(PyStr.isInfix {lean_lit(e.left.value)} {t})', 'bool'
        if isinstance(e, ast.Call):
            f = e.func
            if e.keywords and not (isinstance(f, ast.Attribute) and f.attr == 'split'):
                raise Untranslatable('keyword arguments')
            if isinstance(f, ast.Attribute):
                # DB.contains_id(x) / DB.contains_name(x)
                if isinstance(f.value, ast.Name) and f.value.id in DB_FIELDS and f.attr in ('contains_id', 'contains_name') \
                        and len(e.args) == 1:
                    t, ty = self.expr(e.args[0])
                    if ty != 'str':
                        raise Untranslatable('contains_* of a non-string')
                    fn = 'byId' if f.attr == 'contains_id' else 'byName'
                    return f'({fn} T.{DB_FIELDS[f.value.id]} {t}).isSome', 'bool'
                recv, rty = self.expr(f.value)
                if rty != 'str':
                    raise Untranslatable(f'method {f.attr} on a non-string')
                if f.attr == 'lower' and not e.args:
                    return f'(lower {recv})', 'str'
                if f.attr == 'startswith' and len(e.args) == 1:
                    a = e.args[0]
                    if isinstance(a, ast.Constant) and isinstance(a.value, str):
                        return f'startsWith {recv} {lean_lit(a.value)}', 'bool'
                    if isinstance(a, ast.Tuple) and all(isinstance(x, ast.Constant) and isinstance(x.value, str) for x in a.elts):
                        lits = ', '.join(lean_lit(x.value) for x in a.elts)
                        return f'([{lits}].any (fun p => startsWith {recv} p))', 'bool'
                    raise Untranslatable('startswith with a non-literal argument')
                raise Untranslatable(f'method .{f.attr}(…)')
            if isinstance(f, ast.Name) and f.id in self.known_preds and len(e.args) == 1:
                t, ty = self.expr(e.args[0])
                if ty != 'str':
                    raise Untranslatable('predicate call on a non-string')
                return f'{f.id} T {t}', 'bool'
            raise Untranslatable('call of ' + (f.id if isinstance(f, ast.Name) else ast.dump(f)[:40]))
        if isinstance(e, ast.Subscript):
            # x.split(':', 1)[1]  /  x.split(':')[1]
            v = e.value
            if isinstance(v, ast.Call) and isinstance(v.func, ast.Attribute) and v.func.attr == 'split':
                recv, rty = self.expr(v.func.value)
                if rty != 'str':
                    raise Untranslatable('split on a non-string')
                args = list(v.args)
                maxsplit = None
                for kw in v.keywords:
                    if kw.arg == 'maxsplit' and isinstance(kw.value, ast.Constant):
                        maxsplit = kw.value.value
                    else:
                        raise Untranslatable('split keyword')
                if len(args) == 2 and isinstance(args[1], ast.Constant):
                    maxsplit = args[1].value
                    args = args[:1]
                if len(args) != 1 or not (isinstance(args[0], ast.Constant) and args[0].value == ':'):
                    raise Untranslatable('split with a separator other than the literal ":"')
                if not (isinstance(e.slice, ast.Constant) and e.slice.value == 1):
                    raise Untranslatable('split(...)[i] with i != 1')
                if maxsplit is None:
                    return f'((splitColon1 {recv}).getD [])', 'str'      # text between the first and the second colon
                if maxsplit == 1:
                    return f'((afterColon {recv}).getD [])', 'str'       # everything after the first colon
                raise Untranslatable(f'split with maxsplit={maxsplit!r}')
            # x[len('lit'):]
            if isinstance(e.slice, ast.Slice) and e.slice.upper is None and e.slice.step is None and \
                    isinstance(e.slice.lower, ast.Call) and isinstance(e.slice.lower.func, ast.Name) and \
                    e.slice.lower.func.id == 'len' and len(e.slice.lower.args) == 1 and \
                    isinstance(e.slice.lower.args[0], ast.Constant) and isinstance(e.slice.lower.args[0].value, str):
                recv, rty = self.expr(v)
                if rty != 'str':
                    raise Untranslatable('slice of a non-string')
                return f'(PyStr.dropLen {len(e.slice.lower.args[0].value)} {recv})', 'str'
            raise Untranslatable('subscript')
        raise Untranslatable(type(e).__name__)

    def block(self, stmts, want):
        """-> lean text of a statement list that ends in return on every path"""
        if not stmts:
            raise Untranslatable('a path without return')
        s, rest = stmts[0], stmts[1:]
        if isinstance(s, ast.Expr) and isinstance(s.value, ast.Constant) and isinstance(s.value.value, str):
            return self.block(rest, want)  # docstring
        if isinstance(s, ast.Assign) and len(s.targets) == 1 and isinstance(s.targets[0], ast.Name):
            t, ty = self.expr(s.value)
            self.env[s.targets[0].id] = ty
            return f'let {self.ident(s.targets[0].id)} := {t}\n  ' + self.block(rest, want)
        if isinstance(s, ast.Return):
            if s.value is None:
                raise Untranslatable('bare return')
            t, ty = self.expr(s.value)
            if ty != want:
                raise Untranslatable(f'returns {ty}, expected {want}')
            return t
        if isinstance(s, ast.If):
            c, cty = self.expr(s.test)
            if cty != 'bool':
                raise Untranslatable('non-boolean condition')
            saved = dict(self.env)
            a = self.block(s.body, want)
            self.env = dict(saved)
            b = self.block(s.orelse + rest if s.orelse else rest, want)
            return f'if {c} then {a}\n  else {b}'
        raise Untranslatable('statement ' + type(s).__name__)


def translate_function(fd, want):
    if len(fd.args.args) != 1 or fd.args.vararg or fd.args.kwarg or fd.args.kwonlyargs or fd.decorator_list:
        raise Untranslatable('signature is not f(s)')
    fn = Fn(fd.args.args[0].arg)
    body = fn.block(fd.body, want)
    return f'def {fd.name} (T : Tables) ({fn.ident(fd.args.args[0].arg)} : Str) : {"Bool" if want == "bool" else "Str"} :=\n  {body}'


def dispatch_chain(fd, actions, preds, kind):
    """the chain  `if <guard>: return <action>(mod …)` … `return None`  after `mod_lower = mod.lower()` in the resolvers"""
    if not fd.args.args:
        raise Untranslatable('no parameter')
    param = fd.args.args[0].arg
    fn = Fn(param, preds)
    stmts = list(fd.body)
    # find the assignment  <v> = <param>.lower()
    start = None
    for i, s in enumerate(stmts):
        if isinstance(s, ast.Assign) and len(s.targets) == 1 and isinstance(s.targets[0], ast.Name) and \
                isinstance(s.value, ast.Call) and isinstance(s.value.func, ast.Attribute) and s.value.func.attr == 'lower' and \
                isinstance(s.value.func.value, ast.Name) and s.value.func.value.id == param and not s.value.args:
            start = i
    if start is None:
        raise Untranslatable('no `x_lower = x.lower()` anchor')
    lower_name = stmts[start].targets[0].id
    fn.env[lower_name] = 'str'
    branches = []
    for s in stmts[start + 1:]:
        if isinstance(s, ast.If) and not s.orelse:
            body = [b for b in s.body if not (isinstance(b, ast.Expr) and isinstance(b.value, ast.Constant))]
            if len(body) != 1 or not isinstance(body[0], ast.Return):
                raise Untranslatable('a branch that is not a single return')
            c, cty = fn.expr(s.test)
            if cty != 'bool':
                raise Untranslatable('non-boolean guard')
            branches.append((c, classify_action(body[0].value, actions, param, kind)))
        elif isinstance(s, ast.Return):
            if not (isinstance(s.value, ast.Constant) and s.value.value is None):
                raise Untranslatable('final statement is not `return None`')
            break
        else:
            raise Untranslatable('statement ' + type(s).__name__ + ' inside the dispatch chain')
    else:
        raise Untranslatable('chain does not end in `return None`')
    name = 'massBranch' if kind == 'mass' else 'compBranch'
    txt = f'def {name} (T : Tables) ({fn.ident(param)} : Str) : Branch :=\n  let {fn.ident(lower_name)} := (lower {fn.ident(param)})\n  '
    for c, a in branches:
        txt += f'if {c} then .{a}\n  else '
    txt += '.none'
    return txt, [a for _, a in branches]


def classify_action(v, actions, param, kind):
    if isinstance(v, ast.Constant) and v.value is None:
        return 'skip'

    def first_arg_is_param(call):
        return call.args and isinstance(call.args[0], ast.Name) and call.args[0].id == param
    if isinstance(v, ast.Call) and isinstance(v.func, ast.Name):
        if v.func.id in actions and first_arg_is_param(v):
            return actions[v.func.id]
        if kind == 'comp' and v.func.id == 'parse_chem_formula' and len(v.args) == 1:
            a = v.args[0]
            if isinstance(a, ast.Call) and isinstance(a.func, ast.Name) and a.func.id in actions and first_arg_is_param(a):
                return actions[a.func.id]
            # parse_chem_formula(mod.split(':')[1])
            if isinstance(a, ast.Subscript) and isinstance(a.value, ast.Call) and isinstance(a.value.func, ast.Attribute) and \
                    a.value.func.attr == 'split' and isinstance(a.value.func.value, ast.Name) and a.value.func.value.id == param \
                    and len(a.value.args) == 1 and isinstance(a.value.args[0], ast.Constant) and a.value.args[0].value == ':' \
                    and not a.value.keywords and isinstance(a.slice, ast.Constant) and a.slice.value == 1:
                return 'formula'
    raise Untranslatable('unrecognised branch action ' + ast.unparse(v)[:60])


def source_paths():
    import peptacular
    base = os.path.dirname(peptacular.__file__)
    return (os.path.join(base, 'mods', 'mod_db.py'), os.path.join(base, 'mass_calc.py'), os.path.join(base, 'chem', 'chem_calc.py'))


def build():
    """-> (generated lean text, props lean text, report)"""
    p_db, p_mass, p_comp = source_paths()
    report = {'translated': [], 'untranslated': {}, 'theorems': [], 'no_hand_counterpart': []}
    defs = []
    preds = []
    strips = []
    try:
        tree = ast.parse(open(p_db).read())
        fds = [n for n in tree.body if isinstance(n, ast.FunctionDef)]
    except Exception as e:  # noqa
        fds = []
        report['untranslated']['mod_db.py'] = f'cannot parse: {type(e).__name__}: {e}'
    import re
    for fd in fds:
        if re.fullmatch(r'is_\w+_str', fd.name):
            want = 'bool'
        elif re.fullmatch(r'_strip_\w+_str', fd.name):
            want = 'str'
        else:
            continue
        try:
            defs.append(translate_function(fd, want))
            report['translated'].append(fd.name)
            (preds if want == 'bool' else strips).append(fd.name)
        except Untranslatable as e:
            report['untranslated'][fd.name] = str(e)
        except Exception as e:  # noqa
            report['untranslated'][fd.name] = f'{type(e).__name__}: {e}'
    # every hand-modelled function that vanished from the source is reported as well
    for name in HAND:
        if name not in report['translated'] and name not in report['untranslated']:
            report['untranslated'][name] = 'no such function in mod_db.py'
    chains = {}
    for kind, path, fname, actions in (('mass', p_mass, '_parse_mod_mass', MASS_ACTIONS), ('comp', p_comp, '_parse_mod_comp', COMP_ACTIONS)):
        key = 'massBranch' if kind == 'mass' else 'compBranch'
        try:
            t = ast.parse(open(path).read())
            fd = [n for n in t.body if isinstance(n, ast.FunctionDef) and n.name == fname]
            if not fd:
                raise Untranslatable(f'no function {fname}')
            txt, order = dispatch_chain(fd[0], actions, preds, kind)
            defs.append(txt)
            chains[key] = order
            report['translated'].append(f'{fname} (dispatch chain: {" > ".join(order)})')
        except Untranslatable as e:
            report['untranslated'][f'{fname} (dispatch chain)'] = str(e)
        except Exception as e:  # noqa
            report['untranslated'][f'{fname} (dispatch chain)'] = f'{type(e).__name__}: {e}'

    gen = ['import PeptVerif.Model.ModDbBranch', 'import PeptVerif.Model.PyStr',
           '/-! GENERATED by harness/translate_moddb.py from src/peptacular/mods/mod_db.py (is_*_str, _strip_*_str) and the dispatch',
           'chains of mass_calc._parse_mod_mass / chem_calc._parse_mod_comp of the tree under test — do not edit. -/',
           'namespace GenModDb', 'open ModDb Formula', '']
    gen += [d + '\n' for d in defs]
    gen.append('/-- Python name → generated predicate (for the driver) -/')
    gen.append('def predFn (n : String) : Option (Tables → Str → Bool) :=\n  match n with\n' +
               ''.join(f'  | "{p}" => some {p}\n' for p in preds) + '  | _ => none')
    gen.append('def stripFn (n : String) : Option (Tables → Str → Str) :=\n  match n with\n' +
               ''.join(f'  | "{p}" => some {p}\n' for p in strips) + '  | _ => none')
    gen.append('def branchFn (n : String) : Option (Tables → Str → Branch) :=\n  match n with\n' +
               ''.join(f'  | "{k}" => some {k}\n' for k in chains) + '  | _ => none')
    gen.append('def untranslated : List String := [' + ', '.join('"' + k.replace('"', "'") + '"' for k in report['untranslated']) + ']')
    gen.append('end GenModDb')
    gen_txt = '\n'.join(gen) + '\n'

    # ---- Props/C10Gen.lean from the fixed template
    pr = ['import PeptVerif.Generated.ModDbPy', 'import PeptVerif.Lemmas.ModDbLemmas', 'import PeptVerif.Lemmas.ModDbBranch',
          '/-! GENERATED by harness/translate_moddb.py (fixed template, one theorem per function that was translatable) — do not edit.',
          'The definitions `GenModDb.*` are produced mechanically from the Python source of the tree under test; each theorem says that',
          'the hand model used by all other C10 theorems IS that definition, so those theorems hold of the translated source. -/',
          'set_option linter.unusedSimpArgs false', 'set_option linter.unusedVariables false', 'namespace C10Gen', 'open ModDb Formula', '']
    script = ('List.any_cons, List.any_nil, Bool.or_false, Bool.or_assoc, Bool.and_assoc, Bool.or_true, Bool.true_or')
    for name in preds + strips:
        if name not in HAND:
            report['no_hand_counterpart'].append(name)
            continue
        rhs, unfolds = HAND[name]
        pr.append(f'/-- `{name}` of mod_db.py, as translated, is the hand model -/')
        pr.append(f'theorem {name}_eq : GenModDb.{name} = ({rhs}) := by\n  funext T s\n'
                  f'  first\n'
                  f'  | (simp only [GenModDb.{name}, {", ".join(unfolds)}, {script}]; done)\n'
                  f'  | (simp only [GenModDb.{name}, {", ".join(unfolds)}, List.any_cons, List.any_nil]; grind)\n')
        report['theorems'].append(f'{name}_eq')
    for name in strips:
        if name in STRIP_FAMILY and name in HAND:
            fam = STRIP_FAMILY[name]
            pr.append(f'/-- obligation 1 of C10 for the TRANSLATED `{name}`: any letter-case spelling of a documented prefix is stripped to the key -/')
            pr.append(f'theorem {name}_key (T : Tables) (p p\' k : Str) (hp : p ∈ {fam}) (hl : lower p\' = p) :\n'
                      f'    GenModDb.{name} T (p\' ++ k) = k := by\n'
                      f'  have hg : ∀ q ∈ {fam}, goodPrefix q = true := by decide\n'
                      f'  rw [{name}_eq]\n  exact stripPrefix_spelled hp (hg p hp) hl k\n')
            report['theorems'].append(f'{name}_key')
    for key, hand in (('massBranch', 'ModDb.massBranch'), ('compBranch', 'ModDb.compBranch')):
        if key in chains and all(p in HAND for p in preds) and {'is_gno_str', 'is_xlmod_str', 'is_resid_str', 'is_psi_mod_str', 'is_unimod_str'} <= set(preds):
            pr.append(f'/-- the dispatch chain of the resolver, as translated, is the hand model\'s branch function -/')
            eqs = ', '.join(f'{p}_eq' for p in preds if p in HAND)
            pr.append(f'theorem {key}_eq : GenModDb.{key} = {hand} := by\n  funext T s\n'
                      f'  first\n  | (simp only [GenModDb.{key}, {hand}, {eqs}]; done)\n'
                      f'  | (simp only [GenModDb.{key}, {hand}, {eqs}]; grind)\n')
            report['theorems'].append(f'{key}_eq')
    if 'massBranch' in chains:
        pr.append('/-- hence the resolver model follows the TRANSLATED dispatch chain (for a tag-free, non-numeric alternative) -/')
        pr.append('theorem parseModMass_follows_translated_chain (T : Tables) (m : Str) (mono : Bool) (h35 : 35 ∉ m)\n'
                  '    (hc : convertType m = .str) : parseModMass T m mono = runMassBranch T m mono (GenModDb.massBranch T m) := by\n'
                  '  rw [massBranch_eq]; exact parseModMass_eq_branch T m mono h35 hc\n')
        report['theorems'].append('parseModMass_follows_translated_chain')
    if 'compBranch' in chains:
        pr.append('theorem parseModComp_follows_translated_chain (T : Tables) (m : Str) (h35 : 35 ∉ m)\n'
                  '    (hc : convertType m = .str) : parseModComp T m = runCompBranch T m (GenModDb.compBranch T m) := by\n'
                  '  rw [compBranch_eq]; exact parseModComp_eq_branch T m h35 hc\n')
        report['theorems'].append('parseModComp_follows_translated_chain')
    if not report['theorems']:
        pr.append('/-- nothing of mod_db.py was translatable in this tree -/\ntheorem nothing_translated : GenModDb.untranslated = GenModDb.untranslated := rfl\n')
    pr.append('end C10Gen')
    return gen_txt, '\n'.join(pr) + '\n', report


def _write_if_changed(path, content):
    old = open(path).read() if os.path.exists(path) else None
    if old == content:
        return False
    os.makedirs(os.path.dirname(path), exist_ok=True)
    tmp = path + '.tmp%d' % os.getpid()
    with open(tmp, 'w') as f:
        f.write(content)
    os.replace(tmp, path)
    return True


def translate_into(chk):
    """never raises; returns the report (or None when the translator itself failed, which is recorded)"""
    import atexit
    import fcntl
    import traceback
    try:
        gen_txt, props_txt, report = build()
        os.makedirs(os.path.join(VERIF, 'lean', '.lake'), exist_ok=True)
        with open(os.path.join(VERIF, 'lean', '.lake', 'verif-translate-vocab.lock'), 'w') as lk:
            fcntl.flock(lk, fcntl.LOCK_EX)
            changed = []
            if _write_if_changed(GEN_PATH, gen_txt):
                changed.append('PeptVerif.Generated.ModDbPy')
            if _write_if_changed(PROPS_PATH, props_txt):
                changed.append('PeptVerif.Props.C10Gen')
    except Exception as e:  # noqa
        chk.disagreements.append({'op': 'translate_moddb', 'line': 'mod_db.py -> Lean', 'impl': f'{type(e).__name__}: {e}'[:500] +
                                  ' | ' + traceback.format_exc()[-500:], 'model': 'previous generated module kept'})
        return None
    for m in changed:
        if m not in chk.generated_changed:
            chk.generated_changed.append(m)
    if changed and os.environ.get('VERIF_REPO'):
        atexit.register(restore_after_scratch_run)
    return report


def restore_after_scratch_run():
    import subprocess
    import sys
    if not os.environ.get('VERIF_REPO'):
        return
    env = {k: v for k, v in os.environ.items() if k not in ('VERIF_REPO', 'PYTHONPATH')}
    subprocess.run([sys.executable, '-W', 'ignore', '-m', 'harness.translate_moddb'], cwd=VERIF, env=env, capture_output=True, text=True)


if __name__ == '__main__':
    import json

    class _C:
        disagreements = []
        generated_changed = []
    r = translate_into(_C)
    print(json.dumps(r, indent=1), _C.generated_changed, _C.disagreements)
