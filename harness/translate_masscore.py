"""
Translator: /repo's CURRENT source of the small arithmetic functions of `mass_calc.py`, `chem/chem_util.py` and `util.py`
(read with `ast`, never imported) -> lean/PeptVerif/Generated/MassCorePy.lean (namespace GenMass), and
lean/PeptVerif/Props/C02Gen.lean (one equality theorem `GenMass.f = <hand model>` per translated function, assembled from the
hand-written proof scripts in harness/c02gen_template.lean).

Functions attempted: `adjust_mass`, `adjust_mz`, `_parse_adduct_mass` (mass_calc.py), `chem_mass` (chem_util.py, the dict sum;
the `isinstance(formula, str)` text branch belongs to the formula parser, C15), `merge_dicts` (util.py).
`_parse_charge_adducts_mass` is NOT attempted (isinstance dispatch on Mod / str / number): hand model only.

The Python subset is deliberately tiny (class `Fn`): `if x is None: x = e` defaults; `=`, `+=`, `-=`, `d[k] = v`; `if / elif / else`
on `==`, `!=`, `in (literal tuple)`, `[not] in TABLE`, `is True`, `is [not] None`, bare names (Python truthiness, also of an
optional int), `or`; `+ - * /`; conditional expressions; `TABLE[key]` (KeyError) for the known constant tables and the three particle
constants; `round(x, p)` -> `pyRound` (round-half-even on the exact rational); `x[0].isdigit()`; `d.get(k, 0)`;
`for k, v in d.items():` with one accumulator and `continue`; `{k: v for k, v in d.items() if c}`; tuple unpacking of
`parse_ion_elements(..)`; `_parse_charge_adducts_mass(x, monoisotopic=m)`; `return`; `raise` of the known exception classes.
Int-valued names are cast leaf-wise where Python mixes them with floats (exact over Q).  Anything else makes THAT function
`untranslated`: no definition and no equality theorem for it; the hand model stays tied by correspondence only.
The translator never raises.  This subset reader is part of the trusted base of C02 / C03 / C05.
"""
import ast
import os
import re
import subprocess

from . import core

GPATH = os.path.join(core.LEAN, 'PeptVerif', 'Generated', 'MassCorePy.lean')
PPATH = os.path.join(core.LEAN, 'PeptVerif', 'Props', 'C02Gen.lean')
TEMPLATE = os.path.join(os.path.dirname(__file__), 'c02gen_template.lean')

LEAN_TYPE = {'Rat': 'Rat', 'Int': 'Int', 'OptInt': 'Option Int', 'Bool': 'Bool', 'Key': 'Key', 'OptVal': 'Option ModVal',
             'Comp': 'Comp', 'Codes': 'List Nat', 'Val': 'ModVal'}

# (file, python parameter names in order, lean types; None = parameter dropped, see `skip`), result type
SPECS = {
    'adjust_mz': ('mass_calc.py', [('base_mass', 'Rat'), ('charge', 'OptInt'), ('precision', 'OptInt')], 'Rat'),
    'adjust_mass': ('mass_calc.py', [('base_mass', 'Rat'), ('charge', 'OptInt'), ('ion_type', 'Key'), ('monoisotopic', 'Bool'),
                                     ('isotope', 'Int'), ('loss', 'Rat'), ('charge_adducts', 'OptVal'), ('precision', 'OptInt')], 'Rat'),
    '_parse_adduct_mass': ('mass_calc.py', [('adduct', 'Codes'), ('precision', 'OptInt'), ('monoisotopic', 'Bool')], 'Rat'),
    'chem_mass': (os.path.join('chem', 'chem_util.py'), [('formula', 'Comp'), ('monoisotopic', 'Bool'), ('precision', 'OptInt'),
                                                           ('sep', None)], 'Rat'),
    'merge_dicts': ('util.py', [('d1', 'Comp'), ('d2', 'Comp')], 'Comp'),
}
TARGETS = ['adjust_mz', 'adjust_mass', '_parse_adduct_mass', 'chem_mass', 'merge_dicts']
HAND_ONLY = {'_parse_charge_adducts_mass': 'isinstance dispatch on Mod / str / number'}

CONSTS = {'PROTON_MASS': 'Gen.protonMass', 'ELECTRON_MASS': 'Gen.electronMass', 'NEUTRON_MASS': 'Gen.neutronMass'}
TABLES = {'MONOISOTOPIC_FRAGMENT_ION_ADJUSTMENTS': 'fragmentIonAdjMass true {k}', 'AVERAGE_FRAGMENT_ION_ADJUSTMENTS': 'fragmentIonAdjMass false {k}',
          'MONOISOTOPIC_FRAGMENT_ADJUSTMENTS': 'fragmentAdjMass true {k}', 'AVERAGE_FRAGMENT_ADJUSTMENTS': 'fragmentAdjMass false {k}',
          'ISOTOPIC_ATOMIC_MASSES': 'lookup {k} isotopicMasses', 'AVERAGE_ATOMIC_MASSES': 'lookup {k} averageMasses'}
ERRORS = {'InvalidChemFormulaError': 'Err.invalidChemFormula', 'ValueError': 'Err.valueError', 'TypeError': 'Err.typeError',
          'KeyError': 'Err.keyError'}
RESERVED = {'end', 'at', 'from', 'fun', 'let', 'in', 'do', 'then', 'else', 'if', 'match', 'with', 'have', 'show', 'open', 'def'}


class Untranslatable(Exception):
    pass


def key_of(s):
    if not s or any(ord(c) > 127 for c in s):
        raise Untranslatable('string literal')
    return int.from_bytes(s.encode('ascii'), 'big')


def lname(n):
    return n + '_' if n in RESERVED else n


def is_none(e):
    return isinstance(e, ast.Constant) and e.value is None


class Fn:
    def __init__(self, name, node, spec):
        self.name = name
        self.node = node
        self.params = spec[1]
        self.ret = spec[2]
        self.tmp = 0
        self.loops = []          # auxiliary definitions (text)
        self.nloop = 0
        self.vartypes = {}
        self.joined = set()
        self.monadic = self._raises(node)

    # ------------------------------------------------------------------ does the function need the Except monad
    @staticmethod
    def _raises(node):
        for n in ast.walk(node):
            if isinstance(n, ast.Raise):
                return True
            if isinstance(n, ast.Subscript) and isinstance(n.value, ast.Name) and n.value.id in TABLES and isinstance(n.ctx, ast.Load):
                return True
            if isinstance(n, ast.Call) and isinstance(n.func, ast.Name) and n.func.id in ('_parse_charge_adducts_mass', 'parse_ion_elements'):
                return True
        return False

    def fresh(self):
        self.tmp += 1
        return f't{self.tmp}'

    # ------------------------------------------------------------------ expressions: -> (text, type, prebinds)
    def expr(self, e, env, want=None):
        if isinstance(e, ast.Constant):
            v = e.value
            if isinstance(v, bool):
                return ('true' if v else 'false'), 'Bool', []
            if isinstance(v, int):
                return (str(v) if v >= 0 else f'({v})'), ('Rat' if want == 'Rat' else 'Int'), []
            if isinstance(v, float):
                if v == int(v) and abs(v) < 10 ** 9:
                    return str(int(v)), 'Rat', []
                raise Untranslatable('float literal')
            if isinstance(v, str):
                return str(key_of(v)), 'Key', []
            raise Untranslatable('constant')
        if isinstance(e, ast.Name):
            if e.id in CONSTS and e.id not in env:
                return CONSTS[e.id], 'Rat', []
            if e.id not in env:
                raise Untranslatable(f'unknown name {e.id}')
            t = env[e.id]
            if t == 'Int' and want == 'Rat':
                return f'({lname(e.id)} : Rat)', 'Rat', []
            return lname(e.id), t, []
        if isinstance(e, ast.UnaryOp) and isinstance(e.op, ast.USub):
            a, t, pb = self.expr(e.operand, env, want)
            if t not in ('Int', 'Rat'):
                raise Untranslatable('negation')
            return f'(-{a})', t, pb
        if isinstance(e, ast.BinOp) and isinstance(e.op, (ast.Add, ast.Sub, ast.Mult, ast.Div)):
            op = {ast.Add: '+', ast.Sub: '-', ast.Mult: '*', ast.Div: '/'}[type(e.op)]
            _, ta, _ = self.expr(e.left, env)
            _, tb, _ = self.expr(e.right, env)
            if ta not in ('Int', 'Rat') or tb not in ('Int', 'Rat'):
                raise Untranslatable('arithmetic on ' + ta + '/' + tb)
            rat = want == 'Rat' or ta == 'Rat' or tb == 'Rat' or op == '/'
            self.tmp -= self._count_tmp(e.left) + self._count_tmp(e.right)      # the probing above must not consume names
            w = 'Rat' if rat else None
            a, _, pa = self.expr(e.left, env, w)
            b, _, pb = self.expr(e.right, env, w)
            return f'({a} {op} {b})', ('Rat' if rat else 'Int'), pa + pb
        if isinstance(e, ast.IfExp) and isinstance(e.test, ast.Name) and env.get(e.test.id) == 'OptInt':
            # Python truthiness of an optional int: None and 0 take the else arm
            n = e.test.id
            inner = dict(env)
            inner[n] = 'Int'
            x, tx, px = self.expr(e.body, inner, want)
            z, tz, pz = self.expr(e.orelse, inner, want)
            y, ty, py = self.expr(e.orelse, env, want)
            if not (tx == ty == tz) or px or py or pz:
                raise Untranslatable('conditional expression on an optional value')
            return f'(match {lname(n)} with | some {lname(n)} => (if {lname(n)} != 0 then {x} else {z}) | none => {y})', tx, []
        if isinstance(e, ast.IfExp):
            c, pc = self.cond(e.test, env)
            a, ta, pa = self.expr(e.body, env, want)
            b, tb, pb = self.expr(e.orelse, env, want)
            if ta != tb:
                raise Untranslatable('conditional expression of two types')
            if pa or pb:
                if not self.monadic:
                    raise Untranslatable('raising conditional in a pure function')
                t = self.fresh()
                blk = lambda pre, v: 'do\n' + ''.join(f'      {x}\n' for x in pre) + f'      pure {v}' if pre else f'pure {v}'
                # a single table look-up per arm is written without the intermediate name
                arm = lambda pre, v: pre[0].split('← ', 1)[1] if len(pre) == 1 and pre[0].startswith(f'let {v} ←') else '(' + blk(pre, v) + ')'
                return t, ta, pc + [f'let {t} ← (if {c} then {arm(pa, a)} else {arm(pb, b)})']
            return f'(if {c} then {a} else {b})', ta, pc
        if isinstance(e, ast.Subscript) and isinstance(e.value, ast.Name) and e.value.id in TABLES:
            k, tk, pk = self.expr(e.slice, env)
            if tk != 'Key':
                raise Untranslatable('table key')
            t = self.fresh()
            return t, 'Rat', pk + [f'let {t} ← tbl ({TABLES[e.value.id].format(k=k)})']
        if isinstance(e, ast.Call):
            f = e.func
            if isinstance(f, ast.Name) and f.id == 'round' and len(e.args) == 2 and not e.keywords:
                a, ta, pa = self.expr(e.args[0], env, 'Rat')
                b, tb, pb = self.expr(e.args[1], env)
                if ta != 'Rat' or tb != 'Int':
                    raise Untranslatable('round arguments')
                return f'(pyRound {a} {b})', 'Rat', pa + pb
            if isinstance(f, ast.Name) and f.id == '_parse_charge_adducts_mass':
                if len(e.args) != 1 or [k.arg for k in e.keywords] != ['monoisotopic']:
                    raise Untranslatable('call form of _parse_charge_adducts_mass')
                a, ta, pa = self.expr(e.args[0], env)
                m, tm, pm = self.expr(e.keywords[0].value, env)
                if ta != 'Val' or tm != 'Bool':
                    raise Untranslatable('argument types of _parse_charge_adducts_mass')
                t = self.fresh()
                return t, 'Rat', pa + pm + [f'let {t} ← Mass.chargeAdductsMass {m} {a}']
            if isinstance(f, ast.Attribute) and f.attr == 'get' and isinstance(f.value, ast.Name) and len(e.args) == 2:
                d, td, _ = self.expr(f.value, env)
                k, tk, pk = self.expr(e.args[0], env)
                z, tz, pz = self.expr(e.args[1], env, 'Rat')
                if td != 'Comp' or tk != 'Key' or tz != 'Rat':
                    raise Untranslatable('dict.get form')
                return f'((lookup {k} {d}).getD {z})', 'Rat', pk + pz
            if (isinstance(f, ast.Attribute) and f.attr == 'isdigit' and not e.args and isinstance(f.value, ast.Subscript) and
                    isinstance(f.value.slice, ast.Constant) and f.value.slice.value == 0):
                s, ts, ps = self.expr(f.value.value, env)
                if ts != 'Key':
                    raise Untranslatable('isdigit on a non-string')
                return f'isDigitCode (keyHead {s})', 'Bool', ps
            raise Untranslatable('call ' + ast.unparse(f))
        raise Untranslatable('expression ' + type(e).__name__)

    @staticmethod
    def _count_tmp(e):
        n = 0
        for x in ast.walk(e):
            if isinstance(x, ast.Subscript) and isinstance(x.value, ast.Name) and x.value.id in TABLES:
                n += 1
            if isinstance(x, ast.Call) and isinstance(x.func, ast.Name) and x.func.id == '_parse_charge_adducts_mass':
                n += 1
            if isinstance(x, ast.IfExp):
                n += 0
        return n

    # ------------------------------------------------------------------ conditions: -> (text usable after `if`, prebinds)
    def cond(self, t, env, as_bool=False):
        def wrap(prop):
            return f'decide ({prop})' if as_bool else prop
        if isinstance(t, ast.BoolOp) and isinstance(t.op, ast.Or):
            parts, pre = [], []
            for v in t.values:
                c, p = self.cond(v, env, as_bool=True)
                parts.append(c)
                pre += p
            return '(' + ' || '.join(parts) + ')', pre
        if isinstance(t, ast.Compare) and len(t.ops) == 1:
            op, l, r = t.ops[0], t.left, t.comparators[0]
            if isinstance(op, (ast.In, ast.NotIn)) and isinstance(r, ast.Tuple):
                a, ta, pa = self.expr(l, env)
                ks = []
                for x in r.elts:
                    b, tb, _ = self.expr(x, env)
                    if tb != ta:
                        raise Untranslatable('tuple membership types')
                    ks.append(f'{a} = {b}')
                c = '(' + ' || '.join(ks) + ')'
                return (c if isinstance(op, ast.In) else f'(!{c})'), pa
            if isinstance(op, (ast.In, ast.NotIn)) and isinstance(r, ast.Name) and r.id in TABLES:
                a, ta, pa = self.expr(l, env)
                if ta != 'Key':
                    raise Untranslatable('table membership key')
                look = TABLES[r.id].format(k=a)
                return (f'({look}).isSome' if isinstance(op, ast.In) else f'({look}).isNone'), pa
            if isinstance(op, ast.Is) and isinstance(r, ast.Constant) and r.value is True:
                a, ta, pa = self.expr(l, env)
                if ta != 'Bool':
                    raise Untranslatable('is True on a non-bool')
                return (a if as_bool else f'{a} = true'), pa
            if isinstance(op, (ast.Eq, ast.NotEq)):
                _, ta, _ = self.expr(l, env)
                _, tb, _ = self.expr(r, env)
                w = 'Rat' if 'Rat' in (ta, tb) else None
                a, ta, pa = self.expr(l, env, w)
                b, tb, pb = self.expr(r, env, w)
                if ta != tb or ta not in ('Int', 'Rat', 'Key', 'Bool'):
                    raise Untranslatable('comparison types')
                if isinstance(op, ast.Eq):
                    return wrap(f'{a} = {b}'), pa + pb
                return f'({a} != {b})', pa + pb
            raise Untranslatable('comparison ' + type(op).__name__)
        if isinstance(t, ast.Name) and env.get(t.id) == 'Bool':
            return lname(t.id), []
        if isinstance(t, ast.Name) and env.get(t.id) == 'Int':       # Python truthiness of an int
            return f'({lname(t.id)} != 0)', []
        if isinstance(t, ast.Call):
            a, ta, pa = self.expr(t, env)
            if ta == 'Bool':
                return a, pa
        raise Untranslatable('condition ' + ast.unparse(t))

    # ------------------------------------------------------------------ statements
    @staticmethod
    def assigned(stmts):
        out = []
        for s in stmts:
            if isinstance(s, ast.Assign):
                for tg in s.targets:
                    if isinstance(tg, ast.Name) and tg.id not in out:
                        out.append(tg.id)
                    elif isinstance(tg, ast.Subscript) and isinstance(tg.value, ast.Name) and tg.value.id not in out:
                        out.append(tg.value.id)
                    elif isinstance(tg, ast.Tuple):
                        for x in tg.elts:
                            if isinstance(x, ast.Name) and x.id not in out:
                                out.append(x.id)
            elif isinstance(s, ast.AugAssign) and isinstance(s.target, ast.Name):
                if s.target.id not in out:
                    out.append(s.target.id)
            elif isinstance(s, ast.If):
                for v in Fn.assigned(s.body) + Fn.assigned(s.orelse):
                    if v not in out:
                        out.append(v)
            elif isinstance(s, ast.For):
                for v in Fn.assigned(s.body):
                    if v not in out:
                        out.append(v)
        return out

    def bind(self, name, text, typed=None):
        return f'let {lname(name)}{(" : " + LEAN_TYPE[typed]) if typed else ""} := {text}'

    def block(self, stmts, env, ind, result):
        """lines for a statement list that ends by yielding `result` (a variable name) unless it returns / raises itself"""
        env = dict(env)
        lines = []
        pad = ' ' * ind
        i = 0
        while i < len(stmts):
            s = stmts[i]
            rest = stmts[i + 1:]
            if isinstance(s, ast.Expr) and isinstance(s.value, ast.Constant) and isinstance(s.value.value, str):
                i += 1
                continue
            if isinstance(s, ast.Return):
                if s.value is None:
                    raise Untranslatable('bare return')
                a, ta, pa = self.expr(s.value, env, self.ret if self.ret == 'Rat' else None)
                if ta != self.ret:
                    raise Untranslatable(f'return type {ta}')
                lines += [pad + x for x in pa]
                lines.append(pad + (f'pure {a}' if self.monadic else a))
                return lines
            if isinstance(s, ast.Raise):
                lines.append(pad + 'Except.error ' + self.error_of(s))
                return lines
            if isinstance(s, ast.Continue):
                break
            if isinstance(s, ast.Assign) and len(s.targets) == 1:
                tg = s.targets[0]
                if isinstance(tg, ast.Name):
                    if isinstance(s.value, ast.DictComp):
                        lines.append(pad + self.dictcomp(tg.id, s.value, env))
                        env[tg.id] = 'Comp'
                    elif isinstance(s.value, ast.Dict) and not s.value.keys:
                        lines.append(pad + self.bind(tg.id, '[]', 'Comp'))
                        env[tg.id] = 'Comp'
                    else:
                        first = tg.id not in env
                        a, ta, pa = self.expr(s.value, env, 'Rat' if (env.get(tg.id) == 'Rat' or isinstance(getattr(s.value, 'value', None), float)) else None)
                        if not first and env[tg.id] != ta:
                            raise Untranslatable(f'{tg.id} changes type')
                        lines += [pad + x for x in pa]
                        lines.append(pad + self.bind(tg.id, a, ta if first and isinstance(s.value, ast.Constant) else None))
                        env[tg.id] = ta
                        self.vartypes[tg.id] = ta
                elif isinstance(tg, ast.Subscript) and isinstance(tg.value, ast.Name) and env.get(tg.value.id) == 'Comp':
                    k, tk, pk = self.expr(tg.slice, env)
                    v, tv, pv = self.expr(s.value, env, 'Rat')
                    if tk != 'Key' or tv != 'Rat' or pk or pv:
                        raise Untranslatable('dict store form')
                    lines.append(pad + self.bind(tg.value.id, f'setKey {lname(tg.value.id)} {k} {v}'))
                elif (isinstance(tg, ast.Tuple) and isinstance(s.value, ast.Call) and isinstance(s.value.func, ast.Name) and
                      s.value.func.id == 'parse_ion_elements' and len(tg.elts) == 3 and len(s.value.args) == 1):
                    a, ta, pa = self.expr(s.value.args[0], env)
                    if ta != 'Codes' or not all(isinstance(x, ast.Name) for x in tg.elts):
                        raise Untranslatable('parse_ion_elements form')
                    names = [x.id for x in tg.elts]
                    lines.append(pad + f'let ({", ".join(lname(n) for n in names)}) ← Mass.parseIonElements {a}')
                    env[names[0]], env[names[1]], env[names[2]] = 'Int', 'Key', 'Int'
                else:
                    raise Untranslatable('assignment target')
                i += 1
                continue
            if isinstance(s, ast.AugAssign) and isinstance(s.target, ast.Name) and isinstance(s.op, (ast.Add, ast.Sub)):
                n = s.target.id
                if env.get(n) != 'Rat':
                    raise Untranslatable('augmented assignment to a non-float')
                a, ta, pa = self.expr(s.value, env, 'Rat')
                lines += [pad + x for x in pa]
                lines.append(pad + self.bind(n, f'{lname(n)} {"+" if isinstance(s.op, ast.Add) else "-"} {a}'))
                i += 1
                continue
            if isinstance(s, ast.For):
                lines += [pad + x for x in self.loop(s, env)]
                i += 1
                continue
            if isinstance(s, ast.If):
                # the text branch of chem_mass belongs to the formula parser (C15): recognised and left out
                if (self.name == 'chem_mass' and ast.unparse(s.test) == 'isinstance(formula, str)' and not s.orelse and
                        len(s.body) == 1 and ast.unparse(s.body[0]) == 'formula = parse_chem_formula(formula, sep)'):
                    i += 1
                    continue
                got, stop = self.if_stmt(s, rest, env, ind, result)
                lines += got
                if stop:
                    return lines
                for v in self.assigned([s]):
                    if v in env and env[v] in ('OptInt',) and self.is_default(s, v):
                        env[v] = 'Int'
                    elif v not in env and v in self.joined:
                        env[v] = self.vartypes[v]
                i += 1
                continue
            raise Untranslatable('statement ' + type(s).__name__)
        if result is None:
            raise Untranslatable('function falls off its end')
        lines.append(pad + (f'pure {lname(result)}' if self.monadic else lname(result)))
        return lines

    @staticmethod
    def is_default(s, v):
        return (isinstance(s.test, ast.Compare) and isinstance(s.test.left, ast.Name) and s.test.left.id == v and
                isinstance(s.test.ops[0], ast.Is) and is_none(s.test.comparators[0]))

    def error_of(self, s):
        e = s.exc
        n = e.func.id if isinstance(e, ast.Call) and isinstance(e.func, ast.Name) else (e.id if isinstance(e, ast.Name) else None)
        if n not in ERRORS:
            raise Untranslatable('raise of ' + ast.unparse(e)[:40])
        return ERRORS[n]

    def branch(self, stmts, env, ind, result):
        """a branch as one parenthesised expression yielding `result`"""
        ls = self.block(stmts, env, ind + 2, result)
        if len(ls) == 1:
            return ls[0].strip()
        head = 'do\n' if self.monadic else '\n'
        return head + '\n'.join(ls)

    def if_stmt(self, s, rest, env, ind, result):
        """-> (lines, stop): an `if` joins on the single variable it assigns; a branch ending in `continue` takes the rest of the
        loop body as its else branch"""
        pad = ' ' * ind
        t = s.test
        # `if x is None: x = e`  (default of an optional parameter)
        if (isinstance(t, ast.Compare) and isinstance(t.ops[0], ast.Is) and is_none(t.comparators[0]) and isinstance(t.left, ast.Name)
                and not s.orelse and len(s.body) == 1 and isinstance(s.body[0], ast.Assign) and
                isinstance(s.body[0].targets[0], ast.Name) and s.body[0].targets[0].id == t.left.id and env.get(t.left.id) == 'OptInt'):
            a, ta, pa = self.expr(s.body[0].value, env)
            if ta != 'Int' or pa:
                raise Untranslatable('default value')
            n = lname(t.left.id)
            return [pad + f'let {n} : Int := match {n} with | none => {a} | some v => v'], False
        ends_continue = bool(s.body) and isinstance(s.body[-1], ast.Continue)
        if ends_continue and s.orelse:
            raise Untranslatable('continue with else')
        body = s.body
        orelse = rest if ends_continue else s.orelse
        ab, ao = self.assigned(body), self.assigned(orelse)
        ws = [w for w in ab + [x for x in ao if x not in ab] if w in env or (w in ab and w in ao)]
        ws = ws if not ends_continue else ([result] if result else [])
        if ends_continue:
            w = result
        else:
            if len(ws) != 1:
                raise Untranslatable('if statement joining on %d variables' % len(ws))
            w = ws[0]
            self.joined.add(w)
        arrow = '←' if self.monadic else ':='
        # optional tests: `x is not None`, `x is None`, bare optional name (Python truthiness)
        opt = None
        if isinstance(t, ast.Compare) and isinstance(t.ops[0], (ast.Is, ast.IsNot)) and is_none(t.comparators[0]) and \
                isinstance(t.left, ast.Name) and env.get(t.left.id) in ('OptInt', 'OptVal'):
            opt = (t.left.id, isinstance(t.ops[0], ast.IsNot), False)
        elif isinstance(t, ast.Name) and env.get(t.id) == 'OptInt':
            opt = (t.id, True, True)
        if opt:
            n, some_is_body, truthy = opt
            inner = dict(env)
            inner[n] = 'Int' if env[n] == 'OptInt' else 'Val'
            sb, nb = (body, orelse) if some_is_body else (orelse, body)
            some_txt = self.branch(sb, inner, ind + 2, w)
            none_txt = self.branch(nb, env, ind + 2, w)
            if truthy:
                zero_txt = self.branch(nb, inner, ind + 4, w)
                some_txt = f'if {lname(n)} != 0 then ({some_txt}) else ({zero_txt})'
            lines = [pad + f'let {lname(w)} {arrow} (match {lname(n)} with',
                     pad + f'  | some {lname(n)} => {some_txt}',
                     pad + f'  | none => {none_txt})']
        else:
            c, pc = self.cond(t, env)
            lines = [pad + x for x in pc]
            bt = self.branch(body, env, ind + 2, w)
            if len(orelse) == 1 and isinstance(orelse[0], ast.If) and not ends_continue:
                # elif chain: the nested `if` yields the same variable
                sub, _ = self.if_stmt(orelse[0], [], env, ind + 2, w)
                m = re.match(r'\s*let (\S+) (←|:=) \((.*)\)$', '\n'.join(sub), re.S)
                if not m:
                    raise Untranslatable('elif chain')
                et = m.group(3)
            else:
                et = self.branch(orelse, env, ind + 2, w) if orelse else (f'pure {lname(w)}' if self.monadic else lname(w))
            lines.append(pad + f'let {lname(w)} {arrow} (if {c} then {bt}')
            lines.append(pad + f'  else {et})')
        if ends_continue:
            # the rest of the loop body has been consumed by the else branch
            lines.append(pad + (f'pure {lname(w)}' if self.monadic else lname(w)))
            return lines, True
        return lines, False

    def dictcomp(self, target, dc, env):
        g = dc.generators[0] if len(dc.generators) == 1 else None
        if (g is None or g.is_async or len(g.ifs) != 1 or not isinstance(g.target, ast.Tuple) or len(g.target.elts) != 2 or
                not isinstance(g.iter, ast.Call) or not isinstance(g.iter.func, ast.Attribute) or g.iter.func.attr != 'items'):
            raise Untranslatable('dict comprehension form')
        k, v = [x.id for x in g.target.elts]
        if not (isinstance(dc.key, ast.Name) and dc.key.id == k and isinstance(dc.value, ast.Name) and dc.value.id == v):
            raise Untranslatable('dict comprehension maps its items')
        d, td, _ = self.expr(g.iter.func.value, env)
        if td != 'Comp':
            raise Untranslatable('dict comprehension source')
        inner = dict(env)
        inner[k], inner[v] = 'Key', 'Rat'
        c, pc = self.cond(g.ifs[0], inner, as_bool=True)
        if pc:
            raise Untranslatable('raising filter')
        return self.bind(target, f'{d}.filter (fun x => let {lname(k)} := x.1; let {lname(v)} := x.2; {c})')

    def loop(self, s, env):
        if (s.orelse or not isinstance(s.target, ast.Tuple) or len(s.target.elts) != 2 or not isinstance(s.iter, ast.Call) or
                not isinstance(s.iter.func, ast.Attribute) or s.iter.func.attr != 'items' or s.iter.args):
            raise Untranslatable('loop form')
        k, v = [x.id for x in s.target.elts]
        d, td, _ = self.expr(s.iter.func.value, env)
        if td != 'Comp':
            raise Untranslatable('loop over a non-dict')
        accs = [w for w in self.assigned(s.body) if w in env]
        if len(accs) != 1:
            raise Untranslatable('loop with %d accumulators' % len(accs))
        acc = accs[0]
        inner = dict(env)
        inner[k], inner[v] = 'Key', 'Rat'
        used = {n.id for n in ast.walk(s) if isinstance(n, ast.Name)}
        free = [p for p in env if p in used and p not in (acc, k, v) and p != (s.iter.func.value.id if isinstance(s.iter.func.value, ast.Name) else '')]
        self.nloop += 1
        aux = f'{self.name}_loop{self.nloop}'
        body = self.block(s.body, inner, 2, acc)
        rt = LEAN_TYPE[env[acc]]
        sig = ' '.join(f'({lname(p)} : {LEAN_TYPE[env[p]]})' for p in free)
        head = f'def {aux} {sig + " " if sig else ""}({lname(acc)} : {rt}) (x : Elem × Rat) : ' + (f'Except Err {rt}' if self.monadic else rt) + ' :=' + (' do' if self.monadic else '')
        self.loops.append('\n'.join([head, f'  let {lname(k)} := x.1', f'  let {lname(v)} := x.2'] + body))
        call = f'{aux}' + ''.join(' ' + lname(p) for p in free)
        if self.monadic:
            return [f'let {lname(acc)} ← {d}.foldlM ({call}) {lname(acc)}']
        return [f'let {lname(acc)} := {d}.foldl ({call}) {lname(acc)}']

    # ------------------------------------------------------------------ whole function
    def translate(self):
        a = self.node.args
        if a.vararg or a.kwarg or a.kwonlyargs or a.posonlyargs:
            raise Untranslatable('argument form')
        if [x.arg for x in a.args] != [p for p, _ in self.params]:
            raise Untranslatable('parameter list ' + str([x.arg for x in a.args]))
        env = {p: t for p, t in self.params if t is not None}
        body = self.block(self.node.body, env, 2, None)
        sig = ' '.join(f'({lname(p)} : {LEAN_TYPE[t]})' for p, t in self.params if t is not None)
        rt = LEAN_TYPE[self.ret]
        head = f'def {lname(self.name)} {sig} : ' + (f'Except Err {rt} := do' if self.monadic else f'{rt} :=')
        return '\n\n'.join(self.loops + [head + '\n' + '\n'.join(body)])


HEADER = '''import PeptVerif.Model.Mass
/-!
GENERATED by harness/translate_masscore.py from the CURRENT source of src/peptacular/{mass_calc,chem/chem_util,util}.py
(read with `ast`) - do not edit.  Statement-by-statement reading of the small arithmetic functions in terms of the same
combinators as the hand model (`tbl`, `lookup`, `setKey`, `pyRound`, `parseIonElements`, the constant tables); loop bodies are
auxiliary definitions `<function>_loop<k>`.  `Props/C02Gen.lean` proves each definition equal to the hand-written model.
-/
set_option linter.unusedVariables false
open Pept Pept.Chem Pept.Mass
namespace GenMass

'''


def read_functions(repo):
    fns = {}
    for rel in {s[0] for s in SPECS.values()}:
        tree = ast.parse(open(os.path.join(repo, 'src', 'peptacular', rel)).read())
        for node in tree.body:
            if isinstance(node, ast.FunctionDef) and node.name in SPECS and SPECS[node.name][0] == rel:
                fns[node.name] = node
    return fns


def emit(fns, skip):
    out, unt = {}, dict(skip)
    for name in TARGETS:
        if name in unt:
            continue
        if name not in fns:
            unt[name] = 'not found in the source'
            continue
        try:
            out[name] = Fn(name, fns[name], SPECS[name]).translate()
        except Untranslatable as e:
            unt[name] = str(e)
        except Exception as e:  # noqa
            unt[name] = f'{type(e).__name__}: {e}'
    done = [n for n in TARGETS if n in out]
    text = HEADER + '\n\n'.join(out[n] for n in done) + '\n\nend GenMass\n'
    return text, unt, done


def assemble_props(done, unt):
    tpl = open(TEMPLATE).read()
    head = tpl[:tpl.index('-- BEGIN ')]
    parts = [head]
    for n in TARGETS:
        m = re.search(r'-- BEGIN %s\n(.*?)-- END %s\n' % (re.escape(n), re.escape(n)), tpl, re.S)
        if n in done and m:
            parts.append(m.group(1))
        else:
            parts.append(f'-- {n}: not translated ({unt.get(n, "no template")}); the hand model is tied by correspondence only\n\n')
    parts.append('end GenMass\n')
    return ''.join(parts)


def write_if_changed(path, body):
    old = open(path).read() if os.path.exists(path) else None
    if old != body:
        os.makedirs(os.path.dirname(path), exist_ok=True)
        tmp = path + f'.tmp{os.getpid()}'
        with open(tmp, 'w') as f:
            f.write(body)
        os.replace(tmp, path)
        return True
    return False


_RESTORE = []


def translate(chk=None, repo=None, check_compiles=True):
    """-> (translated names, {untranslated name: reason}); writes the two Lean files only when they change"""
    repo = repo or core.REPO
    try:
        fns = read_functions(repo)
        skip = {}
    except Exception as e:  # noqa
        fns = {}
        skip = {n: f'source unreadable: {type(e).__name__}' for n in TARGETS}
    text, unt, done = emit(fns, skip)
    old = open(GPATH).read() if os.path.exists(GPATH) else None
    if check_compiles and text != old:
        # a definition that does not elaborate (ill-typed reading) makes its function untranslated, never the run fail
        subprocess.run(['lake', 'build', 'PeptVerif.Model.Mass'], cwd=core.LEAN, capture_output=True, text=True)
        for _ in range(len(TARGETS) + 1):
            tmp = os.path.join(core.LEAN, 'PeptVerif', 'Generated', f'MassCorePyCandidate{os.getpid()}.lean')
            with open(tmp, 'w') as f:
                f.write(text)
            try:
                p = subprocess.run(['lake', 'env', 'lean', os.path.relpath(tmp, core.LEAN)], cwd=core.LEAN, capture_output=True,
                                   text=True, timeout=300)
                outp = p.stdout + p.stderr
            except Exception as e:  # noqa
                outp = ''
                p = None
            finally:
                os.remove(tmp)
            errs = [int(m.group(1)) for m in re.finditer(r'Candidate\d+\.lean:(\d+):\d+: error', outp)]
            if p is not None and p.returncode == 0 and not errs:
                break
            lines = text.split('\n')
            bad = set()
            for ln in errs or [len(lines)]:
                for i in range(min(ln, len(lines)) - 1, -1, -1):
                    m = re.match(r'def (\w+?)(_loop\d+)? ', lines[i])
                    if m:
                        bad.add(m.group(1).rstrip('_'))
                        break
            bad = {b for b in bad if b in done} or set(done)
            for b in bad:
                skip[b] = 'generated definition does not elaborate'
            text, unt, done = emit(fns, skip)
    changed = []
    if write_if_changed(GPATH, text):
        changed.append('Generated/MassCorePy.lean')
    if write_if_changed(PPATH, assemble_props(done, unt)):
        changed.append('Props/C02Gen.lean')
    if changed and os.environ.get('VERIF_REPO') and os.path.realpath(repo) != os.path.realpath('/repo') and not _RESTORE:
        _RESTORE.append(True)
        import atexit
        atexit.register(lambda: _safe(lambda: translate(None, '/repo')))
    if chk is not None:
        chk.generated_changed += changed
        chk.notes.append('arithmetic core translated mechanically from the source (GenMass): %s' % (', '.join(done) or 'none'))
        hand = [f'{n} ({r})' for n, r in HAND_ONLY.items()] + [f'{n} ({r})' for n, r in unt.items()]
        chk.notes.append('arithmetic core modelled by hand only: %s' % ', '.join(hand))
        for n in unt:
            chk.generated_changed.append(f'untranslated:{n}')
    return done, unt


def _safe(f):
    try:
        f()
    except Exception:  # noqa
        pass


if __name__ == '__main__':
    d, u = translate()
    print('translated:', d)
    print('untranslated:', u)
