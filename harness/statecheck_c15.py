"""
History / aliasing checks shared by the C15 and C10 checks.

The class of defect: a function hands out an object it keeps (a memoised result, a table entry, an argument) — the first
call and any number of *pure* repeated calls are right, but once some caller edits the returned value in place (user code,
or a library function such as `apply_isotope_mods_to_composition(str, …)`), every LATER call gives a different answer.

Three instruments, all on the real implementation:
  1. `isolation(call)`     : call, snapshot, MUTATE the returned dict/list in place (add a key, change counts, clear), call
                             again: the second answer must equal the first snapshot; dict/list arguments must be unchanged.
  2. `interleave(rng, …)`  : for one formula / glycan string, run the other public functions that accept it in random order
                             (mutating what they return), re-asking the reference questions after every step.
  3. `History`             : every reference answer of the run is recorded at first sight; at the END of the run a sample of
                             the earliest ones is re-evaluated in-process (whole-run history) and a sample is compared with
                             a FRESH interpreter (`/venv/bin/python -c …`, same PYTHONPATH, no result ever mutated, other
                             order) as clean-state reference.
A failure carries the concrete call sequence (function names + JSON arguments) as replay.
"""
import copy
import json
import math
import os
import subprocess
import sys

FUNCS = None


def funcs():
    """name -> callable(*json_args); imported lazily so that the subprocess uses the same table"""
    global FUNCS
    if FUNCS is None:
        import peptacular as pt
        from peptacular.chem import chem_calc as CC
        FUNCS = {
            'parse_chem_formula': lambda s, sep='': pt.parse_chem_formula(s, sep),
            'chem_mass': lambda f, mono=True, sep='': pt.chem_mass(f, monoisotopic=mono, sep=sep),
            'write_chem_formula': lambda d, sep='', hill=False: pt.write_chem_formula(d, sep, hill),
            'parse_glycan_formula': lambda s, sep='': pt.parse_glycan_formula(s, sep),
            'write_glycan_formula': lambda d, sep='': pt.write_glycan_formula(d, sep),
            'glycan_comp': lambda g: pt.glycan_comp(g),
            'glycan_mass': lambda g, mono=True: pt.glycan_mass(g, monoisotopic=mono),
            'glycan_to_chem': lambda g: CC.glycan_to_chem(g),
            'apply_isotope_mods_to_composition': lambda f, mods: CC.apply_isotope_mods_to_composition(f, mods),
            'mod_comp': lambda m: pt.mod_comp(m),
            'mod_mass': lambda m, mono=True: pt.mod_mass(m, monoisotopic=mono),
            'estimate_comp': lambda m: CC.estimate_comp(m),
            'mod_comp_mult': lambda m, k: pt.mod_comp(_mod(m, k)),
            'mod_mass_mult': lambda m, k, mono=True: pt.mod_mass(_mod(m, k), monoisotopic=mono),
            'comp': lambda seq: pt.comp(seq),
            'mass': lambda seq: pt.mass(seq),
        }
    return FUNCS


def _mod(m, k):
    from peptacular.proforma.proforma_dataclasses import Mod  # where it is defined (not a re-export)
    return Mod(m, k)


def canon(r):
    """JSON-able canonical form of a result (dicts keep their items as a sorted list with int/float kind)"""
    if isinstance(r, dict):
        return ['dict', sorted([str(k), canon(v)] for k, v in r.items())]
    if isinstance(r, (list, tuple)):
        return ['list', [canon(x) for x in r]]
    if isinstance(r, bool) or r is None or isinstance(r, str):
        return r
    if isinstance(r, int):
        return ['i', r]
    if isinstance(r, float):
        if math.isnan(r) or math.isinf(r):
            return ['f', repr(r)]
        return ['f', r]
    return ['obj', repr(r)]


def same(a, b, tol=1e-9):
    if isinstance(a, list) and isinstance(b, list):
        if len(a) == 2 and len(b) == 2 and a[0] == 'f' and b[0] == 'f' and not isinstance(a[1], str) and not isinstance(b[1], str):
            return abs(a[1] - b[1]) <= tol * max(1.0, abs(a[1]), abs(b[1]))
        return len(a) == len(b) and all(same(x, y, tol) for x, y in zip(a, b))
    return a == b


def evaluate(call):
    """call = [name, [args…]] -> (canonical answer, raw result or None)"""
    name, args = call
    try:
        r = funcs()[name](*copy.deepcopy(args))
    except Exception as e:  # noqa
        return 'ERR:' + type(e).__name__, None
    return canon(r), r


def mutate(r):
    """edit a returned container in place the way a caller could"""
    if isinstance(r, dict):
        for k in list(r.keys()):
            if isinstance(r[k], (int, float)) and not isinstance(r[k], bool):
                r[k] = r[k] + 1
        r['__verif__'] = 7
        r.pop(next(iter(r)), None)
    elif isinstance(r, list):
        r.append('__verif__')
        r.reverse()


def isolation(call, history=None):
    """instrument 1; returns None or a description"""
    args_before = canon(call[1])
    a1, r1 = evaluate(call)
    if history is not None:
        history.record(call, a1)
    if canon(call[1]) != args_before:
        return {'sequence': [call], 'what': f'{call[0]} changed its argument', 'observed': canon(call[1]), 'expected': args_before}
    if r1 is None or not isinstance(r1, (dict, list)):
        a2, _ = evaluate(call)
        if not same(a1, a2):
            return {'sequence': [call, call], 'what': f'{call[0]} answers differently the second time', 'observed': a2, 'expected': a1}
        return None
    mutate(r1)
    a2, r2 = evaluate(call)
    if not same(a1, a2):
        return {'sequence': [call, ['<caller edits the returned ' + type(r1).__name__ + ' in place>', []], call],
                'what': f'{call[0]} hands out an object it keeps: editing the returned value changes the next answer',
                'observed': a2, 'expected': a1}
    if r2 is not None:
        mutate(r2)  # leave the poison in, later history checks will see it if it sticks
    return None


def interleave(rng, refs, others, history=None, steps=6):
    """instrument 2: `refs` = reference calls about one string, `others` = other public calls that accept it.
    First answers of the references are fixed; after every other call (result mutated) all references are asked again."""
    first = []
    seq = []
    for c in refs:
        a, _ = evaluate(c)
        first.append(a)
        seq.append(c)
        if history is not None:
            history.record(c, a)
    for _ in range(steps):
        o = rng.choice(others + refs)
        a, r = evaluate(o)
        seq.append(o)
        if history is not None:
            history.record(o, a)
        if isinstance(r, (dict, list)):
            mutate(r)
            seq.append(['<caller edits the returned ' + type(r).__name__ + ' in place>', []])
        for c, a0 in zip(refs, first):
            a1, _ = evaluate(c)
            if not same(a0, a1):
                return {'sequence': seq + [c], 'what': f'{c[0]}{tuple(c[1])} changed its answer after the calls before it',
                        'observed': a1, 'expected': a0}
    return None


class History:
    """instrument 3"""

    def __init__(self, limit=4000):
        self.first = {}
        self.order = []
        self.limit = limit

    def record(self, call, answer):
        if len(self.order) >= self.limit:
            return
        k = json.dumps(call, default=str)  # no key sorting: dict order is part of a writer argument
        if k not in self.first:
            self.first[k] = answer
            self.order.append(k)

    def recheck_in_process(self, n):
        """the earliest n recorded calls, asked again at the end of the run: [(call, failure or None)]"""
        res = []
        for k in self.order[:n]:
            call = json.loads(k)
            a, _ = evaluate(call)
            res.append((call, None if same(self.first[k], a) else
                        {'sequence': ['<%d earlier calls of this run>' % len(self.order), call],
                         'what': f'{call[0]} answers differently at the end of the run than at its first call',
                         'observed': a, 'expected': self.first[k]}))
        return res

    def compare_with_fresh_process(self, rng, n):
        """a sample of the recorded answers against a fresh interpreter (reverse order, nothing mutated):
        [(call, failure or None)]"""
        pure = [k for k in self.order if json.loads(k)[0] != 'apply_isotope_mods_to_composition']
        ks = pure if len(pure) <= n else rng.sample(pure, n)
        ks = list(reversed(ks))
        code = ('import sys, json, warnings; warnings.simplefilter("ignore"); sys.path.insert(0, %r); '
                'from harness import statecheck_c15 as S; '
                'calls = json.load(sys.stdin); print(json.dumps([S.evaluate(c)[0] for c in calls]))') % os.path.dirname(
                    os.path.dirname(os.path.abspath(__file__)))
        p = subprocess.run([sys.executable, '-W', 'ignore', '-c', code], input=json.dumps([json.loads(k) for k in ks]),
                           capture_output=True, text=True)
        if p.returncode != 0:
            raise RuntimeError('fresh interpreter failed: ' + p.stderr[-500:])
        out = json.loads(p.stdout.strip().split('\n')[-1])
        res = []
        for k, a in zip(ks, out):
            call = json.loads(k)
            res.append((call, None if same(self.first[k], a, 1e-9) else
                        {'sequence': [call], 'what': f'{call[0]}: this run answered differently from a fresh interpreter',
                         'observed': self.first[k], 'expected': a}))
        return res
