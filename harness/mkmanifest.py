"""regenerates MANIFEST.json from harness/registry.py"""
import json, os
from .registry import CHECKS, NOT_APPLICABLE
VERIF = os.path.dirname(os.path.dirname(os.path.abspath(__file__)))
BASE = "cd /repo && /venv/bin/python -m pytest -ra -q -p no:cacheprovider --timeout=900 --continue-on-collection-errors"
m = {
    "version": 1,
    "setup_cmd": "./setup.sh",
    "hooks": {"guard": "PEPTACULAR_VERIF", "enable": "no hooks are needed: all checks call the library in-process; the guard is unused",
              "baseline_off_cmd": BASE, "source_commits": [], "add_only": True},
    "engines": [{"name": "lean-proof+correspondence", "path": "check", "serves_properties": [c['id'] for c in CHECKS],
                 "kind_free_text": "Lean 4 theorems about an executable model (lean/PeptVerif), tied to /repo by table translation and by differential correspondence through compiled drivers; failing-input search on the implementation"}],
    "checks": [],
    "not_applicable": NOT_APPLICABLE,
    "notes": "see DESIGN.md (section 9 = as built); ./check Cxx --tier quick|thorough [--replay FILE]; known findings in known_findings.json; seeded breaking changes in seeded/ (run_seeded.py), behaviour-preserving refactors in harmless/ (run_harmless.py); clean setup about 21 min on 16 cores, quick tier 9-65 s per property once built",
}
for c in CHECKS:
    m["checks"].append({
        "property_id": c['id'],
        "quick_cmd": f"./check {c['id']} --tier quick",
        "thorough_cmd": f"./check {c['id']} --tier thorough",
        "evidence_file": f"evidence/{c['id']}.json",
        "replay_cmd_template": f"./check {c['id']} --replay {{path}}",
        "engine": "lean-proof+correspondence",
        "level_claimed": {"category": "proof", "text": c['text'], "design_ref": c.get('ref', 'DESIGN.md §4 ' + c['id'])},
        "level_note": c['note'],
        "technique": c['technique'],
    })
json.dump(m, open(os.path.join(VERIF, 'MANIFEST.json'), 'w'), indent=1)
print('wrote MANIFEST.json with', len(m['checks']), 'checks')
